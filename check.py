#!/venv/bin/python
"""Static checks for solvOR properties C01..C20.

usage: /venv/bin/python /verif/check.py <Cxx> [--tier quick|thorough] [--root /repo] [--explain PATH]

exit 0  every obligation discharged (KNOWN-FINDING lines allowed)
exit 1  VIOLATION property=<id> replay=<path>
exit 2  ANALYSIS-ERROR (anchor vanished, floor not met, self-test failed, internal error)
"""

from __future__ import annotations

import argparse
import importlib
import json
import os
import sys
import time
import traceback

HERE = os.path.dirname(os.path.abspath(__file__))
sys.path.insert(0, HERE)

from sa.index import AnalysisError, Repo  # noqa: E402
from sa.report import Ctx, load_known, run_module, write_evidence  # noqa: E402


def run_property(prop: str, repo: Repo, tier: str) -> Ctx:
    mod = importlib.import_module(f"checks.{prop.lower()}")
    ctx = Ctx(prop, repo, tier)
    run_module(mod, ctx)
    return ctx


def main(argv=None) -> int:
    ap = argparse.ArgumentParser()
    ap.add_argument("prop")
    ap.add_argument("--tier", default=os.environ.get("VERIF_TIER") or "quick", choices=["quick", "thorough"])
    ap.add_argument("--root", default="/repo")
    ap.add_argument("--explain", default=None, help="path of a violations.json written by an earlier run")
    ap.add_argument("--no-evidence", action="store_true")
    ap.add_argument("--jobs", type=int, default=int(os.environ.get("VERIF_JOBS", "16")))
    args = ap.parse_args(argv)
    prop = args.prop.upper()
    t0 = time.time()
    try:
        if sys.version_info < (3, 12):
            raise AnalysisError("needs python >= 3.12 (repository uses PEP 695 syntax); run with /venv/bin/python")
        repo = Repo(args.root)
        mod = importlib.import_module(f"checks.{prop.lower()}")
        ctx = run_property(prop, repo, args.tier)
        known = [k for k in load_known() if k.get("property") == prop and k.get("state") == "known"]
        known_keys = {k["key"]: k for k in known}
        failed = ctx.failed()
        known_hit = [o for o in failed if o.key in known_keys]
        violations = [o for o in failed if o.key not in known_keys]
        if ctx.aborted and not violations:
            raise AnalysisError(ctx.aborted)

        if args.explain:
            try:
                wanted = {v["key"] for v in json.load(open(args.explain, encoding="utf-8"))}
            except Exception as e:  # noqa: BLE001
                raise AnalysisError(f"cannot read {args.explain}: {e}") from e
            hits = [o for o in failed if o.key in wanted]
            print(f"== {prop} explain {args.explain}: {len(hits)} of {len(wanted)} recorded findings reproduce on the current tree")
            for o in hits:
                print(f"\n{o.site()}  {o.oid} [{o.rule}]  {o.func}\n  obligation: {o.construct}\n  detail: {o.detail}")
                m = next((m for m in repo.modules.values() if m.rel == o.rel), None)
                if m is not None and o.lineno:
                    lines = m.source.splitlines()
                    for k in range(max(0, o.lineno - 3), min(len(lines), o.lineno + 4)):
                        print(f"  {'>>' if k + 1 == o.lineno else '  '} {k + 1:4d} {lines[k]}")
            return 1 if hits else 0
        print(f"== {prop} tier={args.tier} root={args.root}")
        print(f"analysed: {len(repo.modules)} modules indexed; {len(ctx.analysed_funcs)} functions consulted; {len(ctx.obs)} obligations; counts: " + ", ".join(f"{k}={v}" for k, v in sorted(ctx.counters.items())))
        if getattr(repo, "inlined_helpers", None):
            print("NOTE: helpers unknown to the baseline were analysed inlined at their call sites: " + ", ".join(sorted(set(repo.inlined_helpers))))
        if repo.renamed_units:
            print("NOTE: analysed under baseline local names (the function differs from the baseline only by renamed locals): " + ", ".join(sorted(repo.renamed_units)))
        for n in ctx.notes:
            print(f"NOTE: {n}")
        for o in sorted(ctx.obs, key=lambda o: (o.oid, o.rel, o.lineno)):
            if not o.ok and o.severity == "note":
                print(f"NOTE: {o.site()} {o.oid} [{o.rule}] {o.func}: {o.construct} -- {o.detail}")
        for o in known_hit:
            print(f"KNOWN-FINDING: property={prop} {o.oid} [{o.rule}] {o.rel}::{o.func} {o.construct} -- {known_keys[o.key].get('what', '')}")
        stale = [k for k in known if k["key"] not in {o.key for o in failed}]
        for k in stale:
            print(f"NOTE: known finding no longer reported (repaired?): {k['key']}")

        extra = {}
        selftest_failed = []
        if args.tier == "thorough" and not violations:
            from sa import selftest

            st = selftest.run(prop, mod, repo, jobs=args.jobs)
            extra["selftest"] = st["summary"]
            extra["selftest_cases"] = st["cases"]
            selftest_failed = st["failed"]
            print(f"selftest: {st['summary']}")
            for c in st["failed"]:
                print(f"SELFTEST-FAIL: {c}")
            if hasattr(mod, "thorough"):
                extra.update(mod.thorough(ctx) or {})

        wall = time.time() - t0
        if not args.no_evidence:
            write_evidence(ctx, known_hit, violations, wall, extra, getattr(mod, "EXPLANATION", ""), getattr(mod, "RULE", ""))
        if violations:
            vpath = os.path.join(HERE, "evidence", f"{prop}.violations.json")
            if not args.no_evidence:
                os.makedirs(os.path.dirname(vpath), exist_ok=True)
                with open(vpath, "w", encoding="utf-8") as fh:
                    json.dump([o.as_sample() | {"key": o.key} for o in violations], fh, indent=1)
            for o in violations:
                print(f"FINDING: {o.site()} {o.oid} [{o.rule}] {o.func}: {o.construct} -- {o.detail}")
            if ctx.aborted:
                print(f"NOTE: the property-specific analysis stopped early ({ctx.aborted}); the findings above were decided before that")
            print(f"VIOLATION property={prop} replay={vpath}")
            return 1
        stale = os.path.join(HERE, "evidence", f"{prop}.violations.json")
        if not args.no_evidence and os.path.exists(stale):
            os.remove(stale)  # replay file of an earlier run that reported a violation
        if ctx.floor_failures:
            print(f"ANALYSIS-ERROR {prop}: " + "; ".join(ctx.floor_failures))
            return 2
        if selftest_failed:
            print(f"ANALYSIS-ERROR {prop}: rule self-test failed ({len(selftest_failed)} cases)")
            return 2
        print(f"OK {prop}: {sum(1 for o in ctx.obs if o.ok)}/{len(ctx.obs)} obligations discharged, {len(known_hit)} known findings, {wall:.2f}s")
        return 0
    except AnalysisError as e:
        print(f"ANALYSIS-ERROR {prop}: {e}")
        return 2
    except SystemExit:
        raise
    except BaseException as e:  # noqa: BLE001 - tracebacks must not look like violations
        traceback.print_exc()
        print(f"ANALYSIS-ERROR {prop}: internal error {type(e).__name__}: {e}")
        return 2


if __name__ == "__main__":
    sys.exit(main())
