"""Fixture for rule R45 (never imported, never executed): one function that addresses a flat table with two strides -
the rule must report it on every run - and its repaired twin, which must stay silent."""


def two_strides(rows, cols, n, src):
    table = [0.0] * (n * n)
    for i in range(rows):
        base = i * n
        for j in range(cols):
            table[base + j] = src[i][j]
    for i in range(rows):
        base = i * cols
        for j in range(cols):
            table[base + j] = -table[base + j]
    return table[(rows - 1) * n + cols - 1]


def one_stride(rows, cols, n, src):
    table = [0.0] * (n * n)
    for i in range(rows):
        base = i * n
        for j in range(cols):
            table[base + j] = src[i][j]
    for i in range(rows):
        for j in range(cols):
            table[i * n + j] = -table[i * n + j]
    return table[(rows - 1) * n + cols - 1]
