# Positive fixture for R10/R11/R12/R13 (never imported, only parsed): the shapes the rules must keep recognising.
# It is deliberately NOT a copy of repository code; it is the minimal construct each rule is about.


class Fixture:
    def _flatten_sum(self, expr):
        terms = []

        def flatten(e):
            if isinstance(e, int):
                pass
            elif isinstance(e, tuple) and e[0] == "add":
                flatten(e[1])
                flatten(e[2])

        flatten(expr)
        return terms, 0

    def shape_dispatch(self, left, right, out):
        left_terms, _ = self._flatten_sum(left)
        right_terms, _ = self._flatten_sum(right)
        if len(left_terms) == 1 and len(right_terms) == 0:
            out.append(1)
            return
        if len(left_terms) == 1 and len(right_terms) == 1:
            out.append(2)

    def cutoff(self, lits, out):
        if not lits:
            return
        if len(lits) <= 10:
            self._encode_capacity(lits, out)

    def ungrounded(self, variables, n):
        t = [self._create_int_var(1, n - 1) for i in range(n)]
        for i, var in enumerate(variables):
            for ti in range(var.lb, var.ub + 1):
                if ti not in t[i].bool_vars:
                    continue
                self._clauses.append([-var.bool_vars[ti], -t[i].bool_vars[ti]])
