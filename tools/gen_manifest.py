#!/venv/bin/python
"""Regenerates /verif/MANIFEST.json from the metadata each check module declares."""
import importlib, json, os, sys

HERE = os.path.dirname(os.path.dirname(os.path.abspath(__file__)))
sys.path.insert(0, HERE)
PY = "/venv/bin/python"
props = [json.loads(l) for l in open(os.path.join(HERE, "properties.jsonl"))]
NA = json.load(open(os.path.join(HERE, "tools", "not_applicable.json")))
checks, na = [], []
for p in props:
    pid = p["id"]
    path = os.path.join(HERE, "checks", pid.lower() + ".py")
    if pid in NA or not os.path.exists(path):
        na.append({"property_id": pid, "reason": NA.get(pid, "no static obligation built yet for this property (see DESIGN.md section 4)")})
        continue
    m = importlib.import_module(f"checks.{pid.lower()}")
    checks.append({
        "property_id": pid,
        "quick_cmd": f"{PY} /verif/check.py {pid} --tier quick",
        "thorough_cmd": f"{PY} /verif/check.py {pid} --tier thorough",
        "evidence_file": f"/verif/evidence/{pid}.json",
        "replay_cmd_template": f"{PY} /verif/check.py {pid} --tier quick --explain {{path}}",
        "engine": "sa",
        "level_claimed": {
            "category": "other",
            "text": getattr(m, "LEVEL_TEXT", m.EXPLANATION),
            "design_ref": f"DESIGN.md section 4, {pid}",
        },
        "level_note": getattr(m, "LEVEL_NOTE", "Static analysis of structural necessary conditions only: the behaviour itself (values computed at run time) is not decided. Trusted base: CPython ast, the sa/ engine (CFG, dominators, guard normalisation), the per-property anchor tables; a vanished anchor ends the run as ANALYSIS-ERROR (exit 2)."),
        "technique": getattr(m, "TECHNIQUE", "static analysis: custom AST/CFG dominance and dataflow rules"),
    })
man = {
    "version": 1,
    "setup_cmd": f"{PY} -c \"import ast, sys; assert sys.version_info >= (3, 12)\" && {PY} /verif/tools/setup_check.py",
    "hooks": {
        "guard": "SOLVOR_VERIF",
        "enable": "none needed: the checks read source only; no guarded hook commit exists in /repo",
        "baseline_off_cmd": "cd /repo && /venv/bin/python -m pytest -ra -q -p no:cacheprovider --timeout=900 --continue-on-collection-errors",
        "source_commits": [],
        "add_only": True,
    },
    "engines": [{"name": "sa", "path": "/verif/sa", "serves_properties": [c["property_id"] for c in checks], "kind_free_text": "repository-specific static analyser on CPython ast: module/function index, call resolution, per-function CFG with branch-edge dominators, guard-atom normalisation, stutter-path folding, small abstract interpreters; rule self-test on in-memory AST variants"}],
    "checks": checks,
    "not_applicable": na,
    "notes": "All checks are static (no solvOR code is imported or executed). Exit 0 ok / 1 VIOLATION / 2 ANALYSIS-ERROR. Genuine defects found are repaired by 'fix:' commits in /repo or listed in /verif/known_findings.jsonl.",
}
json.dump(man, open(os.path.join(HERE, "MANIFEST.json"), "w"), indent=1)
print("checks:", [c["property_id"] for c in checks], "not_applicable:", [n["property_id"] for n in na])
