#!/venv/bin/python
"""Development tool: sensitivity probe.  For every function a property's check consulted, replace its body by
`return None` (in memory) and run the check again.  A check that stays OK does not depend on that function's content:
either the function is context only, or an obligation on it is vacuous."""
import ast, importlib, json, multiprocessing as mp, os, sys
HERE = os.path.dirname(os.path.dirname(os.path.abspath(__file__)))
sys.path.insert(0, HERE)
from sa.index import AnalysisError, Repo  # noqa: E402
from sa.report import Ctx, load_known, run_module  # noqa: E402


def consulted(pid):
    mod = importlib.import_module(f"checks.{pid.lower()}")
    ctx = Ctx(pid, Repo("/repo"), "quick")
    run_module(mod, ctx)
    return sorted(ctx.analysed_funcs)


def job(a):
    pid, rel, q = a
    mod = importlib.import_module(f"checks.{pid.lower()}")
    base = Repo("/repo", derename=False)
    m = next(m for m in base.modules.values() if m.rel == rel)
    tree = ast.parse(m.source)
    target = None
    parts = q.split(".")
    def find(body, parts):
        for n in body:
            if isinstance(n, (ast.FunctionDef, ast.ClassDef)) and n.name == parts[0]:
                if len(parts) == 1:
                    return n
                return find(n.body, parts[1:]) or next((x for x in ast.walk(n) if isinstance(x, ast.FunctionDef) and x.name == parts[-1]), None)
        return None
    target = find(tree.body, parts)
    if target is None or not isinstance(target, ast.FunctionDef):
        return (pid, rel, q, "not-found")
    target.body = [ast.Return(value=ast.Constant(value=None))]
    ast.fix_missing_locations(tree)
    try:
        ctx = Ctx(pid, Repo("/repo", overrides={rel: ast.unparse(tree) + "\n"}), "quick")
        run_module(mod, ctx)
        known = {k["key"] for k in load_known() if k.get("state") == "known"}
        bad = [o for o in ctx.failed() if o.key not in known]
        if bad:
            return (pid, rel, q, "violation")
        if ctx.aborted or ctx.floor_failures:
            return (pid, rel, q, "analysis-error")
        return (pid, rel, q, "OK-INSENSITIVE")
    except AnalysisError:
        return (pid, rel, q, "analysis-error")
    except Exception as e:  # noqa: BLE001
        return (pid, rel, q, f"EXC {type(e).__name__}: {e}"[:120])


def main():
    props = [json.loads(l)["id"] for l in open(os.path.join(HERE, "properties.jsonl"))]
    want = [a for a in sys.argv[1:]] or props
    jobs = []
    for pid in want:
        for key in consulted(pid):
            rel, q = key.split("::") if "::" in key else (None, None)
            if rel:
                jobs.append((pid, rel, q))
    with mp.Pool(16) as pool:
        res = pool.map(job, jobs)
    for r in res:
        if r[3] not in ("violation", "analysis-error"):
            print(*r)
    print(len(res), "probes;", sum(1 for r in res if r[3] == "violation"), "violation,", sum(1 for r in res if r[3] == "analysis-error"), "analysis-error,", sum(1 for r in res if r[3] == "OK-INSENSITIVE"), "insensitive")


if __name__ == "__main__":
    main()
