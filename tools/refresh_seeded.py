#!/venv/bin/python
"""Development tool: re-evaluates every kept seeded change against the committed checks and updates meta.json
(check_exit / caught / caught_by / checked_against).  Applies each patch to /repo and always restores it."""
import glob, json, re, subprocess, sys

head = subprocess.check_output(["git", "-C", "/repo", "rev-parse", "--short", "HEAD"], text=True).strip()
if subprocess.call(["git", "-C", "/repo", "diff", "--quiet"]) != 0:
    sys.exit("/repo working tree not clean")
tot = caught = 0
for p in sorted(glob.glob("/verif/seeded/*/meta.json")):
    m = json.load(open(p))
    d = p.rsplit("/", 1)[0]
    applies = subprocess.call(["git", "-C", "/repo", "apply", "--check", f"{d}/patch.diff"], stderr=subprocess.DEVNULL) == 0
    m["applies_to_head"] = applies
    m["checked_against"] = head
    if applies:
        subprocess.check_call(["git", "-C", "/repo", "apply", f"{d}/patch.diff"])
        try:
            r = subprocess.run(["/venv/bin/python", "/verif/check.py", m["property"], "--no-evidence"], capture_output=True, text=True)
        finally:
            subprocess.check_call(["git", "-C", "/repo", "checkout", "-q", "--", "."])
        m["check_exit"] = r.returncode
        m["caught"] = r.returncode == 1
        m["caught_by"] = [x[:220] for x in re.findall(r"^FINDING: (.*)$", r.stdout, re.M)[:3]]
        tot += 1
        caught += m["caught"]
    else:
        m["check_exit"] = None
        m["caught"] = None
    json.dump(m, open(p, "w"), indent=1)
    print(m["id"], "applies" if applies else "OBSOLETE", "caught" if m["caught"] else ("-" if m["caught"] is None else "MISSED"))
print(f"caught {caught} of {tot} applicable")
