#!/bin/bash
# usage: tools/try_seed.sh <Cxx> <patch.diff> [all]   -- applies the patch to /repo, runs the check(s), always undoes it
set -u
P=$1; PATCH=$2; ALL=${3:-}
cd /repo || exit 9
if ! git diff --quiet; then echo "/repo working tree not clean"; exit 9; fi
git apply "$PATCH" || { echo "patch does not apply"; exit 9; }
if [ -n "$ALL" ]; then
  for i in $(seq -w 1 20); do /venv/bin/python /verif/check.py C$i --no-evidence | grep -E "^(FINDING|VIOLATION|ANALYSIS-ERROR)" | cut -c1-260; done
else
  /venv/bin/python /verif/check.py "$P" --no-evidence | grep -E "^(FINDING|VIOLATION|ANALYSIS-ERROR|OK)" | cut -c1-300
fi
git checkout -- . && git status --short | head -3
