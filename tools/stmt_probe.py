#!/venv/bin/python
"""Development tool: mutation probe of the checks themselves.  For every function a property's check consulted, apply
small mutations (delete a simple statement, negate an `if` test, `<` <-> `<=`) one at a time, in memory, and run the
check.  Prints the mutations the check did not notice (candidates for missing obligations; many are harmless:
counters, progress reporting) and the ratio noticed.

usage: tools/stmt_probe.py Cxx [Cyy ...] [--ops=del,neg,rel]"""
import ast, copy, importlib, json, multiprocessing as mp, os, sys
HERE = os.path.dirname(os.path.dirname(os.path.abspath(__file__)))
sys.path.insert(0, HERE)
from sa.index import AnalysisError, Repo  # noqa: E402
from sa.report import Ctx, load_known, run_module  # noqa: E402

SIMPLE = (ast.Assign, ast.AugAssign, ast.AnnAssign, ast.Expr, ast.Return, ast.Continue, ast.Break, ast.Delete)
REL = {ast.Lt: ast.LtE, ast.LtE: ast.Lt, ast.Gt: ast.GtE, ast.GtE: ast.Gt}


def consulted(pid):
    mod = importlib.import_module(f"checks.{pid.lower()}")
    ctx = Ctx(pid, Repo("/repo"), "quick")
    run_module(mod, ctx)
    return sorted(ctx.analysed_funcs)


def sites(src, quals, ops):
    """[(op, lineno, col, text)] inside the consulted functions"""
    tree = ast.parse(src)
    want = []
    def visit(body, prefix):
        for n in body:
            if isinstance(n, (ast.FunctionDef, ast.ClassDef)):
                q = prefix + n.name
                if isinstance(n, ast.FunctionDef) and q in quals:
                    want.append(n)
                visit(n.body, q + ".")
            else:
                for fld in ("body", "orelse", "finalbody"):
                    visit(getattr(n, fld, []) or [], prefix)
    visit(tree.body, "")
    out = []
    seen = set()
    for f in want:
        for n in ast.walk(f):
            if isinstance(n, (ast.FunctionDef, ast.Lambda)) and n is not f:
                continue
            key = (getattr(n, "lineno", 0), getattr(n, "col_offset", 0), type(n).__name__)
            if key in seen:
                continue
            if "del" in ops and isinstance(n, SIMPLE) and not (isinstance(n, ast.Expr) and isinstance(n.value, ast.Constant)):
                seen.add(key); out.append(("del", n.lineno, n.col_offset, ast.unparse(n)[:70]))
            if "neg" in ops and isinstance(n, (ast.If, ast.While)) and not (isinstance(n.test, ast.Constant)):
                seen.add(key); out.append(("neg", n.lineno, n.col_offset, ast.unparse(n.test)[:70]))
            if "rel" in ops and isinstance(n, ast.Compare) and len(n.ops) == 1 and type(n.ops[0]) in REL:
                seen.add(key); out.append(("rel", n.lineno, n.col_offset, ast.unparse(n)[:70]))
    return out


def mutate(src, op, lineno, col):
    tree = ast.parse(src)
    done = False
    class T(ast.NodeTransformer):
        def generic_visit(self, node):
            nonlocal done
            node = super().generic_visit(node)
            if done or getattr(node, "lineno", None) != lineno or getattr(node, "col_offset", None) != col:
                return node
            if op == "del" and isinstance(node, SIMPLE):
                done = True
                return ast.copy_location(ast.Pass(), node)
            if op == "neg" and isinstance(node, (ast.If, ast.While)):
                done = True
                node.test = ast.UnaryOp(op=ast.Not(), operand=node.test)
                return node
            if op == "rel" and isinstance(node, ast.Compare) and len(node.ops) == 1 and type(node.ops[0]) in REL:
                done = True
                node.ops = [REL[type(node.ops[0])]()]
                return node
            return node
    tree = T().visit(tree)
    ast.fix_missing_locations(tree)
    return ast.unparse(tree) + "\n" if done else None


def job(a):
    pid, rel, op, lineno, col, text = a
    mod = importlib.import_module(f"checks.{pid.lower()}")
    base = Repo("/repo", derename=False)
    m = next(m for m in base.modules.values() if m.rel == rel)
    new = mutate(m.source, op, lineno, col)
    if new is None:
        return (pid, rel, op, lineno, text, "skip")
    try:
        ctx = Ctx(pid, Repo("/repo", overrides={rel: new}), "quick")
        run_module(mod, ctx)
        known = {k["key"] for k in load_known() if k.get("state") == "known"}
        bad = [o for o in ctx.failed() if o.key not in known]
        st = "violation" if bad else ("analysis-error" if (ctx.aborted or ctx.floor_failures) else "UNNOTICED")
    except AnalysisError:
        st = "analysis-error"
    except Exception as e:  # noqa: BLE001
        st = f"EXC {type(e).__name__}"
    return (pid, rel, op, lineno, text, st)


def main():
    args = [a for a in sys.argv[1:] if not a.startswith("--")]
    ops = ["del", "neg", "rel"]
    for a in sys.argv[1:]:
        if a.startswith("--ops="):
            ops = a.split("=", 1)[1].split(",")
    jobs = []
    for pid in args:
        by_rel = {}
        for key in consulted(pid):
            rel, q = key.split("::")
            by_rel.setdefault(rel, set()).add(q)
        for rel, quals in by_rel.items():
            src = open(os.path.join("/repo", rel)).read()
            for op, ln, col, text in sites(src, quals, ops):
                jobs.append((pid, rel, op, ln, col, text))
    with mp.Pool(16) as pool:
        res = pool.map(job, jobs, chunksize=4)
    by = {}
    for pid, rel, op, ln, text, st in res:
        by.setdefault(pid, []).append((rel, op, ln, text, st))
    for pid, lst in sorted(by.items()):
        tot = [x for x in lst if x[4] != "skip"]
        hit = [x for x in tot if x[4] in ("violation", "analysis-error")]
        print(f"== {pid}: {len(hit)}/{len(tot)} mutations noticed ({sum(1 for x in tot if x[4]=='violation')} violation, {sum(1 for x in tot if x[4]=='analysis-error')} analysis-error)")
        for rel, op, ln, text, st in tot:
            if st not in ("violation", "analysis-error"):
                print(f"   {st:10s} {op} {rel}:{ln}  {text}")


if __name__ == "__main__":
    main()
