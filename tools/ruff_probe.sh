#!/bin/bash
# Development tool (not registered): behaviour-preserving rewrites of the WHOLE package by ruff, each in a scratch copy
# outside /repo and /verif; every check must stay silent on every copy.  Needs /venv/bin/ruff.
#   1. ruff format --line-length 88          2. safe autofixes      3. safe + unsafe autofixes (suite must still pass)
set -u
SEL=SIM,C4,UP,PERF,RET,PIE,FURB,PLR,RUF,B,PLW,TRY
rc=0
for mode in format safe unsafe; do
  D=$(mktemp -d /tmp/ruffprobe.XXXX)
  git -C /repo archive HEAD | tar -x -C "$D"
  case $mode in
    format) (cd "$D" && /venv/bin/ruff format --line-length 88 solvor >/dev/null 2>&1);;
    safe)   (cd "$D" && /venv/bin/ruff check --fix --select $SEL --isolated solvor >/dev/null 2>&1);;
    unsafe) (cd "$D" && /venv/bin/ruff check --fix --unsafe-fixes --select $SEL --isolated solvor >/dev/null 2>&1);;
  esac
  n=$(git -C /repo diff --no-index --stat /repo/solvor "$D/solvor" 2>/dev/null | tail -1)
  bad=0
  for i in $(seq -w 1 20); do
    out=$(/venv/bin/python /verif/check.py C$i --no-evidence --root "$D" | grep -E "^(FINDING|VIOLATION|ANALYSIS)" | head -3)
    if [ -n "$out" ]; then bad=$((bad+1)); echo "[$mode] C$i:"; echo "$out" | cut -c1-200; fi
  done
  echo "ruff $mode: $n -> $bad of 20 checks not silent"
  [ $bad -ne 0 ] && rc=1
  rm -rf "$D"
done
exit $rc
