#!/venv/bin/python
"""Regenerates anchors/locals.json (alpha-skeleton digests + local names of every function) from /repo.
Run after a `fix:` commit changed a function, never at check time."""
import json, os, sys
HERE = os.path.dirname(os.path.dirname(os.path.abspath(__file__)))
sys.path.insert(0, HERE)
from sa.derename import build_baseline
b = build_baseline(sys.argv[1] if len(sys.argv) > 1 else "/repo")
os.makedirs(os.path.join(HERE, "anchors"), exist_ok=True)
json.dump(b, open(os.path.join(HERE, "anchors", "locals.json"), "w"), indent=0, sort_keys=True)
print(len(b), "units")
