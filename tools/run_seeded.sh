#!/bin/bash
# Development tool (not a registered check): applies every kept seeded change to /repo in turn, runs the check of the
# property it breaks, expects exit 1 with a VIOLATION line, and always restores /repo.
cd /repo || exit 9
if ! git diff --quiet; then echo "/repo working tree not clean"; exit 9; fi
ok=0; miss=0
for d in /verif/seeded/*/; do
  id=$(basename "$d"); prop=$(/venv/bin/python -c "import json,sys; print(json.load(open('$d/meta.json'))['property'])")
  expect=$(/venv/bin/python -c "import json,sys; print(json.load(open('$d/meta.json')).get('caught', True))")
  git apply "$d/patch.diff" || { echo "$id: patch does not apply"; continue; }
  /venv/bin/python /verif/check.py "$prop" --no-evidence > /tmp/run_seeded.out 2>&1; rc=$?
  git checkout -q -- .
  first=$(grep -m1 "^FINDING" /tmp/run_seeded.out | cut -c1-150)
  if [ $rc -eq 1 ]; then ok=$((ok+1)); echo "$id [$prop] CAUGHT: $first"; else miss=$((miss+1)); echo "$id [$prop] exit=$rc (documented miss: $expect)"; fi
done
echo "caught=$ok not-caught=$miss"
