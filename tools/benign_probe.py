#!/venv/bin/python
"""Development tool (not a registered command): applies behaviour-preserving AST transformations to the anchor
modules of each property, in memory, and reports which obligations fire.  Every report is a false alarm of the
rule on a refactor that leaves behaviour unchanged, to be removed by making the rule look at a canonical form.

usage: tools/benign_probe.py [Cxx ...] [--kinds flip,aug,ifnot,const,temp]
"""
import ast
import copy
import importlib
import json
import multiprocessing as mp
import os
import sys

HERE = os.path.dirname(os.path.dirname(os.path.abspath(__file__)))
sys.path.insert(0, HERE)
from sa.index import AnalysisError, Repo  # noqa: E402
from sa.report import Ctx, load_known, run_module  # noqa: E402

FLIP = {ast.Lt: ast.Gt, ast.Gt: ast.Lt, ast.LtE: ast.GtE, ast.GtE: ast.LtE, ast.Eq: ast.Eq, ast.NotEq: ast.NotEq}


class Flip(ast.NodeTransformer):
    """a < b  ->  b > a (single comparisons whose operands have no call: evaluation order is irrelevant)"""

    def visit_Compare(self, n):
        self.generic_visit(n)
        if len(n.ops) == 1 and type(n.ops[0]) in FLIP and not any(isinstance(x, (ast.Call, ast.NamedExpr, ast.Await)) for x in ast.walk(n)):
            if isinstance(n.ops[0], (ast.Eq, ast.NotEq)) and isinstance(n.left, ast.Constant) == isinstance(n.comparators[0], ast.Constant):
                return n  # `a == b` <-> `b == a` between two non-constants is not among the tolerated edits
            return ast.Compare(left=n.comparators[0], ops=[FLIP[type(n.ops[0])]()], comparators=[n.left])
        return n


class Aug(ast.NodeTransformer):
    """x += e  ->  x = x + e   (plain names only)"""

    def visit_AugAssign(self, n):
        self.generic_visit(n)
        if isinstance(n.target, ast.Name):
            return ast.Assign(targets=[ast.Name(id=n.target.id, ctx=ast.Store())], value=ast.BinOp(left=ast.Name(id=n.target.id, ctx=ast.Load()), op=n.op, right=n.value), lineno=n.lineno)
        return n


class IfNot(ast.NodeTransformer):
    """if c: A else: B  ->  if not c: B else: A"""

    def visit_If(self, n):
        self.generic_visit(n)
        if n.orelse and not (len(n.orelse) == 1 and isinstance(n.orelse[0], ast.If)):
            t = n.test.operand if isinstance(n.test, ast.UnaryOp) and isinstance(n.test.op, ast.Not) else ast.UnaryOp(op=ast.Not(), operand=n.test)
            return ast.If(test=t, body=n.orelse, orelse=n.body)
        return n


class Const(ast.NodeTransformer):
    """e * 2 -> 2 * e, e + 1 -> 1 + e  (numeric constants: exact in IEEE arithmetic)"""

    def visit_BinOp(self, n):
        self.generic_visit(n)
        if isinstance(n.op, (ast.Mult, ast.Add)) and isinstance(n.right, ast.Constant) and isinstance(n.right.value, (int, float)) and not isinstance(n.right.value, bool) and not isinstance(n.left, (ast.Constant, ast.List, ast.Tuple, ast.JoinedStr)):
            return ast.BinOp(left=n.right, op=n.op, right=n.left)
        return n


class Temp(ast.NodeTransformer):
    """return <call>  ->  _r = <call>; return _r"""

    def visit_Return(self, n):
        if isinstance(n.value, ast.Call):
            return [ast.Assign(targets=[ast.Name(id="_ret", ctx=ast.Store())], value=n.value, lineno=n.lineno), ast.Return(value=ast.Name(id="_ret", ctx=ast.Load()))]
        return n


def rename_locals(tree: ast.Module) -> None:
    """every local assigned in a top-level function / method (closures included) gets the suffix _r"""

    def process(fn):
        params = {a.arg for a in ast.walk(fn) if isinstance(a, ast.arg)}
        assigned = {n.id for n in ast.walk(fn) if isinstance(n, ast.Name) and isinstance(n.ctx, ast.Store)}
        nested = {n.name for n in ast.walk(fn) if isinstance(n, (ast.FunctionDef, ast.ClassDef)) and n is not fn}
        ren = {a: a + "_r" for a in assigned - params - nested if not a.startswith("_")}
        for n in ast.walk(fn):
            if isinstance(n, ast.Name) and n.id in ren:
                n.id = ren[n.id]
            elif isinstance(n, (ast.Nonlocal, ast.Global)):
                n.names = [ren.get(x, x) for x in n.names]

    for n in tree.body:
        if isinstance(n, ast.FunctionDef):
            process(n)
        elif isinstance(n, ast.ClassDef):
            for m in n.body:
                if isinstance(m, ast.FunctionDef):
                    process(m)


class Doc(ast.NodeTransformer):
    """rewrite docstrings, drop parameter / return / variable annotations"""

    def visit_FunctionDef(self, n):
        self.generic_visit(n)
        if n.body and isinstance(n.body[0], ast.Expr) and isinstance(n.body[0].value, ast.Constant) and isinstance(n.body[0].value.value, str):
            n.body[0].value = ast.Constant(value="Reworded documentation.")
        n.returns = None
        for a in n.args.posonlyargs + n.args.args + n.args.kwonlyargs:
            a.annotation = None
        return n

    def visit_AnnAssign(self, n):
        self.generic_visit(n)
        if n.value is not None and isinstance(n.target, ast.Name):
            return ast.Assign(targets=[n.target], value=n.value, lineno=n.lineno)
        return n


class Wrap(ast.NodeTransformer):
    """nest the body of every loop one level deeper (`if True:`): only the depth changes"""

    def visit_For(self, n):
        self.generic_visit(n)
        n.body = [ast.If(test=ast.Constant(value=True), body=n.body, orelse=[])]
        return n

    visit_While = visit_For


def extract_helpers(tree: ast.Module) -> None:
    """extract-function refactoring: in every top-level function the value of each `return <call to Result>` statement
    moves into a new module-level helper that receives the local names it reads"""
    import builtins

    mod_names = {n.name for n in tree.body if isinstance(n, (ast.FunctionDef, ast.ClassDef))} | {a.asname or a.name.split(".")[0] for n in tree.body if isinstance(n, (ast.Import, ast.ImportFrom)) for a in n.names} | {t.id for n in tree.body if isinstance(n, ast.Assign) for t in n.targets if isinstance(t, ast.Name)}
    new_defs = []
    k = 0
    for fn in [n for n in tree.body if isinstance(n, ast.FunctionDef)]:
        for r in [n for n in ast.walk(fn) if isinstance(n, ast.Return) and isinstance(n.value, ast.Call) and isinstance(n.value.func, ast.Name) and n.value.func.id == "Result"]:
            owner = next(f for f in ast.walk(fn) if isinstance(f, ast.FunctionDef) and any(x is r for x in ast.walk(f)) and not any(isinstance(g, ast.FunctionDef) and g is not f and any(x is r for x in ast.walk(g)) for g in ast.walk(f)))
            if owner is not fn:
                continue
            if any(isinstance(x, (ast.Lambda, ast.GeneratorExp, ast.ListComp, ast.DictComp, ast.SetComp, ast.NamedExpr)) for x in ast.walk(r.value)):
                continue
            names = sorted({x.id for x in ast.walk(r.value) if isinstance(x, ast.Name) and isinstance(x.ctx, ast.Load) and x.id not in mod_names and not hasattr(builtins, x.id)})
            hname = f"_packaged_result_{k}"
            k += 1
            new_defs.append(ast.FunctionDef(name=hname, args=ast.arguments(posonlyargs=[], args=[ast.arg(arg=a) for a in names], kwonlyargs=[], kw_defaults=[], defaults=[]), body=[ast.Return(value=r.value)], decorator_list=[], returns=None, type_params=[], lineno=r.lineno, col_offset=0))
            r.value = ast.Call(func=ast.Name(id=hname, ctx=ast.Load()), args=[ast.Name(id=a, ctx=ast.Load()) for a in names], keywords=[])
    tree.body.extend(new_defs)


KINDS = {"extract": None, "wrap": Wrap, "flip": Flip, "aug": Aug, "ifnot": IfNot, "const": Const, "temp": Temp, "doc": Doc, "rename": None, "mix": None}


def transform(src: str, kind: str, only_func: str | None = None) -> str:
    tree = ast.parse(src)
    if kind == "rename":
        rename_locals(tree)
        return ast.unparse(tree) + "\n"
    if kind == "extract":
        extract_helpers(tree)
        ast.fix_missing_locations(tree)
        return ast.unparse(tree) + "\n"
    if kind == "mix":
        for k in ("flip", "aug", "ifnot", "const", "temp", "doc"):
            tree = KINDS[k]().visit(tree)
            ast.fix_missing_locations(tree)
        rename_locals(tree)
        return ast.unparse(tree) + "\n"
    t = KINDS[kind]()
    if only_func is None:
        tree = t.visit(tree)
    else:
        for n in ast.walk(tree):
            if isinstance(n, (ast.FunctionDef,)) and n.name == only_func:
                new = t.visit(copy.deepcopy(n))
                n.body = new.body
    ast.fix_missing_locations(tree)
    return ast.unparse(tree) + "\n"


def job(args):
    pid, rel, kind = args
    mod = importlib.import_module(f"checks.{pid.lower()}")
    base = Repo("/repo")
    m = next(m for m in base.modules.values() if m.rel == rel)
    try:
        new = transform(m.source, kind)
    except Exception as e:  # noqa: BLE001
        return (pid, rel, kind, "TRANSFORM-ERROR", [str(e)[:100]])
    if ast.dump(ast.parse(new)) == ast.dump(ast.parse(m.source)):
        return (pid, rel, kind, "unchanged", [])
    try:
        ctx = Ctx(pid, Repo("/repo", overrides={rel: new}), "quick")
        run_module(mod, ctx)
        known = {k["key"] for k in load_known() if k.get("state") == "known"}
        bad = [o for o in ctx.failed() if o.key not in known]
        if bad:
            return (pid, rel, kind, "VIOLATION", sorted({f"{o.oid} {o.func}: {o.construct[:90]}" for o in bad}))
        if ctx.aborted:
            return (pid, rel, kind, "ANALYSIS-ERROR", [ctx.aborted[:150]])
        if ctx.floor_failures:
            return (pid, rel, kind, "ANALYSIS-ERROR", [x[:150] for x in ctx.floor_failures])
        return (pid, rel, kind, "ok", [])
    except AnalysisError as e:
        return (pid, rel, kind, "ANALYSIS-ERROR", [str(e)[:150]])
    except Exception as e:  # noqa: BLE001
        return (pid, rel, kind, "EXC", [f"{type(e).__name__}: {e}"[:150]])


def main():
    args = [a for a in sys.argv[1:] if not a.startswith("--")]
    kinds = [k for k in KINDS if k != "wrap"]  # `wrap` (artificial extra nesting) only on request
    for a in sys.argv[1:]:
        if a.startswith("--kinds"):
            kinds = a.split("=", 1)[1].split(",")
    props = [json.loads(line) for line in open(os.path.join(HERE, "properties.jsonl"))]
    jobs = []
    for p in props:
        if args and p["id"] not in args:
            continue
        for f in p["anchors"]["files"]:
            if f.endswith(".py") and os.path.exists(os.path.join("/repo", f)):
                for k in kinds:
                    jobs.append((p["id"], f, k))
    with mp.Pool(16) as pool:
        res = pool.map(job, jobs)
    n_bad = 0
    for pid, rel, kind, st, det in res:
        if st not in ("ok", "unchanged"):
            n_bad += 1
            print(f"{pid} {kind:6s} {rel}: {st}")
            for d in det[:6]:
                print(f"      {d}")
    print(f"{len(res)} probes, {n_bad} not ok")


if __name__ == "__main__":
    main()
