#!/bin/bash
# usage: tools/verify_seed.sh <worktree> <patch> <demo> [tests...]
# confirms: demo passes on clean tree, fails with patch, test suite (given tests or whole suite) passes with patch.
set -u
WT=$1; PATCH=$2; DEMO=$3; shift 3; TESTS=${*:-tests}
cd "$WT" || exit 9
git checkout -q -- solvor rust 2>/dev/null
export PYTHONPATH=$WT
echo "--- clean demo:"; timeout 600 /venv/bin/python "$DEMO" > $WT/seed_out/vs_clean.log 2>&1; C=$?; tail -2 $WT/seed_out/vs_clean.log | cut -c1-200; echo "exit=$C"
git apply "$PATCH" || { echo "PATCH DOES NOT APPLY"; exit 9; }
echo "--- patched demo:"; timeout 600 /venv/bin/python "$DEMO" > $WT/seed_out/vs_patched.log 2>&1; P=$?; tail -3 $WT/seed_out/vs_patched.log | cut -c1-300; echo "exit=$P"
echo "--- suite with patch:"; timeout 1500 /venv/bin/python -m pytest -q -p no:cacheprovider --no-cov -n 4 --timeout=600 --deselect tests/test_docs.py::test_mkdocs_builds $TESTS 2>&1 | tail -2
git checkout -q -- solvor rust 2>/dev/null
git status --short | grep -v seed_out | head -3
echo "VERDICT clean=$C patched=$P"
