#!/venv/bin/python
"""setup: verify the analyser imports, /repo parses, fixtures parse."""
import ast, glob, os, sys
HERE = os.path.dirname(os.path.dirname(os.path.abspath(__file__)))
sys.path.insert(0, HERE)
from sa.index import Repo
r = Repo("/repo")
for f in glob.glob(os.path.join(HERE, "fixtures", "*.py")):
    ast.parse(open(f).read())
os.makedirs(os.path.join(HERE, "evidence"), exist_ok=True)
print(f"setup ok: {len(r.modules)} modules, {sum(len(m.funcs) for m in r.modules.values())} functions")
