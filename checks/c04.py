"""C04 - MILP answers (structural part): solvor/milp.py."""

from __future__ import annotations

import ast

from sa.cfg import cfg_of
from sa.facts import result_sites
from sa.guards import atoms as _atoms
from sa.guards import GuardView, atom_of, names_in, or_parts
from sa.index import own_nodes
from sa.report import Ctx

from .common import generic_sweeps
from sa.units import I, N, Q, U, UnitEnv

from .sat_common import _enclosing_block

EXPLANATION = (
    "Decides structural necessary conditions of the MILP contract on solvor/milp.py: (O1) sign units - a two-point "
    "unit inference (U = user's sense, I = sign*U) over solve_milp, _round_binary and _solve_sub_mip: no ordering "
    "comparison mixes U with I, every U-vs-U ordering comparison is guarded by `minimize`, all pushes to the node heap "
    "agree on the key's unit, the gap helper gets two U values, published objectives are U; (O2) every incumbent "
    "update after initialisation is guarded by an improvement comparison or by 'no incumbent yet'; (O3) every value "
    "that becomes the incumbent passed a certifier (_is_feasible true, or node LP OPTIMAL and no fractional variable), "
    "every non-None return of the rounding / sub-MIP heuristics is dominated by a certifier on the returned vector; "
    "(O4) verdict guards - OPTIMAL only under root-integral, gap test with solution_limit == 1, or empty node heap; "
    "INFEASIBLE only under root-LP infeasible or (no incumbent and heap empty): the node-budget exit must be "
    "discriminated; (O5) the branching step pushes exactly the floor child and the ceil child of one variable; (O6) "
    "root bound tightening is dominated by the explicit-row detector; (O7) the incumbent pair is assigned from a point "
    "and the cost of that same point, and published together. (O9) the certifier _is_feasible tests every component for non-negativity, every integer variable for integrality and every row; (O10) bound tests prune with the numerical tolerance only. (O11) node LP construction, branching variable, children and incumbent update, statement group by statement group. (O12) the obligations of C03 on the simplex routines, whose statuses the branch and bound prunes on. NOT decided: LP numerics, true optimality/feasibility."
)

MOD = "milp"


def _bounded_only_by_single_entry_rows(ctx: Ctx):
    """who may call a column bounded: only the branch for a row with exactly one non-zero entry"""
    db = ctx.func(MOD, "_detect_binary")
    adds = [n for n in own_nodes(db.node) if isinstance(n, ast.Call) and isinstance(n.func, ast.Attribute) and n.func.attr in ("add", "update") and ast.unparse(n.func.value) == "bounded"]
    other = [n for n in own_nodes(db.node) if isinstance(n, (ast.Assign, ast.AugAssign)) and "bounded" in ast.unparse(n.targets[0] if isinstance(n, ast.Assign) else n.target) and not (isinstance(n, ast.Assign) and ast.unparse(n.value) == "set()")]
    cfg = cfg_of(db.node)
    gv = GuardView(cfg)
    ok = len(adds) == 1 and not other
    if ok:
        at = gv.guard_atoms(cfg.stmt_node_containing(adds[0]), stable_only=False)
        ok = atom_of("len(nz) == 1") in at
    bad = [a for a in adds[1:]] or other
    ctx.ob("C04-O6", "R27 WRITE-OWNERSHIP", db, "a column is entered into `bounded` only by the branch for a row with a single non-zero entry", ok, f"`{ast.unparse(bad[0])[:60]}`: a row with several entries bounds none of them by itself (x - y <= 1 says nothing about x); clamping such a variable to [0, 1] cuts off integer points and the verdict (OPTIMAL / INFEASIBLE) is about a smaller problem" if bad else "", node=bad[0] if bad else db.node)


def check_certifier_and_slack(ctx: Ctx):
    # O9 the certifier looks at every component / every integer index / every row
    cf = ctx.func("milp", CERT)
    sign_tests = []
    for n in ast.walk(cf.node):
        if isinstance(n, ast.Compare) and len(n.ops) == 1 and atom_of(ast.unparse(n)) == atom_of("x[j] < -eps"):
            sign_tests.append(n)
    ctx.floor("sign tests in _is_feasible", len(sign_tests), 1)
    parents = {}
    for n in ast.walk(cf.node):
        for c in ast.iter_child_nodes(n):
            parents[id(c)] = n
    for t in sign_tests:
        # the binder of j: enclosing comprehension generator or for loop
        idx = ast.unparse(t.left.slice if isinstance(t.left, ast.Subscript) else t.comparators[0].slice)
        dom = None
        n = t
        while n is not None and dom is None:
            n = parents.get(id(n))
            if isinstance(n, (ast.GeneratorExp, ast.ListComp, ast.SetComp)):
                for g in n.generators:
                    if ast.unparse(g.target) == idx:
                        dom = ast.unparse(g.iter)
            elif isinstance(n, ast.For) and ast.unparse(n.target) == idx:
                dom = ast.unparse(n.iter)
        ctx.ob("C04-O9", "R14 GATE", cf, "the certifier tests every component of the point for non-negativity", dom in ("range(n)", "range(len(x))"), f"the sign test ranges over `{dom}`: a negative continuous component passes, and a warm start (or heuristic point) violating x >= 0 becomes the incumbent", node=t)
    tcf = ast.unparse(cf.node)
    ctx.ob("C04-O9", "R14 GATE", cf, "the certifier tests integrality of every integer variable and every row of Ax <= b", "for j in int_set:" in tcf and "abs(x[j] - round(x[j])) > eps" in tcf and "for i, row in enumerate(A):" in tcf and "lhs > b[i] + eps" in tcf.replace("if lhs", "lhs"), "", node=cf.node)
    # O10 bound tests prune with the numerical tolerance only
    f = ctx.func("milp", "solve_milp")
    n_prune = 0
    for g in [f] + [h for h in ctx.repo.callees(f) if h.module is f.module]:
        for n in ast.walk(g.node):
            if isinstance(n, ast.BinOp) and isinstance(n.op, ast.Sub) and "best_obj" in {x.id for x in ast.walk(n.left) if isinstance(x, ast.Name)} and isinstance(parents_of(g.node).get(id(n)), ast.Compare):
                n_prune += 1
                ctx.ob("C04-O10", "R1 STATUS-GUARD", g, "a node is pruned against the incumbent with the numerical tolerance only", ast.unparse(n.right) == "eps", f"`{ast.unparse(n)}`: any larger slack discards nodes that still hold a better point (with continuous variables an improvement can be arbitrarily small) and the incumbent is then labelled OPTIMAL", node=n)
    ctx.floor("incumbent bound tests", n_prune, 3)


def parents_of(fn_node):
    out = {}
    for n in ast.walk(fn_node):
        for c in ast.iter_child_nodes(n):
            out[id(c)] = n
    return out


def lp_verdicts(ctx: Ctx):
    """O12: every MILP verdict is built on the verdicts of solve_lp - a node whose LP is INFEASIBLE is pruned for good, a
    root LP that is INFEASIBLE ends the run, MAX_ITER keeps the node's subtree open (`lp_budget_hit`).  What C03 decides
    about the simplex routines (which status is returned where, thresholds, the tableau steps) therefore counts here as
    well; its obligations on the interior-point solver do not."""
    import importlib

    from sa.report import run_module

    mod = importlib.import_module("checks.c03")
    sub = Ctx("C03", ctx.repo, "quick")
    run_module(mod, sub)
    if sub.aborted:
        ctx.step_aborts.append(f"[C03] {sub.aborted}")
    n = 0
    for o in sub.obs:
        if "-G" in o.oid or o.severity != "violation" or o.rel != "solvor/simplex.py":
            continue
        n += 1
        ob_ = ctx.ob("C04-O12", o.rule, None, f"[{o.oid}] {o.construct}", o.ok, (o.detail + " - solve_milp prunes, stops or keeps a subtree open on this status") if not o.ok else "", rel=o.rel, fname=o.func)
        ob_.lineno = o.lineno
    ctx.floor("obligations on the simplex routines (from C03)", n, 20)
    # ... and the LP is solved with the simplex's own tolerance: solve_milp's eps (1e-6, an integrality / feasibility
    # tolerance) is not handed on.  As pivot tolerance it makes tableau entries of 1/(k1*k2) count as zero from
    # k1*k2 = 1e6 on (UNBOUNDED for a bounded problem, an infeasible point as OPTIMAL: ledger row 69), and as phase-1
    # tolerance it accepts an LP that is infeasible by 1e-4 (row 64)
    sn = ctx.func(MOD, "_solve_node")
    calls = [c for c in own_nodes(sn.node) if isinstance(c, ast.Call) and ast.unparse(c.func) == "solve_lp"]
    ctx.floor("solve_lp calls in _solve_node", len(calls), 1)
    for c in calls:
        fwd = [k for k in c.keywords if k.arg == "eps"] + [a for a in c.args[3:] if isinstance(a, ast.Name) and a.id == "eps"]
        ctx.ob("C04-O12", "R4 SIGN-UNIT", sn, "solve_lp runs with its own tolerance: solve_milp's eps is not passed on", not fwd, f"`{ast.unparse(c)[:80]}`: eps means 'how far from an integer / how far over a row' here and 'what counts as zero in the tableau' there", node=c)


def run(ctx: Ctx):
    ctx.step(lp_verdicts)
    f = ctx.func(MOD, "solve_milp")
    ctx.step(check_units)
    ctx.step(check_incumbent, f)
    ctx.step(check_certified, f)
    ctx.step(check_verdicts, f)
    ctx.step(check_children, f)
    ctx.step(check_tightening, f)
    ctx.step(check_node_rows)


# -- O1 ------------------------------------------------------------------------------------------
    ctx.step(check_certifier_and_slack)
    from .sat_common import _need

    sn = ctx.func("milp", "_solve_node")
    ctx.step(_need, "C04-O11", "R18 table", sn, "node LP: variables with equal bounds are substituted, crossed bounds make the node infeasible", ["lo, hi = (lower[j], upper[j])\n        if hi < lo - eps:\n            return Result(None, float('inf') if minimize else float('-inf'), 0, 0, LPStatus.INFEASIBLE)\n        if hi - lo < eps:\n            fixed[j] = lo\n        else:\n            free_vars.append(j)"])
    ctx.step(_need, "C04-O11", "R18 table", sn, "node LP: the right-hand side is reduced by the fixed part of each row, bounds become rows -x <= -lo and x <= hi", ["fixed_contrib = sum((row[j] * fixed[j] for j in fixed))\n        new_rhs = b[i] - fixed_contrib\n        A_red.append([row[j] for j in free_vars])\n        b_red.append(new_rhs)", "if lo > eps:\n            row = [0.0] * n_free\n            row[j_new] = -1.0\n            A_red.append(row)\n            b_red.append(-lo)", "if hi < float('inf'):\n            row = [0.0] * n_free\n            row[j_new] = 1.0\n            A_red.append(row)\n            b_red.append(hi)"])
    ctx.step(_need, "C04-O11", "R5 PAIRING", sn, "node LP: the full point is rebuilt from fixed and free parts and the fixed part of the objective is added back", ["fixed_obj = sum((c[j] * fixed[j] for j in fixed))", "for j in fixed:\n        full_sol[j] = fixed[j]\n    for j_new, j_old in enumerate(free_vars):\n        full_sol[j_old] = result.solution[j_new]", "return Result(tuple(full_sol), result.objective + fixed_obj, result.iterations, result.iterations, result.status)"])
    mf = ctx.func("milp", "_most_fractional")
    ctx.step(_need, "C04-O11", "R18 table", mf, "branching variable: the integer variable farthest from an integer value; none -> the point is integral", ["for j in int_set:\n        val = solution[j]\n        frac = abs(val - round(val))\n        if frac > eps and frac > best_frac:\n            best_var, best_frac = (j, frac)", "return best_var"])
    sm = ctx.func("milp", "solve_milp")
    ctx.step(_need, "C04-O11", "R16 PAIRED-EFFECTS", sm, "branching: the left child caps the variable at floor(v), the right child raises it to ceil(v); both inherit the node's other bounds and the node's LP value as bound", ["val = result.solution[frac_var]\n        child_bound = sign * result.objective", "lower_left, upper_left = (list(node.lower), list(node.upper))\n        upper_left[frac_var] = floor(val)\n        heappush(tree, (child_bound, counter, Node(child_bound, tuple(lower_left), tuple(upper_left), node.depth + 1)))\n        counter += 1", "lower_right, upper_right = (list(node.lower), list(node.upper))\n        lower_right[frac_var] = ceil(val)\n        heappush(tree, (child_bound, counter, Node(child_bound, tuple(lower_right), tuple(upper_right), node.depth + 1)))\n        counter += 1"])
    ctx.step(_need, "C04-O11", "R6 INCUMBENT", sm, "an integral node replaces the incumbent exactly when it is strictly better in the caller's sense", ["sol = tuple(result.solution)\n            sol_obj = result.objective", "if sign * sol_obj < sign * best_obj:\n                best_solution, best_obj = (sol, sol_obj)"])
    ctx.step(_need, "C04-O11", "R1 STATUS-GUARD", sm, "a node is dropped unsolved only when its bound cannot beat the incumbent; a solved node is dropped when its LP is not optimal or its value cannot beat the incumbent", ["if best_solution is not None and node_bound >= sign * best_obj - eps:\n            continue", "result = _solve_node(c, A, b, node.lower, node.upper, minimize, eps, max_iter)", "if result.status != LPStatus.OPTIMAL:\n            if result.status == LPStatus.MAX_ITER:\n                lp_budget_hit = True\n            continue", "lp_budget_hit = False", "if best_solution is not None and sign * result.objective >= sign * best_obj - eps:\n            continue", "frac_var = _most_fractional(result.solution, int_set, eps)\n        if frac_var is None:"], "a pruning test that fires in other cases discards nodes that may hold the optimum while the emptied tree still yields OPTIMAL")
    ctx.step(_need, "C04-O11", "R16 PAIRED-EFFECTS", sm, "the search starts from the root relaxation: its value (in minimisation form) is the root's bound and the root is the first open node", ["sign = 1 if minimize else -1", "root_bound = sign * root_result.objective\n    heappush(tree, (root_bound, counter, Node(root_bound, tuple(lower), tuple(upper), 0)))\n    counter += 1", "node_bound, _, node = heappop(tree)"], "without the root in the tree the loop never runs and whatever the heuristics found is labelled OPTIMAL")
    ctx.step(_need, "C04-O9", "R18 table", ctx.func("milp", "_is_feasible"), "the certifier answers False for a negative component, a fractional integer variable or a violated row, and True only after all three tests", ["if any((x[j] < -eps for j in range(n))):\n        return False", "for j in int_set:\n        if abs(x[j] - round(x[j])) > eps:\n            return False", "for i, row in enumerate(A):\n        lhs = sum((row[j] * x[j] for j in range(n)))\n        if lhs > b[i] + eps:\n            return False", "return True"], "the certifier is the only thing between a heuristic point (warm start, rounding, LNS) and the incumbent")
    ctx.step(_need, "C04-O11", "R1 STATUS-GUARD", sn, "node LP: a relaxation that is not OPTIMAL is handed back as it is; an all-fixed node is OPTIMAL exactly when every row holds", ["if result.status != LPStatus.OPTIMAL:\n        return result", "if lhs > b[i] + eps:\n                return Result(None, float('inf') if minimize else float('-inf'), 0, 0, LPStatus.INFEASIBLE)", "return Result(tuple(sol), obj, 0, 0, LPStatus.OPTIMAL)", "if hi < lo - eps:\n            return Result(None, float('inf') if minimize else float('-inf'), 0, 0, LPStatus.INFEASIBLE)"])
    ctx.step(_bounded_only_by_single_entry_rows)
    ctx.step(_need, "C04-O6", "R1 STATUS-GUARD", ctx.func("milp", "_detect_binary"), "a variable counts as bounded by 1 only through a row with right-hand side 1 whose single non-zero entry - over all columns, continuous ones included - is a 1 in that integer column; all integer variables must be bounded that way", ["if abs(b[i] - 1.0) > eps:\n            continue", "nz = [(j, row[j]) for j in range(n) if abs(row[j]) > eps]", "if len(nz) == 1:\n            j, coef = nz[0]\n            if j in int_set and abs(coef - 1.0) < eps:\n                bounded.add(j)", "return len(bounded) == len(int_set) and len(int_set) > 0"], "a row such as x - 2y <= 1 with y continuous is no bound on x: taking it for one clamps x to [0, 1] in every node LP and a cut-off optimum is reported OPTIMAL")
    ctx.step(_need, "C04-O11", "R6 INCUMBENT", sm, "heuristic incumbents: a warm start is taken only if it has the right length and is feasible, the LNS result only if it is strictly better than the incumbent, each with the objective recomputed from c", ["if len(ws) == n and _is_feasible(ws, A, b, int_set, eps):\n            best_obj = sum((c[j] * ws[j] for j in range(n)))\n            best_solution = ws", "improved_obj = sum((c[j] * improved[j] for j in range(n)))\n            if minimize and improved_obj < best_obj or (not minimize and improved_obj > best_obj):\n                best_solution, best_obj = (improved, improved_obj)", "best_obj = sum((c[j] * rounded[j] for j in range(n)))\n            best_solution = rounded"])

    generic_sweeps(ctx)


def check_units(ctx: Ctx):
    n_cmp = 0
    for q in ("solve_milp", "_round_binary", "_solve_sub_mip"):
        f = ctx.func(MOD, q)
        env = UnitEnv(f, cost_params={"c"})
        ctx.ob("C04-O1", "R4 SIGN-UNIT", f, "sign variable is +1 for minimize, -1 for maximize", bool(env.sign_vars) and not any(v.startswith("!") for v in env.sign_vars), f"sign variables {sorted(env.sign_vars)}", node=f.node)
        for cmp, l, r in env.comparisons():
            if N in (l, r) or Q in (l, r):
                continue
            n_cmp += 1
            txt = ast.unparse(cmp)
            if l != r:
                ctx.ob("C04-O1", "R4 SIGN-UNIT", f, f"comparison `{txt}` does not mix units", False, f"left is {l}, right is {r}: a bound in internal sense is compared with a value in the user's sense (wrong for maximize)", node=cmp)
            elif l == U:
                ok = _under_minimize_guard(f, cmp)
                ctx.ob("C04-O1", "R4 SIGN-UNIT", f, f"U-vs-U ordering comparison `{txt}` is selected by `minimize`", ok, "an ordering test on user-sense values is only right for one direction", node=cmp)
            else:
                ctx.ob("C04-O1", "R4 SIGN-UNIT", f, f"comparison `{txt}` in internal units", True, "", node=cmp)
        for heap, ks in sorted(env.heap_keys.items()):
            us = {u for u, _ in ks}
            ctx.ob("C04-O1", "R4 SIGN-UNIT", f, f"all pushes to heap `{heap}` use an internal-sense key", us == {I}, f"key units {sorted(us)} over {len(ks)} pushes: a best-first heap ordered by user-sense values pops the worst node first when maximizing", node=ks[0][1])
        for n in own_nodes(f.node):
            if isinstance(n, ast.Call) and isinstance(n.func, ast.Name) and n.func.id == "_compute_gap":
                us = [env.unit(a) for a in n.args]
                ctx.ob("C04-O1", "R4 SIGN-UNIT", f, "gap helper receives incumbent and bound in the same (user) sense", us == [U, U], f"units {us}", node=n)
        if q == "solve_milp":
            for k, s in enumerate(result_sites(f)):
                o = s.arg("objective")
                u = env.unit(o)
                ctx.ob("C04-O1", "R4 SIGN-UNIT", f, f"Result#{k} objective is in the user's sense", u in (U, N), f"`{ast.unparse(o)}` has unit {u}", node=s.call)
    ctx.floor("unit-carrying ordering comparisons in milp.py", n_cmp, 6)
    if ctx.repo.has_func(MOD, "_compute_gap"):
        from .sat_common import _need as _need_gap

        ctx.step(_need_gap, "C04-O1", "R18 table", ctx.func(MOD, "_compute_gap"), "the gap is the distance between incumbent and bound, relative to the incumbent (absolute next to zero) - a real number", ["if abs(best_obj) < 1e-10:\n    return abs(best_obj - bound)", "return abs(best_obj - bound) / abs(best_obj)"], "solve_milp stops with OPTIMAL as soon as the gap is below gap_tol: a quotient that is floored (or taken relative to something else) reads every gap below 100% as 0, and the first improving leaf is published as the optimum while better nodes wait in the heap")


def _under_minimize_guard(f, cmp: ast.Compare) -> bool:
    """cmp is a conjunct of `(minimize and a < b) or (not minimize and a > b)` (both arms, opposite operators)."""
    for n in own_nodes(f.node):
        if isinstance(n, ast.BoolOp) and isinstance(n.op, ast.Or) and len(n.values) == 2:
            arms = []
            for v in n.values:
                if isinstance(v, ast.BoolOp) and isinstance(v.op, ast.And) and len(v.values) == 2:
                    t, c = v.values
                    pol = True if (isinstance(t, ast.Name) and t.id == "minimize") else (False if ast.unparse(t) == "not minimize" else None)
                    if pol is not None and isinstance(c, ast.Compare):
                        arms.append((pol, c))
            if len(arms) == 2 and any(c is cmp for _, c in arms) and {p for p, _ in arms} == {True, False}:
                (p1, c1), (p2, c2) = arms
                lt = (ast.Lt, ast.LtE)
                gt = (ast.Gt, ast.GtE)
                cm, cM = (c1, c2) if p1 else (c2, c1)
                same_operands = ast.unparse(cm.left) == ast.unparse(cM.left) and ast.unparse(cm.comparators[0]) == ast.unparse(cM.comparators[0])
                return same_operands and isinstance(cm.ops[0], lt) and isinstance(cM.ops[0], gt)
    return False


# -- O2 / O7 -------------------------------------------------------------------------------------


def _incumbent_assignments(f):
    """[(stmt(s), solution expr, objective expr)] for every assignment to the incumbent pair."""
    out = []
    for n in own_nodes(f.node):
        if isinstance(n, ast.Assign) and isinstance(n.targets[0], ast.Tuple) and [ast.unparse(e) for e in n.targets[0].elts] == ["best_solution", "best_obj"]:
            if isinstance(n.value, ast.Tuple):
                out.append(([n], n.value.elts[0], n.value.elts[1]))
        elif isinstance(n, ast.Assign) and isinstance(n.targets[0], ast.Name) and n.targets[0].id == "best_obj":
            blk = _enclosing_block(f.node, n)
            i = blk.index(n)
            mate = next((s for s in blk[max(0, i - 1) : i + 2] if isinstance(s, ast.Assign) and isinstance(s.targets[0], ast.Name) and s.targets[0].id == "best_solution"), None)
            out.append(([n] + ([mate] if mate is not None else []), mate.value if mate is not None else None, n.value))
    return out


def check_incumbent(ctx: Ctx, f):
    cfg = cfg_of(f.node)
    gv = GuardView(cfg)
    incs = _incumbent_assignments(f)
    ctx.floor("incumbent pair assignments in solve_milp", len(incs), 5)
    lone = [n for n in own_nodes(f.node) if isinstance(n, ast.Assign) and isinstance(n.targets[0], ast.Name) and n.targets[0].id == "best_solution"]
    paired = {id(s) for ss, _, _ in incs for s in ss}
    for n in lone:
        ctx.ob("C04-O7", "R5 PAIRING", f, "best_solution assigned together with best_obj", id(n) in paired, "", node=n)
    nodes = [cfg.node_of(ss[0]) for ss, _, _ in incs]
    for (ss, sol, obj), nd in zip(incs, nodes):
        what = ast.unparse(ss[0])[:60]
        if sol is None:
            ctx.ob("C04-O7", "R5 PAIRING", f, f"`{what}`: objective assigned next to its solution", False, "best_obj changes without best_solution", node=ss[0])
            continue
        if isinstance(sol, ast.Constant) and sol.value is None:
            continue  # initialisation (None, +-inf)
        # O7: objective is cost of the same point, or both fields of one LP record
        so, oo = ast.unparse(sol), ast.unparse(obj)
        ok = False
        if isinstance(obj, ast.Call) and "c[j]" in oo and f"{so}[j]" in oo:
            ok = True
        if isinstance(obj, ast.Name) and isinstance(sol, ast.Name):
            sd = [ast.unparse(v.value) for v in own_nodes(f.node) if isinstance(v, ast.Assign) and isinstance(v.targets[0], ast.Name) and v.targets[0].id == sol.id]
            od = [ast.unparse(v.value) for v in own_nodes(f.node) if isinstance(v, ast.Assign) and isinstance(v.targets[0], ast.Name) and v.targets[0].id == obj.id]
            if len(od) == 1 and "c[j]" in od[0] and f"{sol.id}[j]" in od[0]:
                ok = True  # (X, sum(c[j] * X[j]))
            elif len(sd) == 1 and len(od) == 1:
                base = od[0].replace(".objective", "")
                ok = od[0].endswith(".objective") and base + ".solution" in sd[0]  # both fields of one LP record
        ctx.ob("C04-O7", "R5 PAIRING", f, f"incumbent `{so}` is stored with the objective of that same point", ok, f"objective `{oo[:60]}`", node=ss[0])
        # O2: guarded by improvement or first incumbent
        at = gv.guard_atoms(nd)
        improving = any(("best_obj" in a and any(op in a for op in (" < ", " <= "))) or a == "best_solution is None" or (or_parts(a) and all("best_obj" in p for p in or_parts(a))) for a in at)
        if not improving:
            # first possible incumbent: no other non-initial incumbent assignment can precede it
            back = cfg.backward(nd)
            others = [o for (s2, sol2, _), o in zip(incs, nodes) if o is not nd and not (isinstance(sol2, ast.Constant) and sol2.value is None)]
            improving = not any(o.id in back for o in others)
        ctx.ob("C04-O2", "R6 INCUMBENT", f, f"incumbent update `{what}` is guarded by an improvement test (or is the first incumbent)", improving, f"guards {sorted(a for a in at if 'best' in a)}", node=ss[0])
    # published pairs
    for k, s in enumerate(result_sites(f)):
        sol, obj = ast.unparse(s.arg("solution")), ast.unparse(s.arg("objective"))
        if sol == "None":
            continue
        ok = (sol, obj) in (("best_solution", "best_obj"), ("root_result.solution", "root_result.objective"), ("best_solution or sol", "best_obj if best_solution else sol_obj"))
        ctx.ob("C04-O7", "R5 PAIRING", f, f"Result#{k} publishes a solution with its own objective", ok, f"({sol}, {obj})", node=s.call)


# -- O3 ------------------------------------------------------------------------------------------

CERT = "_is_feasible"


def _cert_atoms_for(vec: str):
    return {f"T:_is_feasible({vec}, A, b, int_set, eps)"}


def check_certified(ctx: Ctx, f):
    cfg = cfg_of(f.node)
    gv = GuardView(cfg)
    for ss, sol, obj in _incumbent_assignments(f):
        if sol is None or (isinstance(sol, ast.Constant) and sol.value is None):
            continue
        nd = cfg.node_of(ss[0])
        at = gv.guard_atoms(nd, stable_only=False)
        name = ast.unparse(sol)
        origin = None
        defs = [v.value for v in own_nodes(f.node) if isinstance(v, ast.Assign) and any(isinstance(t, ast.Name) and t.id == name for t in v.targets)]
        tdefs = [v for v in own_nodes(f.node) if isinstance(v, ast.Assign) and isinstance(v.targets[0], ast.Tuple) and any(isinstance(e, ast.Name) and e.id == name for e in v.targets[0].elts)]
        if any(a.startswith(f"T:{CERT}({name},") for a in at):
            origin = f"{CERT}({name}) holds"
        elif defs and all(isinstance(d, ast.Call) and isinstance(d.func, ast.Name) and d.func.id == "_round_binary" for d in defs):
            origin = "callee:_round_binary" if f"{name} is not None" in at else None
        elif tdefs and all(isinstance(d.value, ast.Call) and isinstance(d.value.func, ast.Name) and d.value.func.id == "_lns_improve" for d in tdefs):
            origin = "callee:_lns_improve" if f"{name} is not None" in at else None
        elif defs and all("result.solution" in ast.unparse(d) for d in defs):
            lp_ok = atom_of("result.status == LPStatus.OPTIMAL") in at
            integral = "frac_var is None" in at
            origin = "node LP OPTIMAL and no fractional variable" if (lp_ok and integral) else None
        ctx.ob("C04-O3", "R14 GATE", f, f"incumbent source `{name}` passed a certifier", origin is not None, f"certifier: {origin}; guards {sorted(a for a in at if CERT in a or 'status' in a or 'frac' in a or 'None' in a)}", node=ss[0])
    # heuristics: every non-None return dominated by a certifier on the returned vector
    rb = ctx.func(MOD, "_round_binary")
    c2 = cfg_of(rb.node)
    g2 = GuardView(c2)
    n_ret = 0
    for n in own_nodes(rb.node):
        if isinstance(n, ast.Return) and not (isinstance(n.value, ast.Constant) and n.value.value is None):
            n_ret += 1
            at = g2.guard_atoms(c2.node_of(n), stable_only=False)
            vec = next((x for x in names_in(n.value) if x not in ("tuple", "list")), "?")
            ok = any(a.startswith(f"T:{CERT}({vec},") for a in at)
            ctx.ob("C04-O3", "R14 GATE", rb, "rounding heuristic returns only a vector that passed _is_feasible", ok, f"returned `{ast.unparse(n.value)}`", node=n)
    ctx.floor("non-None returns of _round_binary", n_ret, 1)
    # every in-place change of the vector after the gate is kept only under a feasibility test
    gate = None
    for n in own_nodes(rb.node):
        if isinstance(n, ast.If) and ast.unparse(n.test).startswith(f"not {CERT}(sol"):
            gate = c2.stmt_node_containing(n.test)
    ctx.require(gate is not None, "_round_binary feasibility gate not found")
    for n in own_nodes(rb.node):
        if isinstance(n, ast.Assign) and any(isinstance(t, (ast.Subscript, ast.Tuple)) and "sol[" in ast.unparse(t) for t in n.targets):
            sn = c2.node_of(n)
            if sn.id not in c2.forward(gate):
                continue
            # the store is followed (same block or enclosing loop body) by a feasibility test, or is itself guarded by one / restores a saved value
            blk = _enclosing_block(rb.node, n)
            rest = blk[blk.index(n) + 1 :]
            tested_after = any(CERT + "(sol" in ast.unparse(s) for s in rest[:2])
            at = g2.guard_atoms(sn, stable_only=False)
            restoring = any(a.startswith(f"F:{CERT}(sol") for a in at) or ast.unparse(n.value) in ("old_val", "(0.0, 1.0)")
            chosen = "T:best_swap" in at
            ctx.ob("C04-O3", "R14 GATE", rb, f"post-gate edit `{ast.unparse(n)[:40]}` is re-certified, a restore, or a certified choice", tested_after or restoring or chosen, "", node=n)
    # the restore after a trial swap writes (0, 1) back: right only if the pair was drawn from the zeros and the ones of
    # the vector as it is now - the candidate lists are rebuilt from `sol` in every pass and nothing else writes them
    parents = {ch: par for par in ast.walk(rb.node) for ch in ast.iter_child_nodes(par)}

    def _up(n, kinds):
        out = []
        while n in parents:
            n = parents[n]
            if isinstance(n, kinds):
                out.append(n)
        return out

    trials = [n for n in own_nodes(rb.node) if isinstance(n, ast.Assign) and isinstance(n.targets[0], ast.Tuple) and "sol[" in ast.unparse(n.targets[0]) and _up(n, ast.For)]
    n_lists = 0
    for tr in trials[:1]:
        loops = _up(tr, ast.While)
        for fr in _up(tr, ast.For):
            if not isinstance(fr.iter, ast.Name):
                continue
            L = fr.iter.id
            n_lists += 1
            defs = [d for d in own_nodes(rb.node) if isinstance(d, ast.Assign) and any(isinstance(t, ast.Name) and t.id == L for t in d.targets)]
            other = [w for w in own_nodes(rb.node) if (isinstance(w, (ast.Assign, ast.AugAssign, ast.Delete)) and any(isinstance(t, ast.Subscript) and ast.unparse(t.value) == L for t in (w.targets if isinstance(w, (ast.Assign, ast.Delete)) else [w.target]))) or (isinstance(w, ast.AugAssign) and ast.unparse(w.target) == L) or (isinstance(w, ast.Call) and isinstance(w.func, ast.Attribute) and ast.unparse(w.func.value) == L and w.func.attr in ("append", "remove", "pop", "insert", "extend", "clear", "sort", "reverse"))]
            tgt = ast.unparse(fr.target)
            mate = next((ast.unparse(g.target) for g in _up(tr, ast.For) if g is not fr), "?")
            lost, gained, stray = [], [], []
            for w in other:
                at_w = g2.guard_atoms(c2.stmt_node_containing(w), stable_only=False)
                if "T:best_swap" not in at_w:
                    stray.append(w)
                elif isinstance(w, ast.Call) and w.func.attr == "remove" and len(w.args) == 1:
                    lost.append(ast.unparse(w.args[0]))
                elif isinstance(w, ast.Call) and w.func.attr == "append" and len(w.args) == 1:
                    gained.append(ast.unparse(w.args[0]))
                elif isinstance(w, ast.Assign) and ast.unparse(w.targets[0]).startswith(f"{L}[{L}.index("):
                    lost.append(ast.unparse(w.targets[0].slice.args[0]))
                    gained.append(ast.unparse(w.value))
                else:
                    stray.append(w)
            if other and not stray and lost == [tgt] and gained == [mate] and len(defs) == 1 and isinstance(defs[0].value, ast.ListComp) and "sol[" in ast.unparse(defs[0].value):
                ctx.ob("C04-O3", "R14 GATE", rb, f"swap candidates `{L}` are kept in step with the vector: an accepted swap takes `{tgt}` out and puts `{mate}` in", True, "", node=other[0])
                continue
            fresh = len(defs) == 1 and isinstance(defs[0].value, ast.ListComp) and "sol[" in ast.unparse(defs[0].value) and bool(loops) and _up(defs[0], ast.While)[:1] == loops[:1]
            ctx.ob("C04-O3", "R14 GATE", rb, f"swap candidates `{L}` are read off the vector anew in every pass of the improvement loop, and nothing else writes the list", fresh and not other, (f"`{ast.unparse(other[0])[:50]}` edits the list by hand" if other else f"{len(defs)} definition(s), {'outside' if defs and not fresh else 'inside'} the loop") + ": an index that is no longer a zero (or a one) of the vector is tried again, and the restore after its trial writes 0 into a variable that is 1 - the returned point was never certified", node=(other or defs or [fr])[0])
    ctx.floor("swap candidate lists in _round_binary", n_lists, 2)
    sm = ctx.func(MOD, "_solve_sub_mip")
    c3 = cfg_of(sm.node)
    g3 = GuardView(c3)
    for n in own_nodes(sm.node):
        if isinstance(n, ast.Return) and not (isinstance(n.value, ast.Constant) and n.value.value is None):
            v = ast.unparse(n.value)
            at = g3.guard_atoms(c3.node_of(n), stable_only=False)
            if v == "best_sol":
                # every assignment to best_sol certified
                for a in own_nodes(sm.node):
                    tgt = None
                    if isinstance(a, ast.Assign) and isinstance(a.targets[0], ast.Tuple) and ast.unparse(a.targets[0].elts[0]) == "best_sol":
                        tgt = a.value.elts[0] if isinstance(a.value, ast.Tuple) else None
                    elif isinstance(a, ast.Assign) and ast.unparse(a.targets[0]) == "best_sol":
                        tgt = a.value
                    if tgt is None or (isinstance(tgt, ast.Constant) and tgt.value is None):
                        continue
                    ga = g3.guard_atoms(c3.node_of(a), stable_only=False)
                    vec = next((x for x in names_in(tgt) if x not in ("tuple", "list")), "?")
                    ok = any(x.startswith(f"T:{CERT}({vec},") for x in ga) or (atom_of("res.status == LPStatus.OPTIMAL") in ga and "branch_var is None" in ga and vec in ("res", "node_sol"))
                    ctx.ob("C04-O3", "R14 GATE", sm, f"sub-MIP incumbent `{ast.unparse(tgt)[:30]}` certified: the vector that is stored is the one that passed the test", ok, f"stored `{vec}` under {sorted(x for x in ga if CERT in x or 'status' in x or 'branch_var' in x)}: a neighbour of the certified vector (the LP point next to its rounding) was certified by nobody - it can be fractional, and solve_milp adopts what the LNS pass returns on its objective alone", node=a)
            else:
                ok = atom_of("result.status == LPStatus.OPTIMAL") in at and "F:frac_vars" in at
                ctx.ob("C04-O3", "R14 GATE", sm, f"sub-MIP return `{v}` is an LP-optimal point without fractional free variable", ok, f"{sorted(at)}", node=n)
    # the LNS pass: solve_milp adopts what _lns_improve returns on its objective alone, and lns() keeps what `repair`
    # returns - so `repair` may hand back nothing but the sub-MIP's own answer (certified above) or the solution it was
    # given (the incumbent, certified before).  Anything assembled in between was certified by nobody.
    li = ctx.func(MOD, "_lns_improve")
    rep = [x for x in li.node.body if isinstance(x, ast.FunctionDef) and x.name == "repair"]
    ctx.floor("repair closure of _lns_improve", len(rep), 1)
    for r_ in rep:
        given = set()
        sub = set()
        for x in ast.walk(r_):
            if isinstance(x, ast.Assign) and isinstance(x.targets[0], ast.Tuple) and isinstance(x.value, ast.Name) and x.value.id == r_.args.args[0].arg and x.targets[0].elts and isinstance(x.targets[0].elts[0], ast.Name):
                given.add(x.targets[0].elts[0].id)
            if isinstance(x, ast.Assign) and len(x.targets) == 1 and isinstance(x.targets[0], ast.Name) and isinstance(x.value, ast.Call) and ast.unparse(x.value.func) == "_solve_sub_mip":
                sub.add(x.targets[0].id)
        rebound = {n_.id for n_ in ast.walk(r_) if isinstance(n_, ast.Name) and isinstance(n_.ctx, ast.Store)}
        stores = [x for x in ast.walk(r_) if isinstance(x, ast.Assign)]
        multi = {nm for nm in given | sub if sum(1 for x in stores for t in ast.walk(x.targets[0]) if isinstance(t, ast.Name) and t.id == nm) != 1}
        for n in ast.walk(r_):
            if isinstance(n, ast.Return):
                alts = [n.value]
                flat = []
                while alts:
                    e = alts.pop()
                    if isinstance(e, ast.IfExp):
                        alts += [e.body, e.orelse]
                    elif isinstance(e, ast.BoolOp):
                        alts += e.values
                    else:
                        flat.append(e)
                ok = bool(flat) and all(isinstance(e, ast.Name) and e.id in (given | sub) - multi for e in flat)
                ctx.ob("C04-O3", "R14 GATE", li, "the LNS repair returns the sub-MIP's answer or the solution it was given, nothing assembled from them", ok, f"`return {ast.unparse(n.value)[:70]}`: a vector spliced together from a remembered sub-MIP answer and the current solution was certified by nobody, and solve_milp adopts the LNS result on its objective alone", node=n)


# -- O4 ------------------------------------------------------------------------------------------


def _blk_of(fn_node, stmt):
    for n in ast.walk(fn_node):
        for fld in ("body", "orelse", "finalbody"):
            b = getattr(n, fld, None)
            if isinstance(b, list) and any(x is stmt for x in b):
                return b
    return []


def check_verdicts(ctx: Ctx, f):
    cfg = cfg_of(f.node)
    gv = GuardView(cfg)
    sites = result_sites(f)
    ctx.floor("Result sites in solve_milp", len(sites), 8)
    # main loop and its budget conjunct
    loops = [n for n in cfg.nodes if n.kind == "test" and n.note == "while" and any(isinstance(c, ast.Call) and ast.unparse(c.func) == "heappop" for w in own_nodes(f.node) if isinstance(w, ast.While) and w.test is n.ast for c in ast.walk(w))]
    ctx.require(len(loops) == 1, "branch-and-bound loop (the `while` that pops the open-node heap) not found")
    loop = loops[0]
    conj = loop.ast.values if isinstance(loop.ast, ast.BoolOp) and isinstance(loop.ast.op, ast.And) else [loop.ast]
    natural = [c for c in conj if "max_nodes" not in names_in(c)]
    ctx.require(len(natural) == 1 and isinstance(natural[0], ast.Name), "natural conjunct of the B&B loop (open-node heap) not recognised")
    heap = natural[0].id
    # the verdicts after the loop read `heap` as "every node was explored": nothing may leave the loop with a popped node
    # unprocessed unless that node is pushed back first
    wloop = next(w for w in own_nodes(f.node) if isinstance(w, ast.While) and w.test is loop.ast)
    for b in [x for x in ast.walk(wloop) if isinstance(x, ast.Break)]:
        bn = cfg.node_of(b)
        if bn.loop is not loop:
            continue
        pops = [cfg.stmt_node_containing(x) for x in ast.walk(wloop) if isinstance(x, ast.Call) and ast.unparse(x.func) == "heappop" and x.args and ast.unparse(x.args[0]) == heap]
        if pops and not any(p_ is not None and cfg.dominates(p_, bn) for p_ in pops):
            continue  # a break taken before any node was popped in this round leaves the heap as it is
        blk = _blk_of(f.node, b)
        pushed_back = any(isinstance(x, ast.Expr) and isinstance(x.value, ast.Call) and ast.unparse(x.value.func) == "heappush" and ast.unparse(x.value.args[0]) == heap for x in blk[: blk.index(b)])
        ctx.ob("C04-O4", "R2 BUDGET-EXIT", f, "a `break` out of the node loop does not abandon the node that was just popped", pushed_back, f"the popped node is no longer in `{heap}`: if it was the last one, `not {heap}` after the loop reads as an exhausted search and the incumbent is labelled OPTIMAL (or the problem INFEASIBLE)", node=b)
    rootuse = [n for n in own_nodes(f.node) if isinstance(n, ast.Assign) and "root_result.solution" in ast.unparse(n.value) and "_most_fractional" in ast.unparse(n.value)]
    ctx.floor("uses of the root relaxation's point", len(rootuse), 1)
    for n in rootuse:
        at = gv.guard_atoms(cfg.node_of(n), stable_only=False)
        need = {atom_of(f"root_result.status != LPStatus.{x}") for x in ("INFEASIBLE", "UNBOUNDED", "MAX_ITER")}
        ctx.ob("C04-O4", "R2 BUDGET-EXIT", f, "the root relaxation's point is read only after its status was found to be neither INFEASIBLE, UNBOUNDED nor MAX_ITER", need <= at, f"missing {sorted(need - at)}: an unsolved root LP hands back an all-zero placeholder, which is integral and would be returned as the optimum", node=n)
    gapret = [s_ for s_ in sites if s_.node.loop is not None and "OPTIMAL" in s_.statuses and atom_of("gap < gap_tol") in gv.guard_atoms(s_.node, stable_only=False)]
    for s_ in gapret:
        ctx.ob("C04-O4", "R2 BUDGET-EXIT", f, "the gap-based early OPTIMAL is not taken once a node LP went unresolved", "F:lp_budget_hit" in gv.guard_atoms(s_.node, stable_only=False), "the unresolved node had a bound no worse than the current one: the gap computed from the current bound understates what is still open", node=s_.call)
    n_exact_after = 0
    lp_disc: dict = {}
    for k, s in enumerate(sites):
        at = gv.guard_atoms(s.node)
        after_loop = s.node.loop is None and s.node.id in cfg.forward(loop)
        st_expr = s.arg("status")
        for st in sorted(s.statuses):
            if st not in ("OPTIMAL", "INFEASIBLE", "UNBOUNDED"):
                continue
            if after_loop:
                n_exact_after += 1
                # exact verdict after a budgeted loop: the heap-empty fact must be re-established
                disc = f"F:{heap}" in at
                if not disc and isinstance(st_expr, ast.Name):
                    for d in own_nodes(f.node):
                        if isinstance(d, ast.Assign) and ast.unparse(d.targets[0]) == st_expr.id and isinstance(d.value, ast.IfExp):
                            t, b, o = d.value.test, d.value.body, d.value.orelse
                            if f"F:{heap}" in _atoms(t, True) and ast.unparse(b) == f"Status.{st}":
                                disc = True
                                lp_disc.setdefault(k, set()).update(_atoms(t, True))
                            if f"F:{heap}" in _atoms(t, False) and ast.unparse(o) == f"Status.{st}":
                                disc = True
                                lp_disc.setdefault(k, set()).update(_atoms(t, False))
                if not disc and isinstance(st_expr, ast.IfExp):
                    t, b, o = st_expr.test, st_expr.body, st_expr.orelse
                    disc = (f"F:{heap}" in _atoms(t, True) and ast.unparse(b) == f"Status.{st}") or (f"F:{heap}" in _atoms(t, False) and ast.unparse(o) == f"Status.{st}")
                    if f"F:{heap}" in _atoms(t, True):
                        lp_disc.setdefault(k, set()).update(_atoms(t, True))
                    if f"F:{heap}" in _atoms(t, False):
                        lp_disc.setdefault(k, set()).update(_atoms(t, False))
                ctx.ob("C04-O4", "R2 BUDGET-EXIT", f, f"Result#{k} {st} after the B&B loop is given only if no node LP ran out of simplex iterations", "F:lp_budget_hit" in (lp_disc.get(k, set()) | at), "a node whose LP ended in MAX_ITER is dropped unexplored: the emptied tree then proves neither optimality nor infeasibility", node=s.call)
                ctx.ob("C04-O4", "R2 BUDGET-EXIT", f, f"Result#{k} {st} after the B&B loop is discriminated from the node-budget exit", disc, f"the loop also ends when nodes_explored reaches max_nodes with `{heap}` non-empty; guards {sorted(a for a in at if heap in a or 'best' in a)}", node=s.call)
                if st == "INFEASIBLE":
                    ctx.ob("C04-O4", "R1 STATUS-GUARD", f, f"Result#{k} INFEASIBLE only without incumbent", "best_solution is None" in at, "", node=s.call)
            elif s.node.loop is not None:
                if st == "OPTIMAL":
                    ok = any(a.startswith("gap <") for a in at) and atom_of("solution_limit == 1") in at
                    ctx.ob("C04-O4", "R1 STATUS-GUARD", f, f"Result#{k} in-loop OPTIMAL under the gap test with solution_limit == 1", ok, f"{sorted(at)}", node=s.call)
                else:
                    ctx.ob("C04-O4", "R1 STATUS-GUARD", f, f"Result#{k} in-loop {st}", False, "an exact negative verdict cannot be given inside the loop", node=s.call)
            else:
                if st == "INFEASIBLE":
                    ok = atom_of("root_result.status == LPStatus.INFEASIBLE") in at
                elif st == "UNBOUNDED":
                    ok = atom_of("root_result.status == LPStatus.UNBOUNDED") in at
                else:
                    ok = "frac_var is None" in at and atom_of("root_result.status != LPStatus.INFEASIBLE") in at
                ctx.ob("C04-O4", "R1 STATUS-GUARD", f, f"Result#{k} pre-loop {st} under the matching root-LP outcome", ok, f"{sorted(at)}", node=s.call)
    ctx.floor("exact verdicts after the B&B loop", n_exact_after, 2)
    # a node whose LP did not reach OPTIMAL is dropped: only sound if its status is INFEASIBLE
    sn = ctx.func(MOD, "_solve_node")
    ctx.note("node LPs ending MAX_ITER are dropped like infeasible ones (`result.status != OPTIMAL -> continue`); unreachable for the property's quantifier (default max_iter 10000 on small bounded MILPs), recorded as information only")


# -- O5 ------------------------------------------------------------------------------------------


def check_children(ctx: Ctx, f):
    pushes = []
    for n in own_nodes(f.node):
        if isinstance(n, ast.Call) and isinstance(n.func, ast.Name) and n.func.id == "heappush" and "Node(" in ast.unparse(n) and "depth + 1" in ast.unparse(n):
            pushes.append(n)
    ctx.ob("C04-O5", "R29 EXACTLY-ONCE", f, "branching pushes exactly two children", len(pushes) == 2, f"{len(pushes)} child pushes", node=f.node)
    if len(pushes) != 2:
        return
    cfg = cfg_of(f.node)
    b0 = _enclosing_block(f.node, cfg.stmt_node_containing(pushes[0]).ast)
    b1 = _enclosing_block(f.node, cfg.stmt_node_containing(pushes[1]).ast)
    ctx.ob("C04-O5", "R29 EXACTLY-ONCE", f, "both children are pushed on the same path", b0 is b1, "", node=pushes[0])
    stores = {}
    copies = {}
    for s in b0:
        if isinstance(s, ast.Assign) and isinstance(s.targets[0], ast.Subscript) and isinstance(s.targets[0].value, ast.Name):
            stores[s.targets[0].value.id] = (ast.unparse(s.targets[0].slice), ast.unparse(s.value))
        if isinstance(s, ast.Assign) and isinstance(s.targets[0], ast.Tuple) and isinstance(s.value, ast.Tuple):
            for t, v in zip(s.targets[0].elts, s.value.elts):
                copies[t.id] = ast.unparse(v)
    kinds = set()
    for p in pushes:
        node_call = next(x for x in ast.walk(p) if isinstance(x, ast.Call) and isinstance(x.func, ast.Name) and x.func.id == "Node")
        lo_n = [x for x in names_in(node_call.args[1]) if x != "tuple"][0]
        hi_n = [x for x in names_in(node_call.args[2]) if x != "tuple"][0]
        lo_src, hi_src = copies.get(lo_n), copies.get(hi_n)
        if hi_n in stores and stores[hi_n] == ("frac_var", "floor(val)") and lo_n not in stores and lo_src == "list(node.lower)" and hi_src == "list(node.upper)":
            kinds.add("down")
        if lo_n in stores and stores[lo_n] == ("frac_var", "ceil(val)") and hi_n not in stores and lo_src == "list(node.lower)" and hi_src == "list(node.upper)":
            kinds.add("up")
    ctx.ob("C04-O5", "R29 EXACTLY-ONCE", f, "children are {upper[v] = floor(val)} and {lower[v] = ceil(val)} of the same variable, other bounds inherited", kinds == {"down", "up"}, f"recognised children: {sorted(kinds)}", node=pushes[0])
    # val is the LP value of the branching variable chosen by _most_fractional on this node's solution
    vals = [ast.unparse(n.value) for n in own_nodes(f.node) if isinstance(n, ast.Assign) and ast.unparse(n.targets[0]) == "val"]
    ctx.ob("C04-O5", "R29 EXACTLY-ONCE", f, "branch value is the node LP value of the branching variable", vals == ["result.solution[frac_var]"], f"{vals}", node=pushes[0])
    # child bound is the node's LP bound in internal sense
    key = pushes[0].args[1].elts[0]
    cb = [ast.unparse(n.value) for n in own_nodes(f.node) if isinstance(n, ast.Assign) and isinstance(key, ast.Name) and ast.unparse(n.targets[0]) == key.id] or [ast.unparse(key)]
    ctx.ob("C04-O5", "R4 SIGN-UNIT", f, "child bound = sign * node LP objective", cb in (["sign * result.objective"], ["result.objective * sign"]), f"{cb}", node=pushes[0])


# -- O8 ------------------------------------------------------------------------------------------


def check_node_rows(ctx: Ctx):
    """The node LP must contain every row of A (with the fixed variables moved to the right-hand side): a row that is
    skipped is a constraint the returned 'feasible' point was never checked against."""
    sn = ctx.func(MOD, "_solve_node")
    cfg = cfg_of(sn.node)
    loops = [n for n in own_nodes(sn.node) if isinstance(n, ast.For) and ast.unparse(n.iter) == "enumerate(A)" and any(isinstance(c, ast.Call) and ast.unparse(c.func) == "A_red.append" for c in ast.walk(n))]
    ctx.require(len(loops) == 1, "row loop building the reduced node LP not found in _solve_node")
    lp = loops[0]
    head = cfg.stmt_node_containing(lp.iter)
    apps_a = [cfg.stmt_node_containing(c) for c in ast.walk(lp) if isinstance(c, ast.Call) and ast.unparse(c.func) == "A_red.append"]
    apps_b = [cfg.stmt_node_containing(c) for c in ast.walk(lp) if isinstance(c, ast.Call) and ast.unparse(c.func) == "b_red.append"]
    bt = [cfg.nodes[i] for i in cfg.succ[head.id] if cfg.nodes[i].kind == "branch" and cfg.nodes[i].pol is True][0]
    skipped = False
    for group in (apps_a, apps_b):
        reach = cfg.forward(bt, avoid={g.id for g in group})
        if head.id in reach:
            # a path back to the loop head without the append: acceptable only if it cannot exist without a return
            skipped = True
    ctx.ob("C04-O8", "R29 EXACTLY-ONCE", sn, "every row of A contributes one row (coefficients and right-hand side) to the node LP", not skipped, "a path through the row loop reaches the next row without appending: that constraint is absent from the node LP, so an integral point violating it can become the incumbent", node=lp)
    t = ast.unparse(lp)
    ctx.ob("C04-O8", "R29 EXACTLY-ONCE", sn, "fixed variables are moved to the right-hand side of their row", "fixed_contrib = sum((row[j] * fixed[j] for j in fixed))" in t and "new_rhs = b[i] - fixed_contrib" in t and "b_red.append(new_rhs)" in t and "A_red.append([row[j] for j in free_vars])" in t, "", node=lp)
    # the all-fixed case checks every row explicitly
    t2 = ast.unparse(sn.node)
    ctx.ob("C04-O8", "R14 GATE", sn, "a node with every variable fixed is checked against every row before it is reported feasible", "if not free_vars:" in t2 and "if lhs > b[i] + eps:" in t2, "", node=sn.node)


# -- O6 ------------------------------------------------------------------------------------------


def check_tightening(ctx: Ctx, f):
    cfg = cfg_of(f.node)
    gv = GuardView(cfg)
    n = 0
    for s in own_nodes(f.node):
        if isinstance(s, ast.Assign) and isinstance(s.targets[0], ast.Subscript) and isinstance(s.targets[0].value, ast.Name) and s.targets[0].value.id in ("lower", "upper"):
            n += 1
            at = gv.guard_atoms(cfg.node_of(s), stable_only=False)
            ok = any(a.startswith("T:_detect_binary(") for a in at)
            ctx.ob("C04-O6", "R1 STATUS-GUARD", f, f"root bound tightening `{ast.unparse(s)[:40]}` is dominated by the explicit x<=1 row detector", ok, f"{sorted(at)[:6]}", node=s)
    # the box [0, 1] is put on the integer variables only: any other write to the root bounds under the detector
    whole = [x for x in own_nodes(f.node) if isinstance(x, ast.Assign) and ast.unparse(x.targets[0]) in ("lower", "upper") and any(a.startswith("T:_detect_binary(") for a in gv.guard_atoms(cfg.node_of(x), stable_only=False))]
    ctx.ob("C04-O6", "R1 STATUS-GUARD", f, "under the detector only the bounds of the integer variables are tightened (element by element, over int_set)", not whole, f"`{ast.unparse(whole[0])[:60]}` rewrites the bounds of every variable: a continuous variable is capped at 1 in every node LP and the tree is exhausted over a smaller feasible set" if whole else "", node=whole[0] if whole else f.node)
    for s in own_nodes(f.node):
        if isinstance(s, ast.Assign) and isinstance(s.targets[0], ast.Subscript) and isinstance(s.targets[0].value, ast.Name) and s.targets[0].value.id in ("lower", "upper"):
            lp_ = cfg.node_of(s).loop
            if any(a.startswith("T:_detect_binary(") for a in gv.guard_atoms(cfg.node_of(s), stable_only=False)):
                ctx.ob("C04-O6", "R1 STATUS-GUARD", f, f"`{ast.unparse(s)[:40]}` ranges over the integer variables", lp_ is not None and lp_.kind == "for" and ast.unparse(lp_.ast.iter) == "int_set" and ast.unparse(s.targets[0].slice) == ast.unparse(lp_.ast.target), "", node=s)
    if whole:
        n = max(n, 2)
    ctx.floor("root bound stores", n, 2)
    db = ctx.func(MOD, "_detect_binary")
    txt = ast.unparse(db.node)
    ok = "len(bounded) == len(int_set)" in txt and "len(nz) == 1" in txt and "abs(b[i] - 1.0) > eps" in txt
    ctx.ob("C04-O6", "R1 STATUS-GUARD", db, "detector demands a single-variable row with rhs 1 for every integer variable", ok, "", node=db.node)


# ---------------------------------------------------------------------------------------------
from sa import mutate as M  # noqa: E402

ML = "solvor/milp.py"


def _v_budget_infeasible(tree):
    f = M.find_func(tree, "solve_milp")
    M.replace_expr(f, lambda e: isinstance(e, ast.IfExp) and M.src_has(e.test, "not tree") and M.src_has(e, "INFEASIBLE"), M.expr("Status.INFEASIBLE"))


def _v_prune_wrong_sign(tree):
    f = M.find_func(tree, "solve_milp")
    M.replace_expr(f, lambda e: M.src_is(e, "node_bound >= sign * best_obj - eps"), M.expr("node_bound >= best_obj - eps"))


def _v_leaf_compare_user_units(tree):
    f = M.find_func(tree, "solve_milp")
    M.replace_expr(f, lambda e: M.src_is(e, "sign * sol_obj < sign * best_obj"), M.expr("sol_obj < best_obj"))


def _v_heap_key_user_units(tree):
    f = M.find_func(tree, "solve_milp")
    M.replace_stmt(f, lambda s: M.src_is(s, "child_bound = sign * result.objective"), M.stmts("child_bound = result.objective"))


def _v_drop_child(tree):
    f = M.find_func(tree, "solve_milp")
    M.replace_stmt(f, lambda s: isinstance(s, ast.Expr) and M.src_has(s, "heappush(tree, (child_bound, counter, Node(child_bound, tuple(lower_right)"), [])


def _v_child_wrong_bound(tree):
    f = M.find_func(tree, "solve_milp")
    M.replace_stmt(f, lambda s: M.src_is(s, "lower_right[frac_var] = ceil(val)"), M.stmts("lower_right[frac_var] = floor(val)"))


def _v_warm_unchecked(tree):
    f = M.find_func(tree, "solve_milp")
    M.replace_expr(f, lambda e: M.src_is(e, "len(ws) == n and _is_feasible(ws, A, b, int_set, eps)"), M.expr("len(ws) == n"))


def _v_tighten_unjustified(tree):
    f = M.find_func(tree, "solve_milp")
    M.replace_expr(f, lambda e: M.src_is(e, "looks_binary and _detect_binary(A, b, int_set, n, eps)"), M.expr("looks_binary"))


def _v_incumbent_unconditional(tree):
    f = M.find_func(tree, "solve_milp")
    M.replace_stmt(f, lambda s: isinstance(s, ast.If) and M.src_has(s.test, "improved_obj < best_obj"), lambda s: s.body)


def _v_stale_objective(tree):
    f = M.find_func(tree, "solve_milp")
    M.replace_stmt(f, lambda s: M.src_is(s, "best_solution, best_obj = (sol, sol_obj)"), M.stmts("best_solution = sol"))


def _v_optimal_after_budget(tree):
    f = M.find_func(tree, "solve_milp")
    M.replace_expr(f, lambda e: isinstance(e, ast.IfExp) and M.src_has(e.test, "not tree") and M.src_is(e.body, "Status.OPTIMAL"), M.expr("Status.OPTIMAL"))


def _v_round_no_gate(tree):
    g = M.find_func(tree, "_round_binary")
    M.replace_stmt(g, lambda s: isinstance(s, ast.If) and M.src_has(s.test, "not _is_feasible(sol"), [])


def _v_right_child_keeps_lower(tree):
    g = M.find_func(tree, "solve_milp")
    M.replace_stmt(g, lambda s: M.src_is(s, "lower_right[frac_var] = ceil(val)"), M.stmts("upper_right[frac_var] = ceil(val)"))


def _v_budget_break_after_pop(tree):
    g = M.find_func(tree, "solve_milp")
    w = [n for n in ast.walk(g) if isinstance(n, ast.While) and M.src_has(n.test, "nodes_explored < max_nodes")]
    if not w:
        raise M.Skip("node loop not found")
    w[0].test = M.expr("tree")
    prune = [i for i, s in enumerate(w[0].body) if isinstance(s, ast.If) and M.src_has(s.test, "node_bound >= sign * best_obj - eps")]
    if not prune:
        raise M.Skip("bound prune not found")
    w[0].body[prune[0] + 1 : prune[0] + 1] = M.stmts("if nodes_explored >= max_nodes:\n    break")


def _v_box_on_all_variables(tree):
    g = M.find_func(tree, "solve_milp")
    M.replace_stmt(g, lambda s: isinstance(s, ast.For) and M.src_is(s.iter, "int_set") and M.src_has(s, "upper[j] = min(upper[j], 1.0)"), M.stmts("lower = [max(lo, 0.0) for lo in lower]\nupper = [min(hi, 1.0) for hi in upper]"))


def _v_sign_test_integers_only(tree):
    g = M.find_func(tree, "_is_feasible")
    M.replace_stmt(g, lambda s: isinstance(s, ast.If) and M.src_has(s.test, "x[j] < -eps"), [])
    M.replace_expr(g, lambda e: M.src_is(e, "abs(x[j] - round(x[j])) > eps"), M.expr("x[j] < -eps or abs(x[j] - round(x[j])) > eps"))


def _v_integral_cutoff(tree):
    g = M.find_func(tree, "solve_milp")
    M.replace_stmt(g, lambda s: isinstance(s, ast.While) and M.src_has(s.test, "nodes_explored < max_nodes"), lambda s: M.stmts("integral_obj = all(float(cj).is_integer() for cj in c)\ncutoff = 1.0 - eps if integral_obj else eps") + [s])
    M.replace_expr(g, lambda e: M.src_is(e, "sign * best_obj - eps"), M.expr("sign * best_obj - cutoff"), count=2)


def _t_reformat(tree):
    pass


def _t_rename(tree):
    f = M.find_func(tree, "solve_milp")
    M.rename_local(f, "node_bound", "nb")
    M.rename_local(f, "child_bound", "cb")


def _t_flag_status(tree):
    f = M.find_func(tree, "solve_milp")
    M.replace_expr(f, lambda e: isinstance(e, ast.IfExp) and M.src_has(e.test, "not tree") and M.src_is(e.body, "Status.OPTIMAL"), M.expr("Status.FEASIBLE if tree or lp_budget_hit else Status.OPTIMAL"))


def _v_skip_zero_rows(tree):
    g = M.find_func(tree, "_solve_node")
    M.replace_stmt(g, lambda s: M.src_has(s, "A_red.append([row[j] for j in free_vars])") and isinstance(s, ast.Expr), M.stmts("if not any((abs(row[j]) > eps for j in free_vars)):\n    continue\nA_red.append([row[j] for j in free_vars])"))


def _v_root_budget_unchecked(tree):
    g = M.find_func(tree, "solve_milp")
    M.replace_stmt(g, lambda s: isinstance(s, ast.If) and M.src_is(s.test, "root_result.status == LPStatus.MAX_ITER"), [])


def _v_node_budget_dropped(tree):
    g = M.find_func(tree, "solve_milp")
    M.replace_stmt(g, lambda s: isinstance(s, ast.If) and M.src_is(s.test, "result.status == LPStatus.MAX_ITER"), [])


def _v_gap_exit_ignores_flag(tree):
    g = M.find_func(tree, "solve_milp")
    M.replace_expr(g, lambda e: M.src_is(e, "gap < gap_tol and solution_limit == 1 and (not lp_budget_hit)"), M.expr("gap < gap_tol and solution_limit == 1"))


def _v_detect_binary_integer_columns_only(tree):
    g = M.find_func(tree, "_detect_binary")
    if not M.replace_expr(g, lambda e: isinstance(e, ast.ListComp) and M.src_has(e, "abs(row[j]) > eps"), M.expr("[(j, row[j]) for j in int_set if abs(row[j]) > eps]")):
        raise M.Skip("non-zero scan not found")


def _v_duplicate_rows_dropped_by_lhs(tree):
    g = M.find_func(tree, "solve_milp")
    k = [i for i, st in enumerate(g.body) if isinstance(st, ast.Assign) and M.src_is(st.targets[0], "int_set")]
    if not k:
        raise M.Skip("int_set assignment not found")
    g.body[k[0]:k[0]] = M.stmts("unique_rows = {}\nfor row, rhs in zip(A, b):\n    unique_rows.setdefault(tuple(row), rhs)\nif len(unique_rows) < len(b):\n    A = [list(row) for row in unique_rows]\n    b = list(unique_rows.values())")


def _v_lns_repair_memo(tree):
    g = M.find_func(tree, "_lns_improve.repair")
    M.insert(g, "candidate = _solve_sub_mip", "if frozenset(unfixed) in repaired:\n    return tuple(repaired[frozenset(unfixed)].get(j, sol[j]) for j in range(n))")
    outer = M.find_func(tree, "_lns_improve")
    M.insert(outer, "def repair", "repaired = {}")


def _v_detect_binary_packing_rows(tree):
    g = M.find_func(tree, "_detect_binary")
    node = [x for x in ast.walk(g) if isinstance(x, ast.If) and M.src_is(x.test, "len(nz) == 1")]
    if not node:
        raise M.Skip("single-entry branch not found")
    node[0].orelse = M.stmts("if all(j in int_set for j, _ in nz):\n    for j, coef in nz:\n        if coef >= 1.0 - eps:\n            bounded.add(j)")


def _v_phase1_infeasible_before_budget(tree):
    g = M.find_func(tree, "_phase1")
    k = [i for i, st in enumerate(g.body) if isinstance(st, ast.If) and M.src_is(st.test, "status == Status.MAX_ITER")]
    if not k or not isinstance(g.body[k[0] + 1], ast.If):
        raise M.Skip("phase-1 status tests not found")
    g.body[k[0]], g.body[k[0] + 1] = g.body[k[0] + 1], g.body[k[0]]


def _v_eps_forwarded_to_lp(tree):
    g = M.find_func(tree, "_solve_node")
    M.replace_expr(g, lambda e: isinstance(e, ast.Call) and M.src_has(e.func, "solve_lp"), M.expr("solve_lp(c_red, A_red, b_red, minimize=minimize, eps=eps, max_iter=max_iter)"))


def _hoist_swap_lists(tree, zeros_update):
    g = M.find_func(tree, "_round_binary")
    M.replace_stmt(g, lambda s: M.src_is(s, "zeros = [j for j in int_set if sol[j] < 0.5]"), [])
    M.replace_stmt(g, lambda s: M.src_is(s, "ones = [j for j in int_set if sol[j] > 0.5]"), [])
    whiles = [n for n in ast.walk(g) if isinstance(n, ast.While)]
    last = whiles[-1] if whiles[-1].lineno > whiles[0].lineno else whiles[0]
    last = max(whiles, key=lambda w: w.lineno)
    body = g.body
    k = body.index(last)
    body[k - 1 : k - 1] = M.stmts("zeros = [j for j in int_set if sol[j] < 0.5]\nones = [j for j in int_set if sol[j] > 0.5]")
    M.replace_stmt(g, lambda s: isinstance(s, ast.Assign) and M.src_is(s, "improved = True") and any(isinstance(p, ast.If) and M.src_is(p.test, "best_swap") and s in p.body for p in ast.walk(g)), M.stmts(f"ones[ones.index(j_off)] = j_on\n{zeros_update}\nimproved = True"))


def _v_swap_lists_missed_update(tree):
    _hoist_swap_lists(tree, "zeros.append(j_off)")


def _t_swap_lists_kept_in_step(tree):
    _hoist_swap_lists(tree, "zeros[zeros.index(j_on)] = j_off")


def _v_sub_mip_stores_lp_point(tree):
    g = M.find_func(tree, "_solve_sub_mip")
    M.replace_stmt(g, lambda s: M.src_is(s, "best_sol = tuple(rounded)"), M.stmts("best_sol = tuple(sol)"))


def _v_gap_floored(tree):
    g = M.find_func(tree, "_compute_gap")
    M.replace_expr(g, lambda e: M.src_is(e, "abs(best_obj - bound) / abs(best_obj)"), M.expr("abs(best_obj - bound) // abs(best_obj)"))


VARIANTS = [
    M.Variant("the sub-MIP certifies the rounded point and stores the LP point next to it (seed C04-Y)", ML, _v_sub_mip_stores_lp_point, "C04-O3"),
    M.Variant("the relative gap is a floored quotient: every gap below 100% reads as 0 (seed C04-Z)", ML, _v_gap_floored, "C04-O1"),
    M.Variant("swap candidate lists kept by hand, the new one never leaves `zeros` (seed C04-X)", ML, _v_swap_lists_missed_update, "C04-O3"),
    M.Variant("twin: swap candidate lists kept in step by hand (both lists lose one index and gain the other)", ML, _t_swap_lists_kept_in_step, None),
    M.Variant("solve_milp hands its eps = 1e-6 to the simplex (original defect, ledger row 69)", ML, _v_eps_forwarded_to_lp, "C04-O12"),
    M.Variant("simplex phase 1 tests the residual infeasibility before the budget exit: a node LP that ran out of pivots is pruned as INFEASIBLE (seed C04-U)", "solvor/simplex.py", _v_phase1_infeasible_before_budget, "C04-O12"),
    M.Variant("LNS repair splices a remembered sub-MIP answer into the current solution (seed C04-S)", ML, _v_lns_repair_memo, "C04-O3"),
    M.Variant("_detect_binary reads set-packing rows as bounds on each member (seed C04-T)", ML, _v_detect_binary_packing_rows, "C04-O6"),
    M.Variant("rows with equal left-hand sides collapsed to the first one, whatever their right-hand sides (seed C04-O)", ML, _v_duplicate_rows_dropped_by_lhs, "C04-G15"),

    M.Variant("a root LP that ran out of iterations is used like an optimal one (original defect)", ML, _v_root_budget_unchecked, "C04-O4"),
    M.Variant("a node LP that ran out of iterations is dropped without a trace (original defect)", ML, _v_node_budget_dropped, "C04-O"),
    M.Variant("the gap-based OPTIMAL ignores unresolved node LPs", ML, _v_gap_exit_ignores_flag, "C04-O4"),
    M.Variant("_detect_binary scans the integer columns only: x - 2y <= 1 counts as x <= 1 (seed C04-L)", ML, _v_detect_binary_integer_columns_only, "C04-O6"),
    M.Variant("node LP skips rows without free variables (seed C04-B)", ML, _v_skip_zero_rows, "C04-O8"),

    M.Variant("INFEASIBLE on node-budget exit (original defect)", ML, _v_budget_infeasible, "C04-O4"),
    M.Variant("prune compares internal bound with user-sense incumbent", ML, _v_prune_wrong_sign, "C04-O1"),
    M.Variant("leaf improvement test in user units without minimize guard", ML, _v_leaf_compare_user_units, "C04-O1"),
    M.Variant("child heap key in user units", ML, _v_heap_key_user_units, "C04-O1"),
    M.Variant("right child not pushed", ML, _v_drop_child, "C04-O5"),
    M.Variant("right child lower bound = floor", ML, _v_child_wrong_bound, "C04-O5"),
    M.Variant("warm start accepted without feasibility check", ML, _v_warm_unchecked, "C04-O3"),
    M.Variant("binary tightening without explicit rows", ML, _v_tighten_unjustified, "C04-O6"),
    M.Variant("LNS result overwrites incumbent unconditionally", ML, _v_incumbent_unconditional, "C04-O2"),
    M.Variant("incumbent solution updated without its objective", ML, _v_stale_objective, "C04-O7"),
    M.Variant("OPTIMAL regardless of open nodes", ML, _v_optimal_after_budget, "C04-O4"),
    M.Variant("rounding heuristic returns unchecked vector", ML, _v_round_no_gate, "C04-O3"),
    M.Variant("_is_feasible tests the sign of integer variables only (seed C04-E)", ML, _v_sign_test_integers_only, "C04-O9"),
    M.Variant("nodes pruned with slack 1 - eps when all costs are integers (seed C04-F)", ML, _v_integral_cutoff, "C04-O10"),
    M.Variant("right child caps instead of raising the branching variable", ML, _v_right_child_keeps_lower, "C04-O11"),
    M.Variant("node budget tested after the pop: the last live node is dropped (seed C04-G)", ML, _v_budget_break_after_pop, "C04-O4"),
    M.Variant("binary box put on every variable, continuous ones included (seed C04-J)", ML, _v_box_on_all_variables, "C04-O6"),
    M.Variant("twin: reformat", ML, _t_reformat, None),
    M.Variant("twin: rename bound locals", ML, _t_rename, None),
    M.Variant("twin: status conditional written the other way", ML, _t_flag_status, None),
]
