"""C01 - SAT models are models (structural necessary conditions in solvor/sat.py)."""

from __future__ import annotations

import ast

from sa.facts import assignments_to
from sa.guards import names_in
from sa.index import own_nodes
from sa.report import Ctx

from .common import generic_sweeps

from .sat_common import SatRoles, _enclosing_block, check_add_sites, check_binary_add, check_binary_clear, check_assumption_assertion, check_analysis, check_assign, check_backtrack, check_bcp, check_input_copy, check_main_loop, check_heap_flags, check_trail_ownership, check_variable_ranges, check_variable_universe

EXPLANATION = (
    "Decides structural necessary conditions of 'every returned assignment satisfies every clause / agrees with "
    "assumptions / models pairwise distinct' on solvor/sat.py: (O1/O3) every clause add site (ingest, learned, "
    "blocking, reduce_db rebuild) registers every length class with the structure propagate() reads, under the "
    "clause's own index; (O2) abstract interpretation of the backtrack routine over symbolic stack depths: the "
    "boundary list ends at depth `level` and the trail is cut at the start of level+1, so level<=`level` facts "
    "(unit clauses, learned units, assumptions) survive; (O4) each recorded model is followed on every continuing "
    "path by a blocking clause over exactly the assigned variables, registered, and blocking clauses are exempt "
    "from clause-database reduction; (O5) every un-assignment re-inserts the variable in the decision heap and a "
    "model is recorded only when the heap has no unassigned variable. NOT decided: completeness of two-watched-"
    "literal propagation and soundness of learned clauses for all formulas (semantic)."
)


def run(ctx: Ctx):
    roles = SatRoles(ctx)
    f = roles.f
    ctx.step(check_add_sites, roles, "C01-O3")
    ctx.step(check_binary_add, "C01-O3")
    ctx.step(check_binary_clear, "C01-O11")
    ctx.step(check_backtrack, roles, "C01-O2")
    ctx.step(check_blocking, roles)
    ctx.step(check_unassign_heap, roles)
    ctx.step(check_model_record, roles)
    ctx.step(check_assumption_assertion, roles, "C01-O6")
    ctx.step(check_heap_flags, "C01-O7")
    ctx.step(check_variable_ranges, "C01-O7")
    ctx.step(check_trail_ownership, "C01-O7")
    ctx.step(check_variable_universe, "C01-O8")
    ctx.step(check_assign, "C01-O9")
    ctx.step(check_bcp, "C01-O10")
    ctx.step(check_analysis, "C01-O11")
    ctx.step(check_main_loop, "C01-O12")
    ctx.step(check_input_copy, "C01-O13")
    generic_sweeps(ctx, skip_stutter_modules=("solvor/sat.py",))


def check_blocking(ctx: Ctx, roles: SatRoles):
    f, cfg = roles.f, roles.cfg
    # model record site: <solutions>.append(sol) inside main loop
    rec = None
    for n in own_nodes(f.node):
        if isinstance(n, ast.Call) and isinstance(n.func, ast.Attribute) and n.func.attr == "append" and isinstance(n.func.value, ast.Name) and n.func.value.id == "all_solutions":
            rec = n
    ctx.require(rec is not None, "model record site `all_solutions.append(..)` not found")
    rn = cfg.stmt_node_containing(rec)
    head = roles.main
    # every path rec -> loop head must pass: learned.append(B) with B = blocking comprehension, backtrack call, propagate call
    blocking_append = None
    for n in own_nodes(f.node):
        if isinstance(n, ast.Call) and isinstance(n.func, ast.Attribute) and n.func.attr == "append" and isinstance(n.func.value, ast.Name) and n.func.value.id == roles.learned and isinstance(n.args[0], ast.Name):
            vals = [v for v in assignments_to(f.node, n.args[0].id) if isinstance(v, ast.ListComp)]
            if vals:
                blocking_append, blocking_comp, blocking_name = n, vals[0], n.args[0].id
    ctx.require(blocking_append is not None, "blocking clause construction (list comprehension appended to the clause database) not found")
    ban = cfg.stmt_node_containing(blocking_append)

    def must_pass(target_node, what):
        # head reachable from rn while avoiding target_node?
        reach = cfg.forward(rn, avoid={target_node.id})
        ok = head.id not in reach
        ctx.ob("C01-O4", "R16 PAIRED-EFFECTS", f, f"model-record -> loop back-edge passes {what}", ok, "a continuing path after recording a model skips it: the same model can be found again" if not ok else "", node=target_node.ast)

    must_pass(ban, "blocking-clause append")
    bt_calls = [cfg.stmt_node_containing(n) for n in own_nodes(f.node) if isinstance(n, ast.Call) and isinstance(n.func, ast.Name) and n.func.id == roles.backtrack.name]
    after = [n for n in bt_calls if n is not None and n.id in cfg.forward(ban) and n.loop is roles.main and cfg.dominates(ban, n)]
    ctx.ob("C01-O4", "R16 PAIRED-EFFECTS", f, "blocking-clause append is followed by a backtrack before the next decision", bool(after), "", node=blocking_append)
    # comprehension shape: one literal per assigned variable, negated: elt is IfExp(-v if vals[v]==1 else v), range over all variables, filter `vals[v] != UNDEF` (optionally also level > 0)
    comp = blocking_comp
    gen = comp.generators[0]
    rng_all = isinstance(gen.iter, ast.Call) and ast.unparse(gen.iter) == "range(1, n_vars + 1)"
    v = gen.target.id if isinstance(gen.target, ast.Name) else "?"
    elt = comp.elt
    neg_ok = False
    if isinstance(elt, ast.IfExp):
        t, b, o = ast.unparse(elt.test), ast.unparse(elt.body), ast.unparse(elt.orelse)
        neg_ok = (t == f"vals[{v}] == 1" and b == f"-{v}" and o == v) or (t == f"vals[{v}] == 0" and b == v and o == f"-{v}") or (t == f"vals[{v}] != 1" and b == v and o == f"-{v}")
    ctx.ob("C01-O4", "R16 PAIRED-EFFECTS", f, "blocking clause = negation of the current value of each listed variable", neg_ok, f"element `{ast.unparse(elt)}`", node=comp)
    filt = [ast.unparse(i) for i in gen.ifs]
    # variables may be left out only if they are fixed for the rest of the search (decision level 0)
    allowed_extra = all(("levels[" in x and ("> 0" in x or "!= 0" in x or ">= 1" in x)) or x in (f"vals[{v}] != UNDEF", f"UNDEF != vals[{v}]") for x in filt)
    ctx.ob("C01-O4", "R16 PAIRED-EFFECTS", f, "blocking clause ranges over every variable assigned above level 0", rng_all and allowed_extra, f"range `{ast.unparse(gen.iter)}`, filters {filt}", node=comp)
    # same variables as the recorded model: sol comprehension filter is `vals[v] != UNDEF`
    # retention: reduce_db must keep blocking clauses
    check_retention(ctx, roles, blocking_append, blocking_name)


def check_retention(ctx: Ctx, roles: SatRoles, blocking_append: ast.Call, bname: str):
    """Blocking clauses are not implied by the formula: dropping one lets a reported model reappear."""
    f, g = roles.f, roles.reduce_db
    blk = _enclosing_block(f.node, roles.cfg.stmt_node_containing(blocking_append).ast)
    # score stored beside the blocking clause
    score = None
    score_list = None
    for s in blk:
        for n in ast.walk(s):
            if isinstance(n, ast.Call) and isinstance(n.func, ast.Attribute) and n.func.attr == "append" and isinstance(n.func.value, ast.Name) and n.func.value.id != roles.learned and n is not blocking_append and n.func.value.id not in ("all_solutions",):
                if n.func.value.id in {x.id for x in ast.walk(g.node) if isinstance(x, ast.Name)}:
                    score_list, score = n.func.value.id, n.args[0]
    # keep conditions in reduce_db: tests guarding `keep.append(clause)`
    keep_tests = []
    for n in own_nodes(g.node):
        if isinstance(n, ast.If):
            if any(isinstance(c, ast.Call) and isinstance(c.func, ast.Attribute) and c.func.attr == "append" for s in n.body for c in ast.walk(s)):
                keep_tests.append(n.test)
    filters_learned = any(isinstance(n, ast.Assign) and any(isinstance(t, (ast.Name, ast.Tuple)) and roles.learned in names_in(t) for t in n.targets) for n in own_nodes(g.node))
    if not filters_learned:
        ctx.ob("C01-O4", "R16 retention", g, "clause-database reduction keeps blocking clauses", True, "reduction does not rebind the clause database", node=g.node)
        return
    exempt = False
    why = "no keep-condition disjunct is satisfied by the score stored with a blocking clause"
    for t in keep_tests:
        disj = t.values if isinstance(t, ast.BoolOp) and isinstance(t.op, ast.Or) else [t]
        for d in disj:
            # `<scores>[..] <= K` / `< K` / `== c` with the blocking score a constant satisfying it
            if isinstance(d, ast.Compare) and len(d.ops) == 1 and isinstance(d.comparators[0], ast.Constant) and score_list and score_list in names_in(d.left) and isinstance(score, ast.Constant):
                K, c = d.comparators[0].value, score.value
                op = type(d.ops[0])
                if (op is ast.LtE and c <= K) or (op is ast.Lt and c < K) or (op is ast.Eq and c == K):
                    exempt, why = True, f"blocking score {c} satisfies keep condition `{ast.unparse(d)}`"
            # explicit flag container: `<name>[..]` where <name> is appended True beside the blocking clause
            if isinstance(d, (ast.Subscript, ast.Compare)):
                for nm in names_in(d):
                    if nm not in (score_list, roles.learned) and any(isinstance(n, ast.Call) and isinstance(n.func, ast.Attribute) and n.func.attr in ("append", "add") and isinstance(n.func.value, ast.Name) and n.func.value.id == nm for s in blk for n in ast.walk(s)):
                        exempt, why = True, f"keep condition consults `{nm}`, which the blocking site updates"
    ctx.ob("C01-O4", "R16 retention", g, "clause-database reduction keeps blocking clauses", exempt, why + (f" (stored score: `{ast.unparse(score)}`)" if score is not None else ""), node=g.node)


def check_unassign_heap(ctx: Ctx, roles: SatRoles):
    """Every `vals[x] = UNDEF` is paired in its block with a guarded heap re-insertion of x."""
    n_sites = 0
    for g in [roles.f] + list(roles.f.children.values()):
        for n in own_nodes(g.node):
            if isinstance(n, ast.Assign) and isinstance(n.targets[0], ast.Subscript) and ast.unparse(n.targets[0].value) == "vals" and isinstance(n.value, ast.Name) and n.value.id == "UNDEF":
                n_sites += 1
                var = ast.unparse(n.targets[0].slice)
                blk = _enclosing_block(g.node, n)
                txt = [ast.unparse(s) for s in blk[blk.index(n) + 1 :]]
                ok = any(f"heappush(var_heap, (-activity[{var}], {var}))" in t and f"in_heap[{var}] = True" in t for t in txt)
                ctx.ob("C01-O5", "R16 PAIRED-EFFECTS", g, "unassign -> variable re-enters the decision heap", ok, "an unassigned variable missing from the heap is never decided: the returned model is partial", node=n)
    ctx.floor("unassign sites", n_sites, 1)


def check_model_record(ctx: Ctx, roles: SatRoles):
    """A model is recorded only under `pick_var() == 0`, and pick_var returns 0 only when the heap is exhausted."""
    f, cfg = roles.f, roles.cfg
    pick = f.children.get("pick_var")
    ctx.require(pick is not None, "pick_var vanished")
    ctx.touch(pick)
    rets = [n for n in own_nodes(pick.node) if isinstance(n, ast.Return)]
    zero_rets = [r for r in rets if isinstance(r.value, ast.Constant) and r.value.value == 0]
    pcfg = __import__("sa.cfg", fromlist=["cfg_of"]).cfg_of(pick.node)
    ok = bool(zero_rets)
    for r in zero_rets:
        rn = pcfg.node_of(r)
        # must not be inside the loop: only reachable when `while var_heap` is exhausted
        ok = ok and rn.loop is None
    ctx.ob("C01-O5", "R1 STATUS-GUARD", pick, "pick returns 'no variable' only after the heap is exhausted", ok, "", node=pick.node)
    var_rets = [r for r in rets if isinstance(r.value, ast.Name)]
    g_ok = bool(var_rets)
    from sa.guards import GuardView

    gv = GuardView(pcfg)
    for r in var_rets:
        at = gv.guard_atoms(pcfg.node_of(r))
        g_ok = g_ok and any("UNDEF ==" in a or "== UNDEF" in a for a in at)
    ctx.ob("C01-O5", "R1 STATUS-GUARD", pick, "pick returns only unassigned variables", g_ok, "", node=pick.node)
    # sol comprehension covers all variables
    # the model dict is the comprehension whose value is recorded in `all_solutions`
    rec_names = {ast.unparse(n.args[0]) for n in own_nodes(f.node) if isinstance(n, ast.Call) and isinstance(n.func, ast.Attribute) and n.func.attr == "append" and ast.unparse(n.func.value) == "all_solutions"}
    sols = [n.value for n in own_nodes(f.node) if isinstance(n, ast.Assign) and isinstance(n.value, ast.DictComp) and ast.unparse(n.targets[0]) in rec_names]
    ctx.require(bool(sols), "model dict comprehension (recorded in all_solutions) not found")
    for d in sols:
        g = d.generators[0]
        ok = ast.unparse(g.iter) == "range(1, n_vars + 1)" and ast.unparse(d.value) in (f"vals[{g.target.id}] == 1",) and ast.unparse(d.key) == g.target.id
        ctx.ob("C01-O5", "R5 PAIRING", f, "model dict maps every assigned variable to its current value", ok, ast.unparse(d)[:80], node=d)
        sn = cfg.stmt_node_containing(d)
        at = roles.gv.guard_atoms(sn)
        ctx.ob("C01-O5", "R1 STATUS-GUARD", f, "model recorded only when no unassigned variable is left", any(a in ("0 == var", "var == 0") for a in at), f"guards: {sorted(at)}", node=d)


# ---------------------------------------------------------------------------------------------
# rule self-test variants (computed from today's tree; see sa/mutate.py)
# ---------------------------------------------------------------------------------------------
from sa import mutate as M  # noqa: E402

SAT = "solvor/sat.py"


def _v_backtrack_reads_after_shrink(tree):
    g = M.find_func(tree, "solve_sat.unassign_to")
    body = [s for s in g.body if isinstance(s, ast.Nonlocal)]
    body += M.stmts("while len(trail_lim) > level:\n    trail_lim.pop()\ntarget = trail_lim[-1] if trail_lim else 0")
    keep = [s for s in g.body if isinstance(s, ast.While) and "len(trail)" in ast.unparse(s.test)]
    tail = [s for s in g.body if isinstance(s, ast.Assign) and M.src_has(s, "prop_head")]
    if not keep:
        raise M.Skip("trail cut loop not found")
    g.body = body + keep + tail


def _v_backtrack_cut_prev_level(tree):
    g = M.find_func(tree, "solve_sat.unassign_to")
    M.replace_expr(g, lambda e: M.src_is(e, "trail_lim[level]"), M.expr("trail_lim[level - 1]"))


def _v_blocking_score(tree):
    f = M.find_func(tree, "solve_sat")
    M.replace_stmt(f, lambda s: M.src_is(s, "lbd_scores.append(0)"), M.stmts("lbd_scores.append(n_vars)"))


def _v_watch_positions(tree):
    f = M.find_func(tree, "solve_sat")
    M.replace_expr(f, lambda e: M.src_is(e, "add_watch(learned_clause[1], clause_idx)"), M.expr("add_watch(learned_clause[2], clause_idx)"))


def _v_index_after_append(tree):
    f = M.find_func(tree, "solve_sat")
    blk = None
    for n in ast.walk(f):
        b = getattr(n, "body", None)
        if isinstance(b, list) and any(M.src_is(s, "learned.append(learned_clause)") for s in b):
            blk = b
    if blk is None:
        raise M.Skip("learned append not found")
    i = next(k for k, s in enumerate(blk) if M.src_is(s, "clause_idx = len(clauses) + len(learned)"))
    j = next(k for k, s in enumerate(blk) if M.src_is(s, "learned.append(learned_clause)"))
    blk[i], blk[j] = blk[j], blk[i]


def _v_blocking_skipped(tree):
    f = M.find_func(tree, "solve_sat")
    M.replace_stmt(f, lambda s: M.src_is(s, "learned.append(blocking)"), M.stmts("if len(blocking) > 2:\n    learned.append(blocking)"))


def _v_blocking_partial(tree):
    f = M.find_func(tree, "solve_sat")
    M.replace_expr(f, lambda e: isinstance(e, ast.Call) and M.src_is(e, "range(1, n_vars + 1)") , M.expr("range(1, n_vars)"), count=99)


def _v_no_heap_reinsert(tree):
    g = M.find_func(tree, "solve_sat.unassign_to")
    M.replace_stmt(g, lambda s: isinstance(s, ast.If) and M.src_has(s.test, "in_heap"), [])


def _v_rebuild_index(tree):
    g = M.find_func(tree, "solve_sat.reduce_db")
    M.replace_stmt(g, lambda s: M.src_is(s, "idx = len(clauses) + i"), M.stmts("idx = i"))


def _v_head_reset_to_trail_end(tree):
    g = M.find_func(tree, "solve_sat.unassign_to")
    M.replace_expr(g, lambda e: M.src_is(e, "min(prop_head, len(trail))"), M.expr("len(trail)"))
    ret = [s for s in g.body if isinstance(s, ast.If) and any(isinstance(x, ast.Return) for x in s.body)]
    if not ret:
        raise M.Skip("early return not found")
    i = g.body.index(ret[0])
    rest = g.body[i + 1 : -1]
    g.body = g.body[:i] + [ast.If(test=M.expr("len(trail_lim) > level"), body=rest, orelse=[])] + [g.body[-1]]


def _t_unassign_single_exit(tree):
    """equally valid: single-exit form that keeps the min"""
    g = M.find_func(tree, "solve_sat.unassign_to")
    ret = [s for s in g.body if isinstance(s, ast.If) and any(isinstance(x, ast.Return) for x in s.body)]
    if not ret:
        raise M.Skip("early return not found")
    i = g.body.index(ret[0])
    g.body = g.body[:i] + [ast.If(test=M.expr("len(trail_lim) > level"), body=g.body[i + 1 :], orelse=[])]


def _v_universe_from_clauses_only(tree):
    g = M.find_func(tree, "solve_sat")
    M.replace_stmt(g, lambda s: isinstance(s, ast.For) and M.src_is(s.iter, "assumptions") and M.src_has(s, "n_vars = max(n_vars"), [])


def _v_assign_level_of_previous(tree):
    g = M.find_func(tree, "solve_sat.assign")
    M.replace_expr(g, lambda e: M.src_is(e, "len(trail_lim)"), M.expr("len(trail_lim) - 1"))


def _v_bcp_unit_without_search(tree):
    g = M.find_func(tree, "solve_sat.propagate")
    M.replace_stmt(g, lambda s: isinstance(s, ast.If) and M.src_is(s.test, "found"), [])


def _v_analysis_keeps_true_literal(tree):
    g = M.find_func(tree, "solve_sat.analyze.add_lit")
    M.replace_expr(g, lambda e: isinstance(e, ast.IfExp) and M.src_has(e, "lit_neg(lit)"), M.expr("lit"))


def _v_no_backjump(tree):
    g = M.find_func(tree, "solve_sat")
    M.replace_stmt(g, lambda s: isinstance(s, ast.Expr) and M.src_is(s.value, "unassign_to(bt_level)"), [])


def _v_heap_rebuilt_on_rescale(tree):
    g = M.find_func(tree, "solve_sat.decay_activity")
    g.body = g.body + M.stmts("if activity_inc > 1e100:\n    for v in range(1, n_vars + 1):\n        activity[v] *= 1e-100\n    activity_inc *= 1e-100\n    var_heap[:] = [(-activity[v], v) for v in range(1, n_vars + 1) if vals[v] == UNDEF]\n    heapify(var_heap)")


def _v_assumptions_after_queue(tree):
    g = M.find_func(tree, "solve_sat.propagate")
    blk = [s for s in g.body if isinstance(s, ast.If) and M.src_has(s.test, "len(trail_lim) == 0")]
    if not blk:
        raise M.Skip("assumption block not found")
    g.body.remove(blk[0])
    g.body.insert(len(g.body) - 1, blk[0])


def _v_no_clauses_ignores_assumptions(tree):
    g = M.find_func(tree, "solve_sat")
    M.replace_expr(g, lambda e: M.src_is(e, "not clauses and (not assumptions)"), M.expr("not clauses"))


def _v_flag_kept_on_skip(tree):
    g = M.find_func(tree, "solve_sat.pick_var")
    M.replace_stmt(g, lambda s: M.src_is(s, "in_heap[var] = False"), [])
    M.replace_stmt(g, lambda s: isinstance(s, ast.Return) and M.src_is(s.value, "var"), lambda s: M.stmts("in_heap[var] = False") + [s])


def _t_reformat(tree):
    pass


def _t_rename(tree):
    g = M.find_func(tree, "solve_sat.unassign_to")
    M.rename_local(g, "target", "cut_at")
    M.rename_local(g, "level", "lvl")


def _t_pop_form(tree):
    """an equally correct backtrack: pop boundaries one by one, cutting the trail at each popped mark"""
    g = M.find_func(tree, "solve_sat.unassign_to")
    M.replace_stmt(g, lambda s: isinstance(s, ast.If) and M.src_has(s.test, "len(trail_lim) <= level"), [])
    M.replace_stmt(g, lambda s: M.src_is(s, "target = trail_lim[level]"), M.stmts("target = len(trail)\nwhile len(trail_lim) > level:\n    target = trail_lim.pop()"))
    M.replace_stmt(g, lambda s: isinstance(s, ast.Delete), [])


def _v_assumptions_collapsed(tree):
    g = M.find_func(tree, "solve_sat.propagate")
    M.replace_stmt(g, lambda s: isinstance(s, ast.For) and M.src_is(s.iter, "assumptions"), M.stmts("for var, want in {lit_var(lit): lit > 0 for lit in assumptions}.items():\n    v = vals[var]\n    if v == UNDEF:\n        assign(var, want, -1)\n    elif (v == 1) != want:\n        conflicts += 1\n        return -2"))


def _v_empty_universe_before_assumptions(tree):
    g = M.find_func(tree, "solve_sat")
    i_if = [i for i, st_ in enumerate(g.body) if isinstance(st_, ast.If) and M.src_is(st_.test, "n_vars == 0")]
    i_as = [i for i, st_ in enumerate(g.body) if isinstance(st_, ast.For) and M.src_is(st_.iter, "assumptions") and M.src_has(st_, "n_vars")]
    if not i_if or not i_as or i_if[0] < i_as[0]:
        raise M.Skip("variable-count prologue not found")
    st_ = g.body.pop(i_if[0])
    g.body.insert(i_as[0], st_)


def _v_binary_add_skips_same_variable(tree):
    g = M.find_func(tree, "BinaryImplications.add")
    g.body.insert(0, M.stmts("if lit_var(lit_a) == lit_var(lit_b):\n    return")[0])


def _t_binary_add_skips_tautology(tree):
    g = M.find_func(tree, "BinaryImplications.add")
    g.body.insert(0, M.stmts("if lit_a == -lit_b:\n    return")[0])


def _v_clear_learned_by_literal(tree):
    g = M.find_func(tree, "BinaryImplications.clear_learned")
    g.body = M.stmts("for lst in (*self.pos, *self.neg):\n    lst[:] = [entry for entry in lst if entry[0] < original_count]")


def _v_heap_without_last_variable(tree):
    g = M.find_func(tree, "solve_sat")
    M.replace_expr(g, lambda e: M.src_is(e, "[(-activity[v], v) for v in range(1, n_vars + 1)]"), M.expr("[(-activity[v], v) for v in range(1, n_vars)]"))


def _v_pointer_skips_the_prologue(tree):
    g = M.find_func(tree, "solve_sat")
    M.insert(g, "prop_head = 0", "for lit in assumptions:\n    if vals[lit_var(lit)] == UNDEF:\n        vals[lit_var(lit)] = 1 if lit > 0 else 0\n        trail.append(lit_var(lit))\nprop_head = len(trail)", after=True)


VARIANTS = [
    M.Variant("assumptions are put on the trail by hand and the propagation pointer is set past them (seed C01-AB)", "solvor/sat.py", _v_pointer_skips_the_prologue, "C01-O7"),
    M.Variant("the decision heap starts without the highest-numbered variable (seed C01-Y)", "solvor/sat.py", _v_heap_without_last_variable, "C01-O7"),
    M.Variant("clear_learned filters the entries by their literal instead of their clause index (seed C01-U)", SAT, _v_clear_learned_by_literal, "C01-O11"),
    M.Variant("BinaryImplications.add drops every pair over one variable, [x, x] included (seed C01-O)", SAT, _v_binary_add_skips_same_variable, "C01-O3"),
    M.Variant("twin: BinaryImplications.add drops the tautology (x, -x) only", SAT, _t_binary_add_skips_tautology, None),
    M.Variant("the empty-universe shortcut is taken before the assumed variables are counted (seed C01-M)", SAT, _v_empty_universe_before_assumptions, "C01-O8"),
    M.Variant("assumption list collapsed per variable before assertion (seed C01-B)", SAT, _v_assumptions_collapsed, "C01-O6"),

    M.Variant("backtrack reads the boundary after shrinking (original defect)", SAT, _v_backtrack_reads_after_shrink, "C01-O2"),
    M.Variant("backtrack cuts at trail_lim[level-1]", SAT, _v_backtrack_cut_prev_level, "C01-O2"),
    M.Variant("blocking clause stored with deletable score (original defect)", SAT, _v_blocking_score, "C01-O4"),
    M.Variant("learned clause watched on positions 0 and 2", SAT, _v_watch_positions, "C01-O3"),
    M.Variant("clause index taken after the append", SAT, _v_index_after_append, "C01-O3"),
    M.Variant("short blocking clauses not added", SAT, _v_blocking_skipped, "C01-O4"),
    M.Variant("blocking clause / model skip the last variable", SAT, _v_blocking_partial, "C01-O4"),
    M.Variant("unassigned variable not re-inserted in the heap", SAT, _v_no_heap_reinsert, "C01-O5"),
    M.Variant("reduce_db rebuild registers clauses under their list position", SAT, _v_rebuild_index, "C01-O3"),
    M.Variant("pick_var clears the in-heap flag only for the variable it returns (seed C01-D)", SAT, _v_flag_kept_on_skip, "C01-O7"),
    M.Variant("unassign_to sets the propagation head to the trail end on every call (seed C01-E)", SAT, _v_head_reset_to_trail_end, "C01-O7"),
    M.Variant("twin: unassign_to in single-exit form", SAT, _t_unassign_single_exit, None),
    M.Variant("variable count taken from the clauses only (original defect)", SAT, _v_universe_from_clauses_only, "C01-O8"),
    M.Variant("assign records the previous decision level", SAT, _v_assign_level_of_previous, "C01-O9"),
    M.Variant("propagation treats a clause as unit although a replacement watch was found", SAT, _v_bcp_unit_without_search, "C01-O10"),
    M.Variant("conflict analysis puts true literals into the learned clause", SAT, _v_analysis_keeps_true_literal, "C01-O11"),
    M.Variant("driver records the backjump level without undoing the trail", SAT, _v_no_backjump, "C01-O12"),
    M.Variant("activity rescale rebuilds the heap from the unassigned variables (seed C01-G)", SAT, _v_heap_rebuilt_on_rescale, "C01-O7"),
    M.Variant("assumptions asserted after the propagation queue was processed (seed C01-H)", SAT, _v_assumptions_after_queue, "C01-O10"),
    M.Variant("the no-clauses shortcut ignores the assumptions (original defect)", SAT, _v_no_clauses_ignores_assumptions, "C01-O12"),
    M.Variant("twin: reformat only", SAT, _t_reformat, None),
    M.Variant("twin: rename locals of the backtrack routine", SAT, _t_rename, None),
    M.Variant("twin: backtrack written as pop-and-cut loop", SAT, _t_pop_form, None),
]
