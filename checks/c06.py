"""C06 - CP->SAT encoding has exactly the CP models (structural part): cp_encoder.py."""

from __future__ import annotations

import ast
import os

from sa.cfg import cfg_of
from sa.guards import GuardView, names_in
from sa.index import AnalysisError, Func, Module, own_nodes
from sa.report import Ctx

from .common import generic_sweeps

from .sat_common import check_binary_add, check_input_copy
from .cp_common import check_alldiff_coverage, check_constraint_table, check_small_semantics, check_cumulative_horizon, check_id_allocation, check_solve_is_read_only, check_domain_fields_fixed, check_report_filter, check_unsat_sites, flattener_tags, produced_tags, shape_dispatch_falls_through, structural_len_subjects

EXPLANATION = (
    "Decides structural necessary conditions of 'the CNF has exactly the CP models' on cp_encoder.py: (O1) the "
    "exactly-one pass covers every model variable over its whole range and runs before any constraint is encoded and "
    "before the solver call; (O2) grounding of auxiliary integer variables - every auxiliary variable gets an "
    "exactly-one constraint (at creation or at the site), and no clause-generation loop ranges over one variable's "
    "bounds while indexing another variable's literals with the loop value; (O3) no emission is skipped under a guard "
    "that compares the size of a collection with a literal (cardinality cut-off) - only emptiness, domain-membership "
    "and arithmetic guards may skip; (O4) no structural shape dispatch of linear constraints falls through silently "
    "and the encoder's linearisation consumes (or loudly rejects) every expression tag; (O5) decoding reads, for each "
    "named variable, only that variable's own literals and returns a value of its domain. (O7) each boolean-id counter is written only by its initialisation and its allocator, auxiliary variables draw their literals from the encoder's allocator, and the encoder stores nothing in the model. (O8) in the scheduling encoders an additive term never mixes the start of one task with the duration of another. (O9) partial-sum domains are clamped against the target only by what the remaining variables can contribute, and sum_le / sum_ge are mirror images. (O10) cumulative emits its capacity clauses for every instant up to and including the latest possible start. (O11) circuit excludes every value outside the node indices. (O12) producer/consumer agreement of constraint and expression tuples, position by position. (O13) the unit-sized encoders agree with their definition clause by clause. NOT decided: clause-level "
    "correctness of each pairwise / partial-sum / MTZ / time-indexed encoding."
)

ENCMOD = "cp_encoder"


def emission_calls(node: ast.AST):
    """calls that emit clauses: self._clauses.append(..) or self._encode_*(..)"""
    for n in ast.walk(node):
        if isinstance(n, ast.Call) and isinstance(n.func, ast.Attribute):
            if n.func.attr == "append" and ast.unparse(n.func.value) == "self._clauses":
                yield n
            elif n.func.attr.startswith("_encode_") and ast.unparse(n.func.value) == "self":
                yield n


def cardinality_cutoffs(f: Func):
    """R12: `if len(X) <op> <literal>:` with no else, whose body contains an emission and whose false branch reaches
    the loop back-edge / function end without passing any emission on the same collection."""
    out = []
    cfg = cfg_of(f.node)
    for n in own_nodes(f.node):
        if not isinstance(n, ast.If) or n.orelse:
            continue
        # atomic comparisons of the test: conjuncts of `and`, links of a chained comparison
        atoms_ = []
        for t in (n.test.values if isinstance(n.test, ast.BoolOp) and isinstance(n.test.op, ast.And) else [n.test]):
            if isinstance(t, ast.Compare):
                left = t.left
                for o, c in zip(t.ops, t.comparators):
                    atoms_.append((left, o, c))
                    left = c
        hit = None
        for l, o, r in atoms_:
            if not isinstance(o, (ast.Lt, ast.LtE, ast.Gt, ast.GtE)):
                continue
            lens = [x for x in (l, r) if isinstance(x, ast.Call) and isinstance(x.func, ast.Name) and x.func.id == "len"]
            consts = [x for x in (l, r) if isinstance(x, ast.Constant) and isinstance(x.value, int)]
            if len(lens) == 1 and len(consts) == 1 and consts[0].value > 1:
                hit = (lens, consts)  # `len(x) > 1` / `> 0` are emptiness/triviality tests: below two literals there is nothing to say
        if hit is None:
            continue
        lens, consts = hit
        t = n.test
        body_emits = any(True for s in n.body for _ in emission_calls(s))
        if not body_emits:
            continue
        # false branch: does it reach an emission over the same collection before leaving the iteration?
        tn = cfg.stmt_node_containing(t)
        fb = [cfg.nodes[i] for i in cfg.succ[tn.id] if cfg.nodes[i].kind == "branch" and cfg.nodes[i].pol is False]
        subject = ast.unparse(lens[0].args[0])
        alt = False
        if fb:
            stop = {tn.loop.id} if tn.loop is not None else set()
            for i in cfg.forward(fb[0], avoid=stop):
                m = cfg.nodes[i]
                if m.ast is not None and m.kind == "stmt" and subject in ast.unparse(m.ast) and any(True for _ in emission_calls(m.ast)):
                    alt = True
        if not alt:
            out.append((n, subject, consts[0].value))
    return out


def aux_sites(f: Func):
    """(variable name or list name, call node, is_list) for results of self._create_int_var(..) in f"""
    out = []
    for n in own_nodes(f.node):
        if isinstance(n, ast.Assign) and isinstance(n.targets[0], ast.Name):
            v = n.value
            if isinstance(v, ast.Call) and isinstance(v.func, ast.Attribute) and v.func.attr == "_create_int_var":
                out.append((n.targets[0].id, v, False))
            elif isinstance(v, ast.ListComp) and isinstance(v.elt, ast.Call) and isinstance(v.elt.func, ast.Attribute) and v.elt.func.attr == "_create_int_var":
                out.append((n.targets[0].id, v.elt, True))
    return out


def _defined_positively(f: Func, name: str) -> bool:
    """the auxiliary variable's literals occur positively in a clause of two or more literals (a defining
    implication `inputs -> aux = value`): such a variable is forced to its value and needs no separate grounding"""
    for n in ast.walk(f.node):
        if isinstance(n, ast.Call) and isinstance(n.func, ast.Attribute) and n.func.attr == "append" and ast.unparse(n.func.value) == "self._clauses" and n.args and isinstance(n.args[0], ast.List) and len(n.args[0].elts) >= 2:
            for lit in n.args[0].elts:
                if isinstance(lit, ast.UnaryOp):
                    continue
                if isinstance(lit, ast.Subscript) and isinstance(lit.value, ast.Attribute) and lit.value.attr == "bool_vars" and name in names_in(lit.value):
                    return True
    return False


def domain_mismatch_loops(f: Func):
    """`for v in range(A.lb, A.ub + 1)` whose body indexes `B.bool_vars[v]` for a different variable B."""
    out = []
    for n in own_nodes(f.node):
        if isinstance(n, ast.For) and isinstance(n.target, ast.Name) and isinstance(n.iter, ast.Call) and isinstance(n.iter.func, ast.Name) and n.iter.func.id == "range" and len(n.iter.args) == 2:
            lo, hi = n.iter.args
            if isinstance(lo, ast.Attribute) and lo.attr == "lb":
                owner = ast.unparse(lo.value)
                v = n.target.id
                for x in ast.walk(n):
                    if isinstance(x, ast.Subscript) and isinstance(x.value, ast.Attribute) and x.value.attr == "bool_vars" and isinstance(x.slice, ast.Name) and x.slice.id == v:
                        other = ast.unparse(x.value.value)
                        if other != owner:
                            out.append((n, owner, other))
    return out


TASK_ARRAYS = {"starts", "durations", "demands"}


def _task_tags(e: ast.AST) -> set[str]:
    """which task the operands of one additive term speak about: the index of a task-array subscript, or the numeric
    suffix of a start/duration scalar (start1, dur1, s1 ...)"""
    import re

    tags = set()
    stack = [e]
    while stack:
        n = stack.pop()
        if isinstance(n, ast.Compare):
            continue  # each side of a comparison is a term of its own
        if isinstance(n, ast.Subscript) and isinstance(n.value, ast.Name) and n.value.id in TASK_ARRAYS:
            tags.add(ast.unparse(n.slice))
            continue
        if isinstance(n, ast.Name):
            m = re.fullmatch(r"(start|dur|s|end|d)(\d)", n.id)
            if m:
                tags.add("#" + m.group(2))
        stack.extend(ast.iter_child_nodes(n))
    return tags


def check_same_task(ctx: Ctx, oid: str):
    """end of task k = start_k + duration_k: an additive term never mixes two tasks"""
    n_terms = n_groups = 0
    for q in ("SATEncoder._encode_no_overlap", "SATEncoder._encode_disjunctive_le", "SATEncoder._encode_cumulative"):
        f = ctx.func(ENCMOD, q)
        tops = []
        for n in ast.walk(f.node):
            if isinstance(n, ast.BinOp) and isinstance(n.op, (ast.Add, ast.Sub)):
                tops.append(n)
        inner = {id(c) for t in tops for c in ast.walk(t) if c is not t and isinstance(c, ast.BinOp)}
        for t in tops:
            if id(t) in inner:
                continue
            tags = _task_tags(t)
            if not tags:
                continue
            n_terms += 1
            ctx.ob(oid, "R34 SAME-TASK", f, f"`{ast.unparse(t)[:50]}` combines start and duration of one task", len(tags) == 1, f"mixes tasks {sorted(tags)}: the end of a task is its own start plus its own duration", node=t)
        for c in ast.walk(f.node):
            if isinstance(c, ast.Call):
                g = ctx.repo.resolve_call(f, c)
                if g is None or g.qualname != "SATEncoder._encode_disjunctive_le":
                    continue
                import re

                params = [a.arg for a in g.node.args.args if a.arg != "self"]
                groups = {}
                for pn, a in zip(params, c.args):
                    m = re.search(r"(\d)$", pn)
                    if m:
                        groups.setdefault(m.group(1), set()).update(_task_tags(a))
                for k_, tg in sorted(groups.items()):
                    n_groups += 1
                    ctx.ob(oid, "R34 SAME-TASK", f, f"task #{k_} of the pairwise constraint receives start and duration of one task", len(tg) == 1, f"{sorted(tg)}", node=c)
    ctx.floor("additive task terms in the scheduling encoders", n_terms, 3)
    ctx.floor("task argument groups of _encode_disjunctive_le", n_groups, 2)


def check_partial_sum_domains(ctx: Ctx, oid: str):
    """A partial-sum variable may be clamped against the target only by what the remaining variables can still
    contribute: upper clamp `target - sum(lb of the rest)`, lower clamp `target - sum(ub of the rest)`.  A clamp that
    ignores the rest cuts off valid assignments as soon as the rest can be negative (resp. positive)."""
    n = 0
    for q, side in (("SATEncoder._encode_sum_le", "le"), ("SATEncoder._encode_sum_ge", "ge"), ("SATEncoder._encode_sum_eq", "eq")):
        if not ctx.repo.has_func(ENCMOD, q):
            continue
        f = ctx.func(ENCMOD, q)
        defs = {ast.unparse(d.targets[0]): d.value for d in own_nodes(f.node) if isinstance(d, ast.Assign) and len(d.targets) == 1}
        for c in own_nodes(f.node):
            if not (isinstance(c, ast.Call) and isinstance(c.func, ast.Attribute) and c.func.attr == "_create_int_var" and len(c.args) == 2):
                continue
            for pos, bound in enumerate(c.args):
                if "target" not in {x.id for x in ast.walk(bound) if isinstance(x, ast.Name)}:
                    continue
                n += 1
                # every occurrence of `target` inside the bound is `target - R`, R = sum of the opposite bounds of the rest
                ok, why = True, ""
                for x in ast.walk(bound):
                    if isinstance(x, ast.Name) and x.id == "target":
                        par = [p_ for p_ in ast.walk(bound) if isinstance(p_, ast.BinOp) and isinstance(p_.op, ast.Sub) and p_.left is x]
                        if not par or not isinstance(par[0].right, ast.Name):
                            ok, why = False, "`target` is used without subtracting what the remaining variables contribute"
                            continue
                        r = defs.get(par[0].right.id)
                        want = "lb" if pos == 1 else "ub"  # upper clamp needs the rest's minimum, lower clamp its maximum
                        good = r is not None and isinstance(r, ast.Call) and ast.unparse(r.func) == "sum" and ast.unparse(r.args[0]) in (f"(v.{want} for v in variables[2:])",)
                        if not good:
                            ok, why = False, f"`{par[0].right.id}` is not the sum of `.{want}` over the remaining variables"
                wrap = ast.unparse(bound.func) if isinstance(bound, ast.Call) else ""
                if ok and wrap != ("min" if pos == 1 else "max"):
                    ok, why = False, f"the clamp must tighten the natural bound with `{'min' if pos == 1 else 'max'}`"
                ctx.ob(oid, "R18 SIBLING-AGREEMENT (expression)", f, f"{'upper' if pos == 1 else 'lower'} clamp of the partial-sum domain accounts for the remaining variables", ok, f"`{ast.unparse(bound)}`: {why}" if why else "", node=c)
    ctx.floor("partial-sum domain clamps", n, 2)
    # the two one-sided encoders are mirror images of each other
    le, ge = ctx.func(ENCMOD, "SATEncoder._encode_sum_le"), ctx.func(ENCMOD, "SATEncoder._encode_sum_ge")

    def clamp(f, pos):
        for c in own_nodes(f.node):
            if isinstance(c, ast.Call) and isinstance(c.func, ast.Attribute) and c.func.attr == "_create_int_var" and len(c.args) == 2:
                return ast.unparse(c.args[pos]), ast.unparse(c.args[1 - pos])
        return None, None

    a_le, b_le = clamp(le, 1)
    a_ge, b_ge = clamp(ge, 0)

    def mirror(t):
        if t is None:
            return None
        for a, b in ((".ub", "\0U"), (".lb", ".ub"), ("\0U", ".lb"), ("min(", "\0M"), ("max(", "min("), ("\0M", "max("), ("rest_min", "\0R"), ("rest_max", "rest_min"), ("\0R", "rest_max")):
            t = t.replace(a, b)
        return t

    ctx.ob(oid, "R18 SIBLING-AGREEMENT (expression)", le, "sum_le and sum_ge build their partial-sum domains as mirror images (min/max, lb/ub, rest_min/rest_max swapped)", a_le is not None and mirror(a_le) == a_ge and mirror(b_le) == b_ge, f"sum_le ({b_le}, {a_le}) / sum_ge ({a_ge}, {b_ge})", node=le.node)


def check_circuit_universe(ctx: Ctx, oid: str):
    """circuit speaks about node indices 0..n-1 only: every other value of a successor variable's declared domain must be
    excluded explicitly (all the other clauses of the encoding range over `j in range(n)` and leave such values free)"""
    f = ctx.func(ENCMOD, "SATEncoder._encode_circuit")
    cfg = cfg_of(f.node)
    gv = GuardView(cfg)
    ok = False
    for n in own_nodes(f.node):
        if isinstance(n, ast.Call) and ast.unparse(n.func) == "self._clauses.append" and isinstance(n.args[0], ast.List) and len(n.args[0].elts) == 1 and isinstance(n.args[0].elts[0], ast.UnaryOp):
            nn = cfg.stmt_node_containing(n)
            at = gv.guard_atoms(nn, stable_only=False)
            lp = nn.loop
            over_all_values = lp is not None and lp.kind == "for" and ast.unparse(lp.ast.iter).endswith(".bool_vars.items()") or (lp is not None and lp.kind == "for" and ".bool_vars" in ast.unparse(lp.ast.iter))
            outside = any(a.startswith("OR(") and "val" in a and (" < 0" in a or "0 > " in a) and ("n <= val" in a or "val >= n" in a) for a in at)
            if over_all_values and outside:
                ok = True
    ctx.ob(oid, "R11 TOTAL-DISPATCH", f, "values of a successor variable outside 0..n-1 are excluded by unit clauses over the variable's whole declared domain", ok, "every other clause of the circuit encoding ranges over node indices; a value beyond them is left unconstrained and is returned as a 'successor'", node=f.node)


def run(ctx: Ctx):
    m = ctx.repo.module(ENCMOD)
    solve = ctx.func(ENCMOD, "SATEncoder.solve")
    ev = ctx.func(ENCMOD, "SATEncoder._encode_vars")
    civ = ctx.func(ENCMOD, "SATEncoder._create_int_var")
    ex1 = ctx.func(ENCMOD, "SATEncoder._encode_exactly_one")

    # O1 exactly-one pass
    cfg = cfg_of(solve.node)
    calls = {}
    for n in own_nodes(solve.node):
        if isinstance(n, ast.Call):
            nm = n.func.attr if isinstance(n.func, ast.Attribute) else (n.func.id if isinstance(n.func, ast.Name) else "")
            calls.setdefault(nm, []).append(cfg.stmt_node_containing(n))
    ctx.require("_encode_vars" in calls and "solve_sat" in calls and "_encode_constraint" in calls, "encoder solve(): _encode_vars / _encode_constraint / solve_sat calls not found")
    ev_n = calls["_encode_vars"][0]
    ctx.ob("C06-O1", "R16 ordering", solve, "exactly-one pass dominates every solver call", all(cfg.dominates(ev_n, s) for s in calls["solve_sat"]), "", node=solve.node)
    ctx.ob("C06-O1", "R16 ordering", solve, "exactly-one pass dominates constraint encoding", all(cfg.dominates(ev_n, s) for s in calls["_encode_constraint"]), "", node=solve.node)
    loops = [n for n in own_nodes(ev.node) if isinstance(n, ast.For)]
    ok = bool(loops) and ast.unparse(loops[0].iter) == "self.model._vars.values()"
    v = loops[0].target.id if loops else "var"
    txt = ast.unparse(ev.node)
    ok = ok and f"range({v}.lb, {v}.ub + 1)" in txt and "self._encode_exactly_one(" in txt
    ctx.ob("C06-O1", "R16 ordering", ev, "exactly-one over the full declared range of every model variable", ok, "", node=ev.node)
    t1 = ast.unparse(ex1.node)
    ctx.ob("C06-O1", "R16 ordering", ex1, "exactly-one = at-least-one clause + pairwise exclusions", "self._clauses.append(lits)" in t1 and "combinations(lits, 2)" in t1 and "[-a, -b]" in t1, "", node=ex1.node)
    # constraint loop covers all constraints
    cl = [n for n in own_nodes(solve.node) if isinstance(n, ast.For) and "_encode_constraint" in ast.unparse(n)]
    uncond = False
    if cl:
        calls_ = [x for x in cl[0].body if isinstance(x, ast.Expr) and isinstance(x.value, ast.Call) and ast.unparse(x.value.func) == "self._encode_constraint" and [ast.unparse(a_) for a_ in x.value.args] == [ast.unparse(cl[0].target)]]
        skips_ = [x for x in ast.walk(cl[0]) if isinstance(x, (ast.Continue, ast.Break))]
        uncond = len(calls_) == 1 and not skips_
    ctx.ob("C06-O1", "R16 ordering", solve, "every added constraint is encoded: the loop over the model's constraints hands each one to the dispatcher, unconditionally", bool(cl) and ast.unparse(cl[0].iter) == "self.model._constraints" and uncond, "a constraint that is skipped (a duplicate test on tuples compares IntVars with `==`, which builds a constraint and is always true) is missing from the CNF: models that violate it are decoded", node=cl[0] if cl else solve.node)

    # O2 aux grounding
    civ_txt = ast.unparse(civ.node)
    grounded_at_creation = "self._encode_exactly_one(" in civ_txt and "bool_vars" in civ_txt
    n_aux = 0
    for q in sorted(m.funcs):
        f = m.funcs[q]
        if f.parent is not None or not q.startswith("SATEncoder._encode"):
            continue
        for name, call, is_list in aux_sites(f):
            n_aux += 1
            ctx.touch(f)
            defined = _defined_positively(f, name)
            site_grounds = defined or any(isinstance(c, ast.Call) and isinstance(c.func, ast.Attribute) and c.func.attr == "_encode_exactly_one" and name in names_in(c) for c in ast.walk(f.node))
            ctx.ob("C06-O2", "R13 POLARITY-GROUNDING", f, f"auxiliary variable `{name}` gets an exactly-one constraint", grounded_at_creation or site_grounds, "an auxiliary integer variable without at-least-one clause may take no value: clauses that only forbid combinations with its literals then forbid nothing", node=call)
        for loop, owner, other in domain_mismatch_loops(f):
            ctx.ob("C06-O2", "R13 POLARITY-GROUNDING", f, f"clause loop over `{owner}`'s range indexes `{other}`'s literals with the loop value", False, f"values of `{other}` outside `{owner}`'s range get no clause", node=loop)
        ctx.ob("C06-O2", "R13 POLARITY-GROUNDING", f, "no clause loop indexes one variable's literals with another variable's range", not domain_mismatch_loops(f), "", node=f.node)
    ctx.floor("auxiliary-variable creation sites", n_aux, 4)

    # O3 cardinality cut-offs
    n_enc = 0
    for q in sorted(m.funcs):
        f = m.funcs[q]
        if f.parent is not None or not q.startswith("SATEncoder._encode"):
            continue
        n_enc += 1
        cuts = cardinality_cutoffs(f)
        for node, subject, k in cuts:
            ctx.ob("C06-O3", "R12 NO-CARDINALITY-CUTOFF", f, f"emission guarded by size of `{subject}` against literal {k}", False, "beyond that size no clause is emitted: the constraint is silently dropped for large inputs", node=node)
        ctx.ob("C06-O3", "R12 NO-CARDINALITY-CUTOFF", f, "no emission is skipped by a collection-size cut-off", not cuts, "", node=f.node)
    ctx.floor("_encode_* functions", n_enc, 13)

    ctx.step(check_alldiff_coverage, "C06-O6")
    ctx.step(check_id_allocation, "C06-O7")
    # the encoding of a model is a function of its variables and constraints: nothing a solve (or the flattener the
    # encoder shares with the DFS back-end) leaves on the model may feed the next encoding
    ctx.step(check_solve_is_read_only, "C06-O7")
    ctx.step(check_domain_fields_fixed, "C06-O7")
    ctx.step(check_same_task, "C06-O8")
    ctx.step(check_partial_sum_domains, "C06-O9")
    ctx.step(check_circuit_universe, "C06-O11")
    ctx.step(check_constraint_table, "C06-O12")
    ctx.step(check_small_semantics, "C06-O13", encoder=True, dfs=False)
    ctx.step(check_unsat_sites, "C06-O13")
    # the encoder emits two-literal clauses with a repeated literal ([-b, -b] for x != x): the SAT back-end files them
    ctx.step(check_binary_add, "C06-O13")
    ctx.step(check_input_copy, "C06-O13")  # the encoder emits clauses with a repeated literal ([-a, -a] for x != x, for a variable listed twice): none may be filtered away
    ctx.step(check_cumulative_horizon, "C06-O10")

    # O4 dispatch totality / expression tags
    ctags, etags = produced_tags(ctx)
    ne = ctx.func(ENCMOD, "SATEncoder._encode_ne_expr")
    subj = structural_len_subjects(ne)
    n_arms, falls = shape_dispatch_falls_through(ne, subj) if subj else (0, False)
    ctx.ob("C06-O4", "R11 TOTAL-DISPATCH", ne, "linear-shape dispatch is total", not falls, f"{n_arms} structural shape tests", node=ne.node)
    fl = ctx.func(ENCMOD, "SATEncoder._flatten_sum")
    tags, raises = flattener_tags(fl, ctx.repo)
    for tag in sorted(etags):
        ctx.ob("C06-O4", "R10 TAG-EXHAUSTIVE", fl, f"tag:{tag}->encoder linearisation", tag in tags or raises, f"consumed {sorted(tags)}, raises on unknown: {raises}", node=fl.node)
    # ne_expr: empty clause when the constant constraint is false; unit/negated unit on the final partial sum
    t = ast.unparse(ne.node)
    ctx.ob("C06-O4", "R11 TOTAL-DISPATCH", ne, "constant constraint that is false emits the empty clause", "self._clauses.append([])" in t, "", node=ne.node)
    # the partial-sum chain starts from {k * v: literal}: injective only for k != 0, so zero coefficients must be
    # dropped AFTER both sides were merged (a variable that cancels across the sides has coefficient 0 only then)
    ncfg = cfg_of(ne.node)
    terms = [n for n in own_nodes(ne.node) if isinstance(n, ast.Assign) and ast.unparse(n.targets[0]) == "terms"]
    merge = [n for n in own_nodes(ne.node) if isinstance(n, ast.For) and "right_coefs" in ast.unparse(n.iter)]
    ok = len(terms) == 1 and len(merge) == 1
    if ok:
        comp = terms[0].value
        ok = isinstance(comp, ast.ListComp) and any(ast.unparse(i) in ("k != 0", "0 != k") for g in comp.generators for i in g.ifs) and "coefs.items()" in ast.unparse(comp.generators[0].iter)
        mnode = ncfg.stmt_node_containing(merge[0].iter)
        ok = ok and ncfg.dominates(mnode, ncfg.node_of(terms[0]))
    ctx.ob("C06-O4", "R11 TOTAL-DISPATCH", ne, "zero-coefficient variables are dropped from the chain after both sides are merged", ok, "a variable with coefficient 0 as first term collapses the reachable-sum table to a single literal", node=terms[0] if terms else ne.node)
    ctx.step(_fixture)

    # O5 decode
    dec = ctx.func(ENCMOD, "SATEncoder.solve.decode_sat_solution")
    td = ast.unparse(dec.node)
    ok = "for name, var in self.model._vars.items()" in td and "for val, bool_var in var.bool_vars.items()" in td and "cp_sol[name] = val" in td
    ctx.ob("C06-O5", "R18 table", dec, "decode iterates every model variable and reads only that variable's own literals", ok, "", node=dec.node)
    ctx.step(check_report_filter, "C06-O5")
    # all decoded solutions go through decode
    for n in own_nodes(solve.node):
        if isinstance(n, ast.Call) and isinstance(n.func, ast.Name) and n.func.id == "Result":
            sol = n.args[0]
            if isinstance(sol, ast.Constant) and sol.value is None:
                continue
            defs = [ast.unparse(d.value) for d in own_nodes(solve.node) if isinstance(d, ast.Assign) and isinstance(d.targets[0], ast.Name) and isinstance(sol, ast.Name) and d.targets[0].id == sol.id]
            ctx.ob("C06-O5", "R18 table", solve, "published solution is a decoded SAT model", bool(defs) and all(d.startswith("decode_sat_solution(") for d in defs), f"{defs}", node=n)
    generic_sweeps(ctx)


def _fixture(ctx: Ctx):
    path = os.path.join(os.path.dirname(os.path.dirname(os.path.abspath(__file__))), "fixtures", "cp_shapes.py")
    src = open(path, encoding="utf-8").read()
    tree = ast.parse(src)
    m = Module("fixture", "fixtures/cp_shapes.py", path, src, tree)
    cls = tree.body[0]
    funcs = {n.name: Func(m, f"Fixture.{n.name}", n, None, "Fixture") for n in cls.body if isinstance(n, ast.FunctionDef)}
    c = cardinality_cutoffs(funcs["cutoff"])
    d = domain_mismatch_loops(funcs["ungrounded"])
    a = aux_sites(funcs["ungrounded"])
    if not (len(c) == 1 and len(d) == 1 and len(a) == 1):
        raise AnalysisError(f"{ctx.prop}: positive fixture no longer matched by R12/R13 (cutoffs={len(c)}, mismatches={len(d)}, aux={len(a)})")
    ctx.count("fixture matches (R12/R13)", 3)


# ---------------------------------------------------------------------------------------------
from sa import mutate as M  # noqa: E402

ENC = "solvor/cp_encoder.py"


def _v_cutoff(tree):
    g = M.find_func(tree, "SATEncoder._encode_cumulative")
    M.replace_stmt(g, lambda s: M.src_is(s, "self._encode_capacity_constraint(active_lits, active_demands, capacity)"), M.stmts("if len(active_lits) <= 10:\n    self._encode_capacity_constraint(active_lits, active_demands, capacity)"))


def _v_alldiff_cutoff(tree):
    g = M.find_func(tree, "SATEncoder._encode_all_different")
    M.replace_expr(g, lambda e: M.src_is(e, "len(lits) > 1"), M.expr("1 < len(lits) < 8") )


def _v_alldiff_cutoff2(tree):
    g = M.find_func(tree, "SATEncoder._encode_all_different")
    M.replace_expr(g, lambda e: M.src_is(e, "len(lits) > 1"), M.expr("len(lits) > 2"))


def _v_aux_not_grounded(tree):
    g = M.find_func(tree, "SATEncoder._create_int_var")
    M.replace_stmt(g, lambda s: M.src_has(s, "self._encode_exactly_one("), [])


def _v_wrong_domain_loop(tree):
    g = M.find_func(tree, "SATEncoder._encode_circuit")
    M.replace_stmt(g, lambda s: isinstance(s, ast.For) and M.src_is(s.iter, "t[i].bool_vars"), lambda s: [ast.For(target=s.target, iter=M.expr("range(var.lb, var.ub + 1)"), body=M.stmts("if ti not in t[i].bool_vars:\n    continue") + s.body, orelse=[])])


def _v_vars_after_solver(tree):
    g = M.find_func(tree, "SATEncoder.solve")
    M.replace_stmt(g, lambda s: M.src_is(s, "self._encode_vars()"), [])


def _v_decode_other_var(tree):
    g = M.find_func(tree, "SATEncoder.solve.decode_sat_solution")
    M.replace_stmt(g, lambda s: isinstance(s, ast.If) and M.src_has(s.test, "_unnamed"), M.stmts("if name in self.model._unnamed or name.startswith('x'):\n    continue"))


def _v_shape_again(tree):
    g = M.find_func(tree, "SATEncoder._encode_ne_expr")
    g.body = M.stmts(
        "left_terms, left_const = self._flatten_sum(left)\nright_terms, right_const = self._flatten_sum(right)\n"
        "if len(left_terms) == 1 and len(right_terms) == 0:\n    self._clauses.append([1])\n    return\n"
        "if len(left_terms) == 1 and len(right_terms) == 1:\n    self._clauses.append([])"
    )


_CAP = """fit, load = 0, 0
for d in sorted(demands%s):
    if load + d > capacity:
        break
    load += d
    fit += 1
"""


def _cap_subsets(tree, order):
    g = M.find_func(tree, "SATEncoder._encode_capacity_constraint")
    loops = [i for i, st_ in enumerate(g.body) if isinstance(st_, ast.For) and M.src_is(st_.target, "size")]
    if not loops:
        raise M.Skip("size loop not found")
    g.body[loops[0]].iter = M.expr("range(1, min(n, fit + 1) + 1)")
    g.body[loops[0]:loops[0]] = M.stmts(_CAP % order)


def _v_cap_from_heaviest(tree):
    _cap_subsets(tree, ", reverse=True")


def _t_cap_from_lightest(tree):
    _cap_subsets(tree, "")


def _v_running_literal_cached(tree):
    g = M.find_func(tree, "SATEncoder._encode_cumulative")
    loops = [n for n in ast.walk(g) if isinstance(n, ast.For) and M.src_is(n.target, "t")]
    if not loops:
        raise M.Skip("time loop not found")
    idx = g.body.index(loops[0])
    g.body.insert(idx, M.stmts("cache = {}")[0])
    if not M.replace_stmt(g, lambda s: isinstance(s, ast.If) and M.src_is(s.test, "len(lits) == 1"), M.stmts("key = (i, lits[0])\nif len(lits) == 1:\n    running = lits[0]\nelif key in cache:\n    running = cache[key]\nelse:\n    running = cache[key] = self._new_bool_var()\n    for lit in lits:\n        self._clauses.append([-lit, running])")):
        raise M.Skip("running definition not found")


def _v_flatten_memo_on_model(tree):
    g = M.find_func(tree, "Model._flatten_sum")
    M.replace_stmt(g, lambda s: isinstance(s, ast.Return) and M.src_has(s, "coefs"), lambda s: M.stmts("self._flat_cache = {id(expr): (coefs, const)}") + [s], count=1)


def _v_resync_counter(tree):
    g = M.find_func(tree, "SATEncoder._create_int_var")
    M.replace_stmt(g, lambda s: isinstance(s, ast.Assign) and M.src_has(s.value, "IntVar(self, lb, ub, name)"), M.stmts("var = IntVar(self.model, lb, ub, name)\nself._next_bool = self.model._next_bool"))


def _v_aux_registered(tree):
    g = M.find_func(tree, "SATEncoder._create_int_var")
    M.replace_stmt(g, lambda s: isinstance(s, ast.Return), lambda s: M.stmts("self.model._vars[name] = var") + [s])


def _v_skip_pairs_wrong_duration(tree):
    g = M.find_func(tree, "SATEncoder._encode_no_overlap")
    M.replace_stmt(g, lambda s: isinstance(s, ast.Expr) and M.src_has(s.value, "_encode_disjunctive_le"), lambda s: M.stmts("if starts[i].ub + durations[i] <= starts[j].lb or starts[j].ub + durations[i] <= starts[i].lb:\n    continue") + [s])


def _v_disjunctive_wrong_duration(tree):
    g = M.find_func(tree, "SATEncoder._encode_disjunctive_le")
    M.replace_expr(g, lambda e: M.src_is(e, "s2 + dur2 <= s1"), M.expr("s2 + dur1 <= s1"))


def _v_sum_le_clamp_ignores_rest(tree):
    g = M.find_func(tree, "SATEncoder._encode_sum_le")
    M.replace_expr(g, lambda e: M.src_is(e, "target - rest_min"), M.expr("target"))


def _v_cumulative_last_start_unchecked(tree):
    g = M.find_func(tree, "SATEncoder._encode_cumulative")
    M.replace_expr(g, lambda e: M.src_is(e, "max((s.ub + d for s, d in zip(starts, durations)))"), M.expr("max((s.ub for s in starts))"))


def _t_cumulative_start_instants(tree):
    """equally valid: scan up to and including the latest start"""
    g = M.find_func(tree, "SATEncoder._encode_cumulative")
    M.replace_expr(g, lambda e: M.src_is(e, "max((s.ub + d for s, d in zip(starts, durations)))"), M.expr("max((s.ub for s in starts))"))
    M.replace_expr(g, lambda e: M.src_is(e, "range(min_start, max_end)"), M.expr("range(min_start, max_end + 1)"))


def _v_circuit_values_unbounded(tree):
    g = M.find_func(tree, "SATEncoder._encode_circuit")
    M.replace_stmt(g, lambda s: isinstance(s, ast.For) and M.src_has(s, "val < 0 or val >= n"), [])


def _v_cumulative_args_swapped(tree):
    g = M.find_func(tree, "Model.cumulative")
    M.replace_expr(g, lambda e: isinstance(e, ast.Tuple) and M.src_has(e, "'cumulative'"), M.expr("('cumulative', tuple(starts), tuple(demands), tuple(durations), capacity)"))


def _v_rsub_as_sub(tree):
    g = M.find_func(tree, "IntVar.__rsub__")
    M.replace_expr(g, lambda e: isinstance(e, ast.Tuple) and M.src_has(e, "'rsub'"), M.expr("('sub', self, other)"))


def _v_dispatcher_drops_ne_var(tree):
    g = M.find_func(tree, "SATEncoder._encode_constraint")
    M.replace_expr(g, lambda e: isinstance(e, ast.Compare) and M.src_is(e, "kind == 'ne_var'"), M.expr("kind == 'ne_var_'"))


def _v_capacity_sizes_off_by_one(tree):
    g = M.find_func(tree, "SATEncoder._encode_capacity_constraint")
    M.replace_expr(g, lambda e: M.src_is(e, "range(1, n + 1)"), M.expr("range(1, n)"))


def _v_sum_eq_two_vars_forbids_nothing(tree):
    g = M.find_func(tree, "SATEncoder._encode_sum_eq")
    M.replace_expr(g, lambda e: M.src_is(e, "val2 < v2.lb or val2 > v2.ub"), M.expr("val2 < v2.lb and val2 > v2.ub"))


def _v_eq_var_one_direction(tree):
    g = M.find_func(tree, "SATEncoder._encode_eq_var")
    M.replace_stmt(g, lambda s: isinstance(s, ast.Expr) and M.src_is(s.value, "self._clauses.append([var1.bool_vars[val], -var2.bool_vars[val]])"), [])


def _v_ne_const_positive(tree):
    g = M.find_func(tree, "SATEncoder._encode_ne_const")
    M.replace_expr(g, lambda e: M.src_is(e, "[-var.bool_vars[val]]"), M.expr("[var.bool_vars[val]]"))


def _t_reformat(tree):
    pass


def _v_zero_filter_early(tree):
    g = M.find_func(tree, "SATEncoder._encode_ne_expr")
    M.replace_expr(g, lambda e: isinstance(e, ast.ListComp) and M.src_has(e, "self.model._vars[name]"), lambda e: M.expr("[(self.model._vars[name], k) for name, k in coefs.items()]"))


def _t_alldiff_hull(tree):
    g = M.find_func(tree, "SATEncoder._encode_all_different")
    g.body = M.stmts("lo = min((v.lb for v in variables))\nhi = max((v.ub for v in variables))\nfor val in range(lo, hi + 1):\n    lits = []\n    for var in variables:\n        if val in var.bool_vars:\n            lits.append(var.bool_vars[val])\n    if len(lits) > 1:\n        self._encode_at_most_one(lits)")


def _v_constraint_loop_skips_repeats(tree):
    g = M.find_func(tree, "SATEncoder.solve")
    for n in ast.walk(g):
        if isinstance(n, ast.For) and M.src_is(n.iter, "self.model._constraints"):
            n.body[0:0] = M.stmts("if constraint in encoded:\n    continue\nencoded.append(constraint)")
            k = g.body.index(n)
            g.body.insert(k, M.stmts("encoded = []")[0])
            return
    raise M.Skip("constraint loop not found")


def _v_cumulative_overload_shortcut(tree):
    g = M.find_func(tree, "SATEncoder._encode_cumulative")
    M.insert(g, "min_start = ", "if max(demands) > capacity:\n    self._clauses.append([])\n    return")


def _v_decode_filter_by_spelling(tree):
    g = M.find_func(tree, "SATEncoder.solve.decode_sat_solution")
    M.replace_expr(g, lambda e: M.src_is(e, "name in self.model._unnamed"), M.expr("name.startswith('_')"))


VARIANTS = [
    M.Variant("the SAT decoder drops every name that starts with an underscore, the caller's own included (original defect, ledger row 80)", ENC, _v_decode_filter_by_spelling, "C06-O5"),
    M.Variant("cumulative declares the model infeasible when one demand exceeds the capacity, also for a task that never runs (seed C06-T)", ENC, _v_cumulative_overload_shortcut, "C06-O13"),
    M.Variant("the encoder skips a constraint that compares equal to an earlier one (seed C06-Q)", ENC, _v_constraint_loop_skips_repeats, "C06-O1"),
    M.Variant("zero-coefficient terms kept in the partial-sum chain (seed C06-B)", ENC, _v_zero_filter_early, "C06-O4"),
    M.Variant("twin: all_different over the hull min(lb)..max(ub)", ENC, _t_alldiff_hull, None),

    M.Variant("cumulative skips time points with more than 10 literals (original defect)", ENC, _v_cutoff, "C06-O3"),
    M.Variant("all_different skips values shared by 8 or more variables", ENC, _v_alldiff_cutoff, "C06-O3"),
    M.Variant("all_different needs more than two candidates", ENC, _v_alldiff_cutoff2, "C06-O3"),
    M.Variant("auxiliary variables not grounded (original defect, part 1)", ENC, _v_aux_not_grounded, "C06-O2"),
    M.Variant("circuit ordering loop ranges over the successor domain (original defect, part 2)", ENC, _v_wrong_domain_loop, "C06-O2"),
    M.Variant("exactly-one pass removed", ENC, _v_vars_after_solver, "ANALYSIS-ERROR"),
    M.Variant("decode drops some named variables", ENC, _v_decode_other_var, "C06-O5"),
    M.Variant("encoder dispatches on shapes again (original defect)", ENC, _v_shape_again, "C06-O4"),
    M.Variant("auxiliary variables keep the model's literals and the encoder counter is re-synchronised (seed C05-D)", ENC, _v_resync_counter, "C06-O7"),
    M.Variant("the shared flattener memoises its result on the model, and the encoder merges into it in place (seed C06-L)", "solvor/cp.py", _v_flatten_memo_on_model, "C06-O7"),
    M.Variant("cumulative shares one running literal between instants whose windows start alike (seed C06-M)", ENC, _v_running_literal_cached, "C06-O"),
    M.Variant("overloading subsets capped at (number of heaviest tasks that fit) + 1 (seed C06-A)", ENC, _v_cap_from_heaviest, "C06-O13"),
    M.Variant("twin: overloading subsets capped at (number of lightest tasks that fit) + 1", ENC, _t_cap_from_lightest, None),
    M.Variant("auxiliary variables are registered in the model and re-encoded by the next solve (original defect)", ENC, _v_aux_registered, "C06-O7"),
    M.Variant("no_overlap skips pairs using the other task's duration (seed C06-D)", ENC, _v_skip_pairs_wrong_duration, "C06-O8"),
    M.Variant("pairwise disjunction adds task 1's duration to task 2's start", ENC, _v_disjunctive_wrong_duration, "C06-O8"),
    M.Variant("sum_le clamps the partial sum at the target, ignoring negative remaining variables (seed C06-E)", ENC, _v_sum_le_clamp_ignores_rest, "C06-O9"),
    M.Variant("cumulative scans start instants with an exclusive upper end (seeds C05-E / C06-F)", ENC, _v_cumulative_last_start_unchecked, "C06-O10"),
    M.Variant("twin: cumulative scans up to and including the latest start", ENC, _t_cumulative_start_instants, None),
    M.Variant("circuit leaves successor values outside 0..n-1 unconstrained (original defect)", ENC, _v_circuit_values_unbounded, "C06-O11"),
    M.Variant("cumulative constructor stores demands and durations in swapped order", "solvor/cp.py", _v_cumulative_args_swapped, "C06-O12"),
    M.Variant("int - x builds a 'sub' tuple (read as x - int)", "solvor/cp.py", _v_rsub_as_sub, "C06-O12"),
    M.Variant("encoder dispatcher has no arm for ne_var", ENC, _v_dispatcher_drops_ne_var, "C06-O12"),
    M.Variant("eq_var encoded in one direction only", ENC, _v_eq_var_one_direction, "C06-O13"),
    M.Variant("capacity subsets enumerated up to n - 1 tasks", ENC, _v_capacity_sizes_off_by_one, "C06-O13"),
    M.Variant("two-variable sum_eq never excludes a value", ENC, _v_sum_eq_two_vars_forbids_nothing, "C06-O13"),
    M.Variant("ne_const asserts the value instead of excluding it", ENC, _v_ne_const_positive, "C06-O13"),
    M.Variant("twin: reformat", ENC, _t_reformat, None),
]
