"""Shared fact extraction for solvor/cp.py and solvor/cp_encoder.py (C05, C06)."""

from __future__ import annotations

import ast

from sa.cfg import cfg_of
from sa.guards import GuardView, names_in
from sa.index import AnalysisError, Func, own_nodes
from sa.report import Ctx


def produced_tags(ctx: Ctx):
    """(constraint tags, expression tags): tuple literals with a constant string head returned by the public
    constructors / operator dunders of cp.py; heads wrapped in Expr(...) are expression-level."""
    m = ctx.repo.module("cp")
    ctags: dict[str, list] = {}
    etags: dict[str, list] = {}
    for q in sorted(m.funcs):
        f = m.funcs[q]
        if f.parent is not None:
            continue
        for n in own_nodes(f.node):
            if isinstance(n, ast.Return) and n.value is not None:
                v = n.value
                if isinstance(v, ast.Tuple) and v.elts and isinstance(v.elts[0], ast.Constant) and isinstance(v.elts[0].value, str):
                    ctags.setdefault(v.elts[0].value, []).append((f, n))
                    ctx.touch(f)
                elif isinstance(v, ast.Call) and isinstance(v.func, ast.Name) and v.func.id == "Expr" and v.args and isinstance(v.args[0], ast.Tuple):
                    t = v.args[0]
                    if t.elts and isinstance(t.elts[0], ast.Constant) and isinstance(t.elts[0].value, str):
                        etags.setdefault(t.elts[0].value, []).append((f, n))
                        ctx.touch(f)
    return ctags, etags


def consumed_strings(fn_node: ast.AST, subject_pred) -> set[str]:
    """String constants compared (==, in) against an expression satisfying subject_pred."""
    out: set[str] = set()
    for n in ast.walk(fn_node):
        if isinstance(n, ast.Compare) and len(n.ops) == 1:
            l, r = n.left, n.comparators[0]
            if isinstance(n.ops[0], ast.Eq):
                if subject_pred(l) and isinstance(r, ast.Constant) and isinstance(r.value, str):
                    out.add(r.value)
                if subject_pred(r) and isinstance(l, ast.Constant) and isinstance(l.value, str):
                    out.add(l.value)
            elif isinstance(n.ops[0], ast.In) and subject_pred(l):
                if isinstance(r, (ast.Set, ast.Tuple, ast.List)):
                    out |= {e.value for e in r.elts if isinstance(e, ast.Constant) and isinstance(e.value, str)}
        if isinstance(n, ast.Match):
            for c in n.cases:
                for p in ast.walk(c.pattern):
                    if isinstance(p, ast.MatchValue) and isinstance(p.value, ast.Constant) and isinstance(p.value.value, str):
                        out.add(p.value.value)
    return out


def is_head_of(name_set: set[str]):
    """predicate: expression is `<name>[0]` for a name in name_set, or a variable assigned from it"""

    def pred(e: ast.AST) -> bool:
        if isinstance(e, ast.Subscript) and isinstance(e.value, ast.Name) and e.value.id in name_set and isinstance(e.slice, ast.Constant) and e.slice.value == 0:
            return True
        return False

    return pred


def kind_vars(fn_node: ast.AST, subject: str) -> set[str]:
    """variables assigned `subject[0]`"""
    out = set()
    for n in ast.walk(fn_node):
        if isinstance(n, ast.Assign) and isinstance(n.targets[0], ast.Name) and isinstance(n.value, ast.Subscript) and isinstance(n.value.value, ast.Name) and n.value.value.id == subject and isinstance(n.value.slice, ast.Constant) and n.value.slice.value == 0:
            out.add(n.targets[0].id)
    return out


def dispatcher_tags(f: Func, subject: str) -> set[str]:
    kv = kind_vars(f.node, subject)

    def pred(e):
        return (isinstance(e, ast.Name) and e.id in kv) or is_head_of({subject})(e)

    return consumed_strings(f.node, pred)


def default_raises(f: Func, subject: str) -> bool:
    """the dispatcher's fall-through (all tag tests false) raises"""
    cfg = cfg_of(f.node)
    kv = kind_vars(f.node, subject)
    # find the chain's last test; its False branch must lead only to raise
    tests = [n for n in cfg.nodes if n.kind == "test" and n.ast is not None and isinstance(n.ast, ast.Compare) and (names_in(n.ast) & (kv | {subject})) and any(isinstance(c, ast.Constant) and isinstance(c.value, str) for c in ast.walk(n.ast))]
    if not tests:
        return False
    last = tests[-1]
    fb = [cfg.nodes[i] for i in cfg.succ[last.id] if cfg.nodes[i].kind == "branch" and cfg.nodes[i].pol is False]
    if not fb:
        return False
    reach = cfg.forward(fb[0])
    ends = [cfg.nodes[i] for i in reach if cfg.nodes[i].kind in ("return", "raise")]
    return bool(ends) and all(e.kind == "raise" for e in ends)


def flattener_tags(f: Func, repo=None, depth: int = 0):
    """(consumed expression tags, raises on unknown) for a `_flatten_sum`-like function (tags compared with e[0] in
    its nested recursive helper).  A flattener that only delegates to another one inherits that one's summary."""
    tags: set[str] = set()
    raises = False
    for g in [f] + list(f.children.values()):
        params = set(g.params)
        tags |= consumed_strings(g.node, is_head_of(params))
        for n in own_nodes(g.node):
            if isinstance(n, ast.Raise):
                raises = True
    if not tags and repo is not None and depth < 2:
        for n in own_nodes(f.node):
            if isinstance(n, ast.Call) and isinstance(n.func, ast.Attribute) and n.func.attr == f.name and n.func.attr.startswith("_flatten"):
                for m in repo.modules.values():
                    for q, g in m.funcs.items():
                        if g is not f and g.name == f.name and g.parent is None:
                            t2, r2 = flattener_tags(g, repo, depth + 1)
                            tags |= t2
                            raises = raises or r2
    return tags, raises


def structural_len_subjects(f: Func) -> set[str]:
    """names bound (by tuple unpacking) to the term list of a `_flatten_sum` call: their length is a property of
    the constraint's *shape*, not of the search state"""
    out = set()
    for n in own_nodes(f.node):
        if isinstance(n, ast.Assign) and isinstance(n.targets[0], ast.Tuple) and isinstance(n.value, ast.Call) and isinstance(n.value.func, ast.Attribute) and n.value.func.attr.startswith("_flatten"):
            e = n.targets[0].elts[0]
            if isinstance(e, ast.Name):
                out.add(e.id)
    return out


def shape_dispatch_falls_through(f: Func, len_subjects: set[str]):
    """R11: a cascade of `if len(a) == i and len(b) == j:` shape tests; returns (n_arms, falls_through) where
    falls_through means: the path on which every shape test is false reaches a normal exit without passing any
    emission/handler (i.e. the constraint is silently ignored)."""
    cfg = cfg_of(f.node)

    def is_shape(n):
        if n.kind != "test" or n.ast is None:
            return False
        lens = [c for c in ast.walk(n.ast) if isinstance(c, ast.Call) and isinstance(c.func, ast.Name) and c.func.id == "len" and c.args and isinstance(c.args[0], ast.Name) and c.args[0].id in len_subjects]
        return bool(lens)

    shapes = [n for n in cfg.nodes if is_shape(n)]
    if not shapes:
        return 0, False
    # walk: from entry, always take the False branch at shape tests; other tests: explore both
    avoid = set()
    for s in shapes:
        for i in cfg.succ[s.id]:
            b = cfg.nodes[i]
            if b.kind == "branch" and b.pol is True:
                avoid.add(b.id)
    first = shapes[0]
    reach = cfg.forward(first, avoid=avoid)
    # fall-through iff a return (incl. implicit end) is reachable with all shape tests false and no raise-only
    ends = [cfg.nodes[i] for i in reach if cfg.nodes[i].kind in ("return", "raise")]
    # statements executed on the all-false path after the last shape test
    last = shapes[-1]
    fb = [cfg.nodes[i] for i in cfg.succ[last.id] if cfg.nodes[i].kind == "branch" and cfg.nodes[i].pol is False]
    tail_nodes = cfg.forward(fb[0], avoid=avoid) if fb else set()
    handler = False
    for i in tail_nodes:
        n = cfg.nodes[i]
        if n.kind == "stmt" and n.ast is not None and any(isinstance(c, ast.Call) for c in ast.walk(n.ast)):
            handler = True  # a general handler / emission on the default path
    normal_end = any(e.kind == "return" for e in ends)
    return len(shapes), (normal_end and not handler)


def check_alldiff_coverage(ctx: Ctx, oid: str):
    # all_different must constrain every value ANY of its variables can take: the value universe is the union of the
    # variables' full ranges (or the hull min(lb) .. max(ub)); anything narrower leaves some shared value unconstrained
    ad = ctx.func("cp_encoder", "SATEncoder._encode_all_different")
    t_ad = ast.unparse(ad.node)
    union_form = any(isinstance(n, ast.Call) and isinstance(n.func, ast.Attribute) and n.func.attr in ("update", "add") and ("range(var.lb, var.ub + 1)" in ast.unparse(n) or "bool_vars" in ast.unparse(n)) for n in own_nodes(ad.node)) or "|=" in t_ad and "bool_vars" in t_ad
    hull_form = False
    for n in own_nodes(ad.node):
        if isinstance(n, ast.Call) and ast.unparse(n.func) == "range" and len(n.args) == 2 and "var." not in ast.unparse(n):
            lo, hi = n.args
            def _agg(e, fn, attr):
                e0 = e.left if isinstance(e, ast.BinOp) else e
                if isinstance(e0, ast.Name):
                    d = [x.value for x in own_nodes(ad.node) if isinstance(x, ast.Assign) and ast.unparse(x.targets[0]) == e0.id]
                    e0 = d[0] if len(d) == 1 else e0
                return isinstance(e0, ast.Call) and ast.unparse(e0.func) == fn and f".{attr}" in ast.unparse(e0)
            if _agg(lo, "min", "lb") and _agg(hi, "max", "ub"):
                hull_form = True
            else:
                union_form = False  # a value range that is neither a per-variable range nor the full hull
    ctx.ob(oid, "R12 NO-CARDINALITY-CUTOFF", ad, "all_different covers every value of the union of its variables' domains", union_form or hull_form, "values outside the enumerated range get no at-most-one clause: two variables can share such a value", node=ad.node)
    lits_loop = [n for n in own_nodes(ad.node) if isinstance(n, ast.If) and "in var.bool_vars" in ast.unparse(n.test)]
    ctx.ob(oid, "R12 NO-CARDINALITY-CUTOFF", ad, "for each value, every variable that can take it contributes its literal", len(lits_loop) == 1 and "lits.append(var.bool_vars[val])" in t_ad and "for var in variables" in t_ad, "", node=ad.node)



def check_id_allocation(ctx: Ctx, oid: str):
    """Fresh boolean ids: each counter has one writer besides its initialisation - the allocator, which hands out the
    current value and advances by one.  Any other write can move a counter back onto ids already handed out."""
    for mod, cls in (("cp_encoder", "SATEncoder"), ("cp", "Model")):
        m = ctx.repo.module(mod)
        writers = []
        for q, f in sorted(m.funcs.items()):
            if not q.startswith(cls + ".") or q.count(".") != 1:
                continue
            for n in ast.walk(f.node):
                if isinstance(n, (ast.Assign, ast.AugAssign, ast.AnnAssign)):
                    for t in n.targets if isinstance(n, ast.Assign) else [n.target]:
                        for e in ast.walk(t):
                            if isinstance(e, ast.Attribute) and e.attr == "_next_bool" and isinstance(e.ctx, ast.Store):
                                writers.append((f, n))
        names = sorted({f.name for f, _ in writers})
        alloc = ctx.func(mod, f"{cls}._new_bool_var")
        body = [ast.unparse(x) for x in alloc.node.body if not (isinstance(x, ast.Expr) and isinstance(x.value, ast.Constant))]
        ok_alloc = body == ["v = self._next_bool", "self._next_bool += 1", "return v"]
        bad = [(f, n) for f, n in writers if f.name not in ("__init__", "_new_bool_var")]
        ctx.ob(oid, "R28 WRITER-DISCIPLINE", alloc, f"{cls}._next_bool is written only by its initialisation and by the allocator", not bad and {"__init__", "_new_bool_var"} <= set(names), f"writers {names}" + (f": `{ast.unparse(bad[0][1])}` in {bad[0][0].qualname} can move the counter onto ids that were already handed out (two SAT variables share one id)" if bad else ""), node=bad[0][1] if bad else alloc.node)
        ctx.ob(oid, "R28 WRITER-DISCIPLINE", alloc, f"{cls}._new_bool_var returns the current id and advances the counter by one", ok_alloc, f"{body}", node=alloc.node)
    # the encoder leaves the model as it found it: anything it stored there would be re-encoded by the next solve
    m = ctx.repo.module("cp_encoder")
    leaks = []
    for q, f in sorted(m.funcs.items()):
        if not q.startswith("SATEncoder."):
            continue
        for n in ast.walk(f.node):
            tgt = None
            if isinstance(n, (ast.Assign, ast.AugAssign, ast.AnnAssign)):
                for t in n.targets if isinstance(n, ast.Assign) else [n.target]:
                    if ast.unparse(t).startswith("self.model."):
                        tgt = t
            elif isinstance(n, ast.Call) and isinstance(n.func, ast.Attribute) and n.func.attr in ("append", "add", "update", "pop", "setdefault", "extend", "insert", "remove", "clear") and ast.unparse(n.func.value).startswith("self.model."):
                tgt = n
            if tgt is not None:
                leaks.append((f, n))
    enc = ctx.func("cp_encoder", "SATEncoder.solve")
    ctx.ob(oid, "R27 WRITE-OWNERSHIP", leaks[0][0] if leaks else enc, "the encoder stores nothing in the model (every solve of a model encodes the same variables and constraints)", not leaks, f"`{ast.unparse(leaks[0][1])[:60]}`: what one solve leaves in the model is encoded again by the next, with literal ids that no longer belong to it" if leaks else "", node=leaks[0][1] if leaks else enc.node)
    civ = ctx.func("cp_encoder", "SATEncoder._create_int_var")
    t = ast.unparse(civ.node)
    ivc = [n for n in own_nodes(civ.node) if isinstance(n, ast.Call) and ast.unparse(n.func) == "IntVar"]
    iv = ctx.func("cp", "IntVar.__init__")
    ti = ast.unparse(iv.node)
    via_ctor = len(ivc) == 1 and ivc[0].args and ast.unparse(ivc[0].args[0]) == "self" and "for v in range(lb, ub + 1):\n        self.bool_vars[v] = model._new_bool_var()" in ti and "var.bool_vars" not in t.replace("var.bool_vars.values()", "")
    by_hand = "for v in range(lb, ub + 1):\n        var.bool_vars[v] = self._new_bool_var()" in t and "var.bool_vars = {}" in t and len(ivc) == 1 and ivc[0].args and ast.unparse(ivc[0].args[0]) == "self"
    ctx.ob(oid, "R28 WRITER-DISCIPLINE", civ, "every value of an auxiliary integer variable gets its literal from the encoder's allocator, and from no other counter", via_ctor or by_hand, f"`{ast.unparse(ivc[0])[:50] if ivc else '?'}`: IntVar.__init__ draws one literal per value from the allocator it is given - handed the model, every solve advances the model's counter and leaves unused literal numbers behind, free variables for the SAT solver (a second enumerating solve of the same model ends in MAX_ITER)", node=ivc[0] if ivc else civ.node)
    # the model itself is handed to nobody: the encoder only reads attributes of it
    handed = []
    for q, f in sorted(m.funcs.items()):
        if not q.startswith("SATEncoder.") or f.name == "__init__":
            continue
        for n in ast.walk(f.node):
            if isinstance(n, ast.Call):
                for a_ in list(n.args) + [k.value for k in n.keywords]:
                    if ast.unparse(a_) == "self.model":
                        handed.append((f, n))
    ctx.ob(oid, "R27 WRITE-OWNERSHIP", handed[0][0] if handed else enc, "the encoder passes the model to no constructor or function (it only reads its variables, constraints and flattener)", not handed, f"`{ast.unparse(handed[0][1])[:60]}`: whoever receives the model can write it - IntVar's constructor advances its literal counter" if handed else "", node=handed[0][1] if handed else enc.node)
    for n in ast.walk(ctx.repo.module("cp_encoder").tree):
        if isinstance(n, ast.Call) and isinstance(n.func, ast.Attribute) and n.func.attr == "_new_bool_var" and ast.unparse(n.func.value) != "self":
            ctx.ob(oid, "R28 WRITER-DISCIPLINE", civ, "the encoder allocates literals only from its own counter", False, f"`{ast.unparse(n)}`", node=n)


def _block_of(fn_node, stmt):
    for n in ast.walk(fn_node):
        for fld in ("body", "orelse", "finalbody"):
            b = getattr(n, fld, None)
            if isinstance(b, list) and any(x is stmt for x in b):
                return b
    raise AnalysisError("statement not found in any block")


def check_cumulative_horizon(ctx: Ctx, oid: str):
    """The capacity clauses are emitted per time point: the scanned range must reach the last instant at which a task
    can start (an overload that first shows there is otherwise accepted).  Accepted upper ends: the latest possible
    end `max(s.ub + d ...)`, or `max(s.ub ...) + 1`; lower end: the earliest start."""
    f = ctx.func("cp_encoder", "SATEncoder._encode_cumulative")
    defs = {ast.unparse(d.targets[0]): ast.unparse(d.value) for d in own_nodes(f.node) if isinstance(d, ast.Assign) and len(d.targets) == 1}
    loops = [n for n in own_nodes(f.node) if isinstance(n, ast.For) and isinstance(n.iter, ast.Call) and ast.unparse(n.iter.func) == "range" and len(n.iter.args) == 2 and any(isinstance(x, ast.Call) and ast.unparse(x.func).endswith("_encode_capacity_constraint") for x in ast.walk(n))]
    ctx.require(len(loops) == 1, "time-point loop of _encode_cumulative not found")
    lo, hi = loops[0].iter.args

    def res(e):
        t = ast.unparse(e)
        return defs.get(t, t) if isinstance(e, ast.Name) else t

    lo_t, hi_t = res(lo), res(hi)
    ok_lo = lo_t in ("min((s.lb for s in starts))",)
    ok_hi = hi_t in ("max((s.ub + d for s, d in zip(starts, durations)))",)
    if not ok_hi and isinstance(hi, ast.BinOp) and isinstance(hi.op, ast.Add) and ast.unparse(hi.right) == "1":
        ok_hi = res(hi.left) in ("max((s.ub for s in starts))",)
    # the literal that stands for "task i runs at t" is this instant's single start literal, or a fresh variable that every
    # start literal of this instant implies - never one taken from elsewhere (a cache shared between instants misses the
    # start values that only the later instant's window contains)
    runs = [n for n in own_nodes(f.node) if isinstance(n, ast.Assign) and ast.unparse(n.targets[0]) == "running"]
    ctx.floor("definitions of the running literal", len(runs), 1)
    for r_ in runs:
        v_ = ast.unparse(r_.value)
        okr = v_ == "lits[0]"
        if v_ == "self._new_bool_var()":
            blk = _block_of(f.node, r_)
            nxt = blk[blk.index(r_) + 1] if blk.index(r_) + 1 < len(blk) else None
            okr = isinstance(nxt, ast.For) and ast.unparse(nxt.iter) == "lits" and "self._clauses.append([-" + ast.unparse(nxt.target) + ", running])" in ast.unparse(nxt)
        ctx.ob(oid, "R16 PAIRED-EFFECTS", f, f"`{ast.unparse(r_)[:50]}`: the running literal is the instant's only start literal, or a fresh variable implied by each of the instant's start literals", okr, "a running literal that is not implied by every start value of this instant's window leaves those starts invisible to the capacity clauses: overloaded schedules become models of the CNF", node=r_)
    ctx.ob(oid, "R20 ROUND-COUNT", f, "capacity clauses are emitted for every instant from the earliest start up to and including the latest possible start", ok_lo and ok_hi, f"range({lo_t}, {hi_t}): an instant left out gets no capacity clause, so an overload that first appears there is accepted", node=loops[0])


def check_solve_is_read_only(ctx: Ctx, oid: str):
    """Solving does not write the model: nothing reachable from Model.solve through self-calls stores into a field of
    self.  A plan or cache kept on the model goes stale when constraints are added between two solves."""
    m = ctx.repo.module("cp")
    start = ctx.func("cp", "Model.solve")
    seen, work = {}, [start]
    while work:
        f = work.pop()
        if f.qualname in seen:
            continue
        seen[f.qualname] = f
        for n in ast.walk(f.node):
            if isinstance(n, ast.Call) and isinstance(n.func, ast.Attribute) and isinstance(n.func.value, ast.Name) and n.func.value.id == "self":
                g = m.funcs.get(f"Model.{n.func.attr}")
                if g is not None:
                    work.append(g)
    ctx.floor("methods reachable from Model.solve", len(seen), 5)
    writes = []
    for q in sorted(seen):
        f = seen[q]
        for n in ast.walk(f.node):
            if isinstance(n, (ast.Assign, ast.AugAssign, ast.AnnAssign)):
                for t in n.targets if isinstance(n, ast.Assign) else [n.target]:
                    for e in t.elts if isinstance(t, ast.Tuple) else [t]:
                        if ast.unparse(e).startswith("self."):
                            writes.append((f, n))
            elif isinstance(n, ast.Call) and isinstance(n.func, ast.Attribute) and n.func.attr in ("append", "add", "update", "pop", "setdefault", "clear", "extend", "insert", "remove") and ast.unparse(n.func.value).startswith("self."):
                writes.append((f, n))
    ctx.ob(oid, "R27 WRITE-OWNERSHIP", writes[0][0] if writes else start, "nothing on the solve path writes a field of the model", not writes, f"`{ast.unparse(writes[0][1])[:60]}` in {writes[0][0].qualname}: state kept on the model by one solve is reused by the next although variables or constraints may have been added in between" if writes else "", node=writes[0][1] if writes else start.node)


def check_domain_fields_fixed(ctx: Ctx, oid: str):
    """IntVar.lb / .ub / .bool_vars are written by IntVar.__init__ only.  The constructor allocates one literal per value
    of [lb, ub]; the encoder writes the exactly-one over range(lb, ub + 1) and the decoder walks bool_vars - a bound
    moved afterwards leaves a literal that no clause mentions and that the decoder still reads."""
    bad = []
    n_init = 0
    for modname in ("cp", "cp_encoder"):
        m = ctx.repo.module(modname)
        for q, f in sorted(m.funcs.items()):
            for n in own_nodes(f.node):
                tg = []
                if isinstance(n, ast.Assign):
                    tg = [e for t in n.targets for e in (t.elts if isinstance(t, ast.Tuple) else [t])]
                elif isinstance(n, (ast.AugAssign, ast.AnnAssign)):
                    tg = [n.target]
                elif isinstance(n, ast.Delete):
                    tg = n.targets
                for t in tg:
                    if isinstance(t, ast.Attribute) and t.attr in ("lb", "ub", "bool_vars"):
                        if q == "IntVar.__init__" and ast.unparse(t.value) == "self":
                            n_init += 1
                        else:
                            bad.append((f, n))
                    if isinstance(t, ast.Subscript) and isinstance(t.value, ast.Attribute) and t.value.attr == "bool_vars" and q != "IntVar.__init__":
                        bad.append((f, n))
    ctx.floor("domain fields set by IntVar.__init__", n_init, 3)
    ctx.ob(oid, "R28 WRITER-DISCIPLINE", bad[0][0] if bad else ctx.func("cp", "IntVar.__init__"), "the domain of an IntVar (lb, ub, one literal per value) is written by its constructor only", not bad, f"`{ast.unparse(bad[0][1])[:50]}` in {bad[0][0].qualname}: the literal of a value that is no longer in [lb, ub] stays in bool_vars without any clause on it - free for the SAT solver, and the decoder reports the first true literal (a removed value comes back as the answer)" if bad else "", node=bad[0][1] if bad else None)


def check_report_filter(ctx: Ctx, oid: str):
    """Both back-ends leave out of the returned assignment exactly the variables the model named itself: the names
    `int_var` made up (recorded in `Model._unnamed`, written there and nowhere else), not every name of a certain
    spelling - a caller's own `_x` is a named variable and must get its value (ledger row 80)."""
    from sa.cfg import cfg_of
    from sa.guards import GuardView

    writes = []
    for modname in ("cp", "cp_encoder"):
        m = ctx.repo.module(modname)
        for q, f in sorted(m.funcs.items()):
            for n in own_nodes(f.node):
                if isinstance(n, ast.Attribute) and n.attr == "_unnamed":
                    par_write = False
                    for w in own_nodes(f.node):
                        if isinstance(w, (ast.Assign, ast.AugAssign, ast.AnnAssign, ast.Delete)):
                            tg = w.targets if isinstance(w, (ast.Assign, ast.Delete)) else [w.target]
                            par_write |= any(n is x for t in tg for x in ast.walk(t))
                        elif isinstance(w, ast.Call) and isinstance(w.func, ast.Attribute) and w.func.value is n and w.func.attr in ("add", "update", "discard", "remove", "clear", "pop", "difference_update", "intersection_update", "symmetric_difference_update"):
                            par_write = True
                    if par_write:
                        writes.append((q, f, n))
    iv = ctx.func("cp", "Model.int_var")
    cfg = cfg_of(iv.node)
    gv = GuardView(cfg)
    good = 0
    bad = []
    for q, f, n in writes:
        if q == "Model.__init__":
            continue
        if q == "Model.int_var":
            at = gv.guard_atoms(cfg.stmt_node_containing(n), stable_only=False)
            if "name is None" in at:
                good += 1
                continue
        bad.append((q, f, n))
    ctx.floor("recordings of a made-up variable name", good, 1)
    ctx.ob(oid, "R28 WRITER-DISCIPLINE", bad[0][1] if bad else iv, "the set of names the model made up is written by int_var only, for a variable created without a name", not bad, f"written in {bad[0][0]} at line {bad[0][2].lineno}: a named variable that lands in the set loses its value in every returned assignment" if bad else "", node=bad[0][2] if bad else iv.node)
    dfs = ctx.func("cp", "Model._solve_dfs.backtrack")
    comps = [n for n in own_nodes(dfs.node) if isinstance(n, ast.DictComp) and "domains" in ast.unparse(n) and "next(iter(" in ast.unparse(n.value)]
    ctx.floor("assignment read-outs of the DFS back-end", len(comps), 1)
    for c_ in comps:
        conds = [ast.unparse(i) for g in c_.generators for i in g.ifs]
        key = ast.unparse(c_.key)
        ctx.ob(oid, "R18 table", dfs, "the DFS report leaves out exactly the names the model made up", conds == [f"{key} not in self._unnamed"], f"filter {conds}: a test on the spelling of the name drops the caller's own variables that happen to be spelt that way, and the returned assignment gives them no value", node=c_)
    dec = ctx.func("cp_encoder", "SATEncoder.solve.decode_sat_solution")
    skip = [n for n in own_nodes(dec.node) if isinstance(n, ast.If) and any(isinstance(x, ast.Continue) for x in n.body)]
    ctx.ob(oid, "R18 table", dec, "the SAT decoder leaves out exactly the names the model made up", [ast.unparse(s_.test) for s_ in skip] == ["name in self.model._unnamed"], f"skips under {[ast.unparse(s_.test) for s_ in skip]}", node=skip[0] if skip else dec.node)


# where the encoder may declare the whole model unsatisfiable (an empty clause), and under which test: one line per site
UNSAT_SITES = {
    "SATEncoder._encode_exactly_one": [{"F:lits"}],  # a variable with an empty domain
    "SATEncoder._encode_eq_const": [{"val not in var.bool_vars"}],  # the constant is outside the domain
    "SATEncoder._encode_ne_expr": [{"F:terms", "is_ne != target != 0"}, {"F:sums"}, {"F:is_ne", "target not in reached"}],  # ground relation false / empty domain / target unreachable
    "SATEncoder._encode_sum_eq": [{"0 == n", "0 != target"}, {"OR(max_sum < target | target < min_sum)"}],
    "SATEncoder._encode_sum_ge": [{"0 == len(variables)", "0 < target"}],
    "SATEncoder._encode_sum_le": [{"0 == len(variables)", "target < 0"}],
}


def check_unsat_sites(ctx: Ctx, oid: str):
    """An empty clause is the encoder's INFEASIBLE verdict for the whole model.  Every site that appends one is listed
    with the test that justifies it; a site outside the list (a shortcut in an encoder that so far only emitted clauses
    over its literals) is reported - like a new Result site, it needs its own argument."""
    enc = ctx.repo.module("cp_encoder")
    n_sites = 0
    for q, f in sorted(enc.funcs.items()):
        sites = [n for n in own_nodes(f.node) if isinstance(n, ast.Call) and isinstance(n.func, ast.Attribute) and n.func.attr in ("append", "extend", "insert") and ast.unparse(n.func.value) == "self._clauses" and n.args and any(isinstance(a, (ast.List, ast.Tuple)) and (not a.elts or (n.func.attr == "extend" and any(isinstance(e, (ast.List, ast.Tuple)) and not e.elts for e in a.elts))) for a in n.args)]
        if not sites:
            continue
        cfg = cfg_of(f.node)
        gv = GuardView(cfg)
        for n in sites:
            n_sites += 1
            at = gv.guard_atoms(cfg.stmt_node_containing(n), stable_only=False)
            ok = any(want <= at for want in UNSAT_SITES.get(q, []))
            ctx.ob(oid, "R1 STATUS-GUARD", f, "an empty clause (the whole model is unsatisfiable) is emitted only at a listed site under its listed test", ok, f"`{ast.unparse(n)}` under {sorted(a for a in at if not a.startswith(('AFTER-LOOP', 'IN-LOOP')))[:5]}: " + ("this encoder has no listed reason to declare the model infeasible by itself - a shortcut that is right for the tasks its author had in mind (a task that never runs has no demand to place) turns a satisfiable model INFEASIBLE" if q not in UNSAT_SITES else "not one of the listed tests of this encoder"), node=n)
    ctx.floor("empty-clause sites in cp_encoder.py", n_sites, 9)


def check_constraint_table(ctx: Ctx, oid: str):
    """Producer/consumer agreement of the constraint and expression tuples (position by position).
    (a) a named constructor Model.<c>(p1..pk) returns (tag, p1, .., pk) in declaration order and the encoder's
        dispatcher hands constraint[1..k] in that order to an _encode_* whose parameters carry the same names;
    (b) the arithmetic operators put `self` where the flattener reads the positive operand: sub -> (self, other),
        rsub -> (self, other) read as other - self, and the flattener negates exactly the subtrahend."""
    cp = ctx.repo.module("cp")
    enc = ctx.repo.module("cp_encoder")
    disp = ctx.func("cp_encoder", "SATEncoder._encode_constraint")
    arms = {}
    n_ = disp.node.body
    chain = next((x for x in n_ if isinstance(x, ast.If) and "kind" in names_in(x.test)), None)
    while chain is not None:
        t = chain.test
        if isinstance(t, ast.Compare) and isinstance(t.comparators[0], ast.Constant):
            calls = [c for st_ in chain.body for c in ast.walk(st_) if isinstance(c, ast.Call) and isinstance(c.func, ast.Attribute) and c.func.attr.startswith("_encode_")]
            arms[t.comparators[0].value] = calls
        chain = chain.orelse[0] if len(chain.orelse) == 1 and isinstance(chain.orelse[0], ast.If) else None
    ctx.floor("arms of the encoder's constraint dispatcher", len(arms), 10)

    def arg_index(a):
        t = ast.unparse(a)
        for w in ("list(", "tuple("):
            if t.startswith(w) and t.endswith(")"):
                t = t[len(w):-1]
        return int(t[len("constraint["):-1]) if t.startswith("constraint[") and t[len("constraint["):-1].isdigit() else None

    n_ctor = 0
    for q, f in sorted(cp.funcs.items()):
        if not q.startswith("Model.") or q.count(".") != 1:
            continue
        rets = [r for r in own_nodes(f.node) if isinstance(r, ast.Return) and isinstance(r.value, ast.Tuple) and r.value.elts and isinstance(r.value.elts[0], ast.Constant) and isinstance(r.value.elts[0].value, str)]
        if len(rets) != 1:
            continue
        tag = rets[0].value.elts[0].value
        params = [p for p in f.params if p != "self"]
        n_ctor += 1
        got = []
        for e in rets[0].value.elts[1:]:
            t = ast.unparse(e)
            for w in ("tuple(", "list("):
                if t.startswith(w) and t.endswith(")"):
                    t = t[len(w):-1]
            got.append(t)
        ctx.ob(oid, "R18 table", f, f"constructor of `{tag}` stores its arguments in declaration order", got == params, f"returns ({tag!r}, {', '.join(got)}) for parameters {params}", node=rets[0])
        raw = [ast.unparse(e) for e in rets[0].value.elts[1:]]
        loose = [p_ for p_, t_ in zip(params, raw) if p_.endswith("s") and not t_.startswith(("tuple(", "list("))]
        ctx.ob(oid, "R17 PARAM-IMMUTABLE", f, f"constructor of `{tag}` stores a snapshot (tuple) of each collection it is given", not loose, f"`{', '.join(loose)}` stored as handed in: the constraint then changes when the caller reuses or extends that list after add(), and a generator is empty from the second encoding on - later solves of the same model see another constraint than the first", node=rets[0])
        calls = arms.get(tag)
        ok = calls is not None and len(calls) == 1
        why = "no arm in the encoder's dispatcher" if calls is None else ""
        if ok:
            c = calls[0]
            idx = [arg_index(a) for a in c.args]
            g = enc.funcs.get(f"SATEncoder.{c.func.attr}")
            gp = [p for p in g.params if p != "self"] if g is not None else []
            ok = idx == list(range(1, len(params) + 1)) and gp == params
            why = f"dispatcher passes positions {idx} to {c.func.attr}({', '.join(gp)})"
        ctx.ob(oid, "R18 table", disp, f"`{tag}`: the dispatcher hands the stored arguments, in order, to an encoder with the same parameters", ok, why, node=calls[0] if calls else disp.node)
    ctx.floor("named constraint constructors", n_ctor, 7)
    # comparison operators of IntVar: (tag, self, other) consumed as (constraint[1], constraint[2])
    for tag in ("eq_const", "ne_const", "eq_var", "ne_var"):
        calls = arms.get(tag) or []
        ok = len(calls) == 1 and [arg_index(a) for a in calls[0].args] == [1, 2] and calls[0].func.attr == f"_encode_{tag}"
        prod = [r for q, f in cp.funcs.items() if q in ("IntVar.__eq__", "IntVar.__ne__") for r in own_nodes(f.node) if isinstance(r, ast.Return) and isinstance(r.value, ast.Tuple) and ast.unparse(r.value.elts[0]) == repr(tag)]
        okp = len(prod) == 1 and [ast.unparse(e) for e in prod[0].value.elts[1:]] == ["self", "other"]
        ctx.ob(oid, "R18 table", disp, f"`{tag}`: produced as (self, other), consumed in that order", ok and okp, "", node=calls[0] if calls else disp.node)
    # arithmetic operators
    n_ops = 0
    for cls, me in (("IntVar", "self"), ("Expr", "self.data")):
        for op in ("__sub__", "__rsub__", "__add__", "__radd__", "__mul__", "__rmul__"):
            f = cp.funcs.get(f"{cls}.{op}")
            if f is None:
                continue
            for r in own_nodes(f.node):
                if not (isinstance(r, ast.Return) and isinstance(r.value, ast.Call) and ast.unparse(r.value.func) == "Expr" and isinstance(r.value.args[0], ast.Tuple)):
                    continue
                tup = r.value.args[0]
                tag = tup.elts[0].value
                a1, a2 = ast.unparse(tup.elts[1]), ast.unparse(tup.elts[2])
                n_ops += 1
                if op == "__sub__":
                    ok = (tag == "sub" and a1 == me and a2 in ("other", "other.data")) or (tag == "add" and a1 == me and a2 == "-other")
                elif op == "__rsub__":
                    ok = tag == "rsub" and a1 == me and a2 == "other"
                elif op in ("__add__", "__radd__"):
                    ok = tag == "add" and me in (a1, a2)
                else:
                    ok = tag == "mul" and a1 == me and a2 == "other"
                ctx.ob(oid, "R18 table", f, f"{cls}.{op} builds ({tag!r}, ..) with `self` in the position the flattener reads as the positive operand", ok, f"({tag!r}, {a1}, {a2})", node=r)
    ctx.floor("arithmetic operator productions", n_ops, 10)
    fl = ctx.func("cp", "Model._flatten_sum.flatten")
    t = ast.unparse(fl.node)
    ok = all(x in t for x in ("e[0] == 'sub':\n        flatten(e[1], k)\n        flatten(e[2], -k)", "e[0] == 'rsub':\n        flatten(e[2], k)\n        flatten(e[1], -k)", "e[0] == 'add':\n        flatten(e[1], k)\n        flatten(e[2], k)", "e[0] == 'mul':\n        flatten(e[1], k * e[2])"))
    ctx.ob(oid, "R18 table", fl, "the flattener reads sub as e[1] - e[2], rsub as e[2] - e[1], add as e[1] + e[2], mul as e[1] * e[2]", ok, "", node=fl.node)


SMALL_ENCODERS = {
    # function: fragments that together are its whole meaning (compared on the surface-normalised text)
    "SATEncoder._encode_exactly_one": ["if not lits:\n        self._clauses.append([])\n        return", "self._clauses.append(lits)", "for a, b in combinations(lits, 2):\n        self._clauses.append([-a, -b])"],
    "SATEncoder._encode_at_most_one": ["for a, b in combinations(lits, 2):\n        self._clauses.append([-a, -b])"],
    "SATEncoder._encode_eq_const": ["if val in var.bool_vars:\n        self._clauses.append([var.bool_vars[val]])\n    else:\n        self._clauses.append([])"],
    "SATEncoder._encode_ne_const": ["if val in var.bool_vars:\n        self._clauses.append([-var.bool_vars[val]])"],
    "SATEncoder._encode_eq_var": [
        "common = set(var1.bool_vars.keys()) & set(var2.bool_vars.keys())",
        "self._clauses.append([-var1.bool_vars[val], var2.bool_vars[val]])",
        "self._clauses.append([var1.bool_vars[val], -var2.bool_vars[val]])",
        "for val in set(var1.bool_vars.keys()) - common:\n        self._clauses.append([-var1.bool_vars[val]])",
        "for val in set(var2.bool_vars.keys()) - common:\n        self._clauses.append([-var2.bool_vars[val]])",
    ],
    "SATEncoder._encode_ne_var": ["common = set(var1.bool_vars.keys()) & set(var2.bool_vars.keys())", "for val in common:\n        self._clauses.append([-var1.bool_vars[val], -var2.bool_vars[val]])"],
}
LARGER_ENCODERS = {
    "SATEncoder._encode_cumulative": [
        "lits = [starts[i].bool_vars[s] for s in range(max(starts[i].lb, t - durations[i] + 1), min(starts[i].ub, t) + 1) if s in starts[i].bool_vars]",
        "if not lits:\n                continue",
        "if len(lits) == 1:\n                running = lits[0]\n            else:\n                running = self._new_bool_var()\n                for lit in lits:\n                    self._clauses.append([-lit, running])",
        "active_lits.append(running)\n            active_demands.append(demands[i])",
        "if not active_lits:\n            continue\n        self._encode_capacity_constraint(active_lits, active_demands, capacity)",
    ],
    "SATEncoder._encode_sum_eq": [
        "if n == 0:\n        if target != 0:\n            self._clauses.append([])\n        return",
        "if target < min_sum or target > max_sum:\n        self._clauses.append([])\n        return",
        "min_sum = sum((v.lb for v in variables))",
        "max_sum = sum((v.ub for v in variables))",
        "if n == 1:\n        self._encode_eq_const(variables[0], target)\n        return",
        "val2 = target - val1",
        "if val2 < v2.lb or val2 > v2.ub:\n                self._clauses.append([-v1.bool_vars[val1]])\n            else:\n                self._clauses.append([-v1.bool_vars[val1], v2.bool_vars[val2]])",
        "partial_sum = self._create_int_var(variables[0].lb + variables[1].lb, variables[0].ub + variables[1].ub)",
        "s = v1 + v2",
        "self._clauses.append([-variables[0].bool_vars[v1], -variables[1].bool_vars[v2], partial_sum.bool_vars[s]])",
        "self._encode_sum_eq([partial_sum] + list(variables[2:]), target)",
    ],
    "SATEncoder._encode_sum_le": [
        "if len(variables) == 0:\n        if target < 0:\n            self._clauses.append([])\n        return",
        "if len(variables) == 1:\n        v = variables[0]\n        for val in range(v.lb, v.ub + 1):\n            if val > target:\n                self._clauses.append([-v.bool_vars[val]])\n        return",
        "if len(variables) == 2:\n        v1, v2 = variables\n        for val1 in range(v1.lb, v1.ub + 1):\n            for val2 in range(v2.lb, v2.ub + 1):\n                if val1 + val2 > target:\n                    self._clauses.append([-v1.bool_vars[val1], -v2.bool_vars[val2]])\n        return",
        "v1, v2 = (variables[0], variables[1])\n    rest_min = sum((v.lb for v in variables[2:]))\n    partial_sum = self._create_int_var(v1.lb + v2.lb, min(v1.ub + v2.ub, target - rest_min))",
        "s = val1 + val2\n            if s in partial_sum.bool_vars:\n                self._clauses.append([-v1.bool_vars[val1], -v2.bool_vars[val2], partial_sum.bool_vars[s]])\n            else:\n                self._clauses.append([-v1.bool_vars[val1], -v2.bool_vars[val2]])",
        "self._encode_sum_le([partial_sum] + list(variables[2:]), target)",
    ],
    "SATEncoder._encode_sum_ge": [
        "if len(variables) == 0:\n        if target > 0:\n            self._clauses.append([])\n        return",
        "if len(variables) == 1:\n        v = variables[0]\n        for val in range(v.lb, v.ub + 1):\n            if val < target:\n                self._clauses.append([-v.bool_vars[val]])\n        return",
        "if len(variables) == 2:\n        v1, v2 = variables\n        for val1 in range(v1.lb, v1.ub + 1):\n            for val2 in range(v2.lb, v2.ub + 1):\n                if val1 + val2 < target:\n                    self._clauses.append([-v1.bool_vars[val1], -v2.bool_vars[val2]])\n        return",
        "v1, v2 = (variables[0], variables[1])\n    rest_max = sum((v.ub for v in variables[2:]))\n    partial_sum = self._create_int_var(max(v1.lb + v2.lb, target - rest_max), v1.ub + v2.ub)",
        "s = val1 + val2\n            if s in partial_sum.bool_vars:\n                self._clauses.append([-v1.bool_vars[val1], -v2.bool_vars[val2], partial_sum.bool_vars[s]])\n            else:\n                self._clauses.append([-v1.bool_vars[val1], -v2.bool_vars[val2]])",
        "self._encode_sum_ge([partial_sum] + list(variables[2:]), target)",
    ],
    "SATEncoder._encode_disjunctive_le": [
        "for s1 in range(start1.lb, start1.ub + 1):\n        for s2 in range(start2.lb, start2.ub + 1):\n            i_before_j = s1 + dur1 <= s2\n            j_before_i = s2 + dur2 <= s1\n            if not i_before_j and (not j_before_i):\n                self._clauses.append([-start1.bool_vars[s1], -start2.bool_vars[s2]])",
    ],
    "SATEncoder._encode_no_overlap": [
        "n = len(starts)\n    for i in range(n):\n        for j in range(i + 1, n):\n            self._encode_disjunctive_le(starts[i], durations[i], starts[j], durations[j])",
    ],
    "SATEncoder._encode_circuit": [
        "self._encode_all_different(variables)",
        "for i, var in enumerate(variables):\n        if i in var.bool_vars:\n            self._clauses.append([-var.bool_vars[i]])",
        "if n <= 1:\n        return",
        "t = [self._create_int_var(0 if i == 0 else 1, n - 1) for i in range(n)]\n    self._clauses.append([t[0].bool_vars[0]])",
        "for i, var in enumerate(variables):\n        for j in range(1, n):\n            if j in var.bool_vars:\n                for ti in t[i].bool_vars:\n                    for tj in range(t[j].lb, ti + 1):\n                        if tj in t[j].bool_vars:\n                            self._clauses.append([-var.bool_vars[j], -t[i].bool_vars[ti], -t[j].bool_vars[tj]])",
    ],
    "SATEncoder._encode_vars": [
        "for var in self.model._vars.values():\n        lits = [var.bool_vars[v] for v in range(var.lb, var.ub + 1)]\n        self._encode_exactly_one(lits)",
    ],
    "SATEncoder._encode_ne_expr": [
        "coefs, const = self._flatten_sum(left)\n    right_coefs, right_const = self._flatten_sum(right)\n    for name, k in right_coefs.items():\n        coefs[name] = coefs.get(name, 0) - k\n    const -= right_const\n    target = -const",
        "terms = [(self.model._vars[name], k) for name, k in coefs.items() if k != 0]\n    if not terms:\n        if (target != 0) != is_ne:\n            self._clauses.append([])\n        return",
        "var, k = terms[0]\n    reached = {k * v: lit for v, lit in var.bool_vars.items()}",
        "sums = {s + k * v for s in reached for v in var.bool_vars}\n        if not sums:\n            self._clauses.append([])\n            return\n        partial = self._create_int_var(min(sums), max(sums))",
        "self._clauses.append([-s_lit, -v_lit, partial.bool_vars[s + k * v]])",
        "reached = {s: partial.bool_vars[s] for s in sums}",
        "if is_ne:\n        if target in reached:\n            self._clauses.append([-reached[target]])\n    elif target in reached:\n        self._clauses.append([reached[target]])\n    else:\n        self._clauses.append([])",
    ],
    "SATEncoder._encode_capacity_constraint": [
        "for subset in combinations(range(n), size):",
        "if sum((demands[i] for i in subset)) > capacity:",
        "for smaller in combinations(subset, smaller_size):\n                        if sum((demands[i] for i in smaller)) > capacity:\n                            is_minimal = False\n                            break",
        "if is_minimal:\n                    self._clauses.append([-lits[i] for i in subset])",
        "n = len(lits)",
    ],
}
DFS_ARMS = {
    "eq_const": ["if val not in domains[var.name]:\n            return False", "domains[var.name] = {val}"],
    "ne_const": ["domains[var.name].discard(val)"],
    "eq_var": ["common = domains[var1.name] & domains[var2.name]", "if not common:\n            return False", "domains[var1.name] = common", "domains[var2.name] = common.copy()"],
    "ne_var": ["if len(domains[var1.name]) == 1:\n            val = next(iter(domains[var1.name]))\n            domains[var2.name].discard(val)", "if len(domains[var2.name]) == 1:\n            val = next(iter(domains[var2.name]))\n            domains[var1.name].discard(val)"],
}


def check_small_semantics(ctx: Ctx, oid: str, encoder: bool = True, dfs: bool = True):
    """The unit-sized encoders and propagators *are* their specification: polarity, operand and direction of each clause
    / domain update are compared with the table above (a flipped sign or a var1/var2 mix-up changes the model set)."""
    if encoder:
        for q, frags in SMALL_ENCODERS.items():
            f = ctx.func("cp_encoder", q)
            t = ast.unparse(f.node)
            n_app = t.count("self._clauses.append(")
            want = sum(fr.count("self._clauses.append(") for fr in frags)
            ctx.ob(oid, "R18 table", f, f"{q.split('.')[1]} emits exactly the clauses of its definition", all(fr in t for fr in frags) and n_app == want, f"{n_app} emission site(s), {want} expected", node=f.node)
    if encoder:
        for q, frags in LARGER_ENCODERS.items():
            f = ctx.func("cp_encoder", q)
            t = ast.unparse(f.node)
            missing = [fr.split("\n")[0] for fr in frags if fr not in t]
            ctx.ob(oid, "R18 table", f, f"{q.split('.')[1]} has every case of its definition", not missing, f"not found: {missing[:2]}", node=f.node)
        # exact quotients only: `t // k` silently rounds, so `k * x == t` gains a model when k does not divide t
        em = ctx.repo.module("cp_encoder")
        for q_, f_ in sorted(em.funcs.items()):
            for n_ in f_.own_nodes():
                if isinstance(n_, ast.BinOp) and isinstance(n_.op, ast.FloorDiv):
                    fcfg_ = cfg_of(f_.node)
                    at_ = GuardView(fcfg_).guard_atoms(fcfg_.stmt_node_containing(n_), stable_only=False)
                    num, den = ast.unparse(n_.left), ast.unparse(n_.right)
                    okd = any(f"{num} % {den}" in a_ and "== 0" in a_ or a_ == f"0 == {num} % {den}" for a_ in at_)
                    ctx.ob(oid, "R32 EXACT-DIVISION", f_, f"`{ast.unparse(n_)}` is used as an exact quotient only under a divisibility test", okd, "floor division rounds: a linear equation whose right-hand side is not a multiple of the coefficient gets the rounded value as a model", node=n_)
        cc = ctx.func("cp_encoder", "SATEncoder._encode_capacity_constraint")
        sizes = [n for n in own_nodes(cc.node) if isinstance(n, ast.For) and ast.unparse(n.target) == "size"]
        ok = len(sizes) == 1 and isinstance(sizes[0].iter, ast.Call) and ast.unparse(sizes[0].iter.func) == "range" and len(sizes[0].iter.args) == 2 and ast.unparse(sizes[0].iter.args[0]) == "1"
        if ok:
            hi = sizes[0].iter.args[1]
            capped = isinstance(hi, ast.BinOp) and isinstance(hi.op, ast.Add) and ast.unparse(hi.right) == "1" and isinstance(hi.left, ast.Call) and ast.unparse(hi.left.func) == "min" and "n" in [ast.unparse(a) for a in hi.left.args]
            ok = ast.unparse(hi) == "n + 1" or capped
            if capped:
                # a cap "number of tasks that fit, plus one" is valid only if the tasks are counted lightest first
                srt = [c_ for c_ in own_nodes(cc.node) if isinstance(c_, ast.Call) and ast.unparse(c_.func) == "sorted" and c_.args and "demands" in names_in(c_.args[0])]
                desc = [c_ for c_ in srt if any(k_.arg == "reverse" and ast.unparse(k_.value) == "True" for k_ in c_.keywords) or any(k_.arg == "key" and "-" in ast.unparse(k_.value) for k_ in c_.keywords)]
                ctx.ob(oid, "R12 NO-CARDINALITY-CUTOFF", cc, "a cap on the size of the overloading subsets counts the tasks that fit from the lightest upwards", not desc, f"`{ast.unparse(desc[0]) if desc else ''}`: counting how many of the heaviest tasks fit undercounts how many light ones do, so minimal overloading subsets of many light tasks get no clause and the CNF accepts overloaded schedules", node=desc[0] if desc else sizes[0])
                if not desc:
                    ctx.note("_encode_capacity_constraint caps the subset size with min(n, ..): whether the cap keeps every minimal overloading subset is not decided here")
        ctx.ob(oid, "R12 NO-CARDINALITY-CUTOFF", cc, "overloading subsets are enumerated from size 1 up to all n tasks", ok, f"`{ast.unparse(sizes[0].iter) if sizes else '?'}`: the only minimal overloading subset may be the largest one", node=sizes[0] if sizes else cc.node)
    if dfs:
        pc = ctx.func("cp", "Model._propagate_constraint")
        chain = next((x for x in pc.node.body if isinstance(x, ast.If) and "kind" in names_in(x.test)), None)
        seen = {}
        while chain is not None:
            t = chain.test
            if isinstance(t, ast.Compare) and isinstance(t.comparators[0], ast.Constant):
                seen[t.comparators[0].value] = chain
            chain = chain.orelse[0] if len(chain.orelse) == 1 and isinstance(chain.orelse[0], ast.If) else None
        for tag, frags in DFS_ARMS.items():
            arm = seen.get(tag)
            txt = "\n".join(ast.unparse(x) for x in arm.body) if arm is not None else ""
            txt = txt.replace("\n    ", "\n            ")  # fragments are written with the arm's indentation
            body_ok = arm is not None and all(fr.replace("\n            ", "\n    ") in "\n".join(ast.unparse(x) for x in arm.body) for fr in frags)
            ctx.ob(oid, "R18 table", pc, f"DFS propagation of `{tag}` narrows exactly as the constraint demands", body_ok, "", node=arm if arm is not None else pc.node)
        pad = ctx.func("cp", "Model._propagate_all_different")
        t = ast.unparse(pad.node)
        ctx.ob(oid, "R18 table", pad, "DFS all_different removes an assigned value from every other position of the constraint", "if len(domains[var.name]) == 1:\n            val = next(iter(domains[var.name]))\n            for j, other in enumerate(variables):\n                if j != i:\n                    domains[other.name].discard(val)" in t and "for i, var in enumerate(variables):" in t, "", node=pad.node)
        ident = [n for n in own_nodes(pad.node) if isinstance(n, ast.Compare) and any(isinstance(o, (ast.Is, ast.IsNot)) for o in n.ops) and {"var", "other"} <= names_in(n)]
        ctx.ob(oid, "R18 table", pad, "the other positions are told apart by position, not by object identity", not ident, f"`{ast.unparse(ident[0]) if ident else ''}`: a variable listed twice in all_different is then never compared with itself, and DFS returns an assignment for an unsatisfiable constraint (all_different([x, x]))", node=ident[0] if ident else pad.node)
