"""C20 - UnionFind / FenwickTree (structural part): solvor/utils/data_structures.py."""

from __future__ import annotations

import ast
import re

from sa.cfg import cfg_of
from sa.facts import canon
from sa.guards import GuardView, atom_of, names_in
from sa.index import own_nodes
from sa.report import Ctx

from .common import generic_sweeps

EXPLANATION = (
    "Decides the representation discipline the reference-model equivalence rests on: (O1) write ownership - _count and "
    "_rank are written only by __init__ and union, _parent additionally by find, whose single write stores the root "
    "returned by the recursive find (path compression never changes the partition); _tree/_n only by __init__ and "
    "update; every query method (connected, component_count, component_sizes, get_components, prefix, range_sum, "
    "__len__, __repr__) writes no field except through find's normalising write; constructors copy their input; (O2) "
    "union contract - both roots are found first, the False path performs no write, the True path links exactly one "
    "root under the other (lower rank under higher, after an optional swap), bumps the rank only on equality and "
    "decrements the counter exactly once; (O3) Fenwick walkers - the constructor's propagation step and update's step "
    "are the same canonical expression i | (i + 1), prefix walks (i & (i + 1)) - 1 down to below 0 accumulating "
    "_tree[i], range_sum is prefix(right) - prefix(left - 1) with the subtraction guarded by left > 0. NOT decided (the "
    "property proper): equivalence with the reference models over all histories."
)

MOD = "utils.data_structures"


def field_writes(f):
    """set of self.<field> written (store / augmented / subscript store / mutator call) in a method"""
    out = {}
    for n in own_nodes(f.node):
        tgt = None
        if isinstance(n, ast.Assign):
            for t in n.targets:
                for x in ast.walk(t):
                    if isinstance(x, ast.Attribute) and isinstance(x.value, ast.Name) and x.value.id == "self" and (isinstance(x.ctx, ast.Store) or _is_subscript_base(t, x)):
                        out.setdefault(x.attr, []).append(n)
        elif isinstance(n, ast.AugAssign):
            for x in ast.walk(n.target):
                if isinstance(x, ast.Attribute) and isinstance(x.value, ast.Name) and x.value.id == "self":
                    out.setdefault(x.attr, []).append(n)
        elif isinstance(n, ast.Call) and isinstance(n.func, ast.Attribute) and n.func.attr in ("append", "pop", "clear", "extend", "insert", "remove", "sort", "reverse", "update", "add", "discard"):
            b = n.func.value
            while isinstance(b, ast.Subscript):
                b = b.value
            if isinstance(b, ast.Attribute) and isinstance(b.value, ast.Name) and b.value.id == "self":
                out.setdefault(b.attr, []).append(n)
        elif isinstance(n, ast.Delete):
            for t in n.targets:
                for x in ast.walk(t):
                    if isinstance(x, ast.Attribute) and isinstance(x.value, ast.Name) and x.value.id == "self":
                        out.setdefault(x.attr, []).append(n)
    return out


def _is_subscript_base(target, attr) -> bool:
    """attr is the container in a store like self._parent[x] = ..."""
    for x in ast.walk(target):
        if isinstance(x, ast.Subscript) and isinstance(x.ctx, ast.Store):
            b = x.value
            while isinstance(b, ast.Subscript):
                b = b.value
            if b is attr:
                return True
    return False


def run(ctx: Ctx):
    m = ctx.repo.module(MOD)
    owners = {
        "UnionFind": {"_parent": {"__init__", "union", "find"}, "_rank": {"__init__", "union"}, "_count": {"__init__", "union"}},
        "FenwickTree": {"_tree": {"__init__", "update"}, "_n": {"__init__"}},
    }
    n_methods = 0
    for cls, table in owners.items():
        methods = {q.split(".", 1)[1]: f for q, f in m.funcs.items() if q.startswith(cls + ".") and f.parent is None}
        ctx.require(len(methods) >= 5, f"class {cls} lost its methods")
        for name, f in sorted(methods.items()):
            n_methods += 1
            ctx.touch(f)
            w = field_writes(f)
            for fld, sites in sorted(w.items()):
                allowed = name in table.get(fld, set())
                ctx.ob("C20-O1", "R27 WRITE-OWNERSHIP", f, f"{cls}.{name} writes `{fld}` only if it owns it", allowed, f"owners of {fld}: {sorted(table.get(fld, []))}" if not allowed else "", node=sites[0])
            if not w:
                ctx.ob("C20-O1", "R27 WRITE-OWNERSHIP", f, f"{cls}.{name} writes no field", True, "", node=f.node)
        unknown = set()
        for name, f in methods.items():
            unknown |= set(field_writes(f)) - set(table)
        ctx.ob("C20-O1", "R27 WRITE-OWNERSHIP", None, f"{cls} has no field outside the ownership table", not unknown, f"{sorted(unknown)}", rel=m.rel, fname=cls)
    ctx.floor("methods of UnionFind/FenwickTree", n_methods, 15)
    # find: single write, storing the result of the recursive find, under `parent[x] != x`; returns parent[x]
    find = ctx.func(MOD, "UnionFind.find")
    w = field_writes(find).get("_parent", [])
    ok = len(w) == 1 and isinstance(w[0], ast.Assign) and ast.unparse(w[0]) == "self._parent[x] = self.find(self._parent[x])"
    cfg = cfg_of(find.node)
    if ok:
        at = GuardView(cfg).guard_atoms(cfg.node_of(w[0]))
        ok = atom_of("self._parent[x] != x") in at
    rets = [ast.unparse(n.value) for n in own_nodes(find.node) if isinstance(n, ast.Return)]
    ctx.ob("C20-O1", "R27 WRITE-OWNERSHIP", find, "find's only write re-points x at the root returned by the recursive find; it returns the (compressed) parent", ok and rets == ["self._parent[x]"], "", node=find.node)
    # constructors copy their input
    fi = ctx.func(MOD, "FenwickTree.__init__")
    t = ast.unparse(fi.node)
    tree_defs = [n.value for n in own_nodes(fi.node) if isinstance(n, ast.Assign) and any(ast.unparse(x) == "self._tree" for x in n.targets)]
    fresh = [d for d in tree_defs if (isinstance(d, ast.Call) and ast.unparse(d.func) == "list") or isinstance(d, ast.ListComp) or (isinstance(d, ast.BinOp) and isinstance(d.op, ast.Mult) and isinstance(d.left, ast.List))]
    ctx.ob("C20-O1", "R17 PARAM-IMMUTABLE", fi, "FenwickTree copies its initial values (no aliasing of the caller's list)", len(tree_defs) >= 1 and len(fresh) == len(tree_defs), f"{[ast.unparse(d)[:40] for d in tree_defs]}", node=fi.node)
    ui = ctx.func(MOD, "UnionFind.__init__")
    tu = ast.unparse(ui.node)
    ctx.ob("C20-O1", "R27 WRITE-OWNERSHIP", ui, "UnionFind starts as n singletons: parent[i] = i, rank 0, count n", "self._parent = list(range(n))" in tu and "self._rank = [0] * n" in tu and "self._count = n" in tu, "", node=ui.node)
    # queries go through find
    for q, expr in (("UnionFind.connected", "self.find(x) == self.find(y)"),):
        f = ctx.func(MOD, q)
        ctx.ob("C20-O1", "R27 WRITE-OWNERSHIP", f, "connected compares the two roots", [ast.unparse(n.value) for n in own_nodes(f.node) if isinstance(n, ast.Return)] == [expr], "", node=f.node)
    for q in ("UnionFind.component_sizes", "UnionFind.get_components"):
        f = ctx.func(MOD, q)
        t = ast.unparse(f.node)
        ctx.ob("C20-O1", "R27 WRITE-OWNERSHIP", f, f"{q.split('.')[1]} groups every element by its root", "for i in range(len(self._parent))" in t and "root = self.find(i)" in t, "", node=f.node)
    from .sat_common import _need

    ctx.step(_need, "C20-O1", "R30 ACCUMULATOR-PAIRING", ctx.func(MOD, "UnionFind.component_sizes"), "component_sizes counts every element once, under its root, and returns the counts", ["size_map[root] = size_map.get(root, 0) + 1", "return list(size_map.values())"])
    ctx.step(_need, "C20-O1", "R30 ACCUMULATOR-PAIRING", ctx.func(MOD, "UnionFind.get_components"), "get_components puts every element into the set of its root (created on first sight) and returns the sets", ["if root not in comp_map:\n            comp_map[root] = set()\n        comp_map[root].add(i)", "return list(comp_map.values())"])
    ficfg = cfg_of(fi.node)
    figv = GuardView(ficfg)
    for d in tree_defs:
        dn = ficfg.stmt_node_containing(d)
        at = figv.guard_atoms(dn, stable_only=False)
        sized = isinstance(d, ast.BinOp)
        ctx.ob("C20-O1", "R1 STATUS-GUARD", fi, f"`self._tree = {ast.unparse(d)[:30]}` is the {'size' if sized else 'list'} form of the constructor", (("T:isinstance(values, int)" in at) if sized else ("F:isinstance(values, int)" in at)), f"{sorted(at)}", node=d)
    cc = ctx.func(MOD, "UnionFind.component_count")
    ctx.ob("C20-O1", "R27 WRITE-OWNERSHIP", cc, "component_count reports the counter", [ast.unparse(n.value) for n in own_nodes(cc.node) if isinstance(n, ast.Return)] == ["self._count"], "", node=cc.node)

    # ---- O2 union contract
    un = ctx.func(MOD, "UnionFind.union")
    cfg = cfg_of(un.node)
    gv = GuardView(cfg)
    body = un.node.body
    first = next(s for s in body if not (isinstance(s, ast.Expr) and isinstance(s.value, ast.Constant)))
    ok = ast.unparse(first) == "rx, ry = (self.find(x), self.find(y))"
    ctx.ob("C20-O2", "R29 EXACTLY-ONCE", un, "both roots are found before anything is decided", ok, ast.unparse(first), node=first)
    rets = [n for n in own_nodes(un.node) if isinstance(n, ast.Return)]
    f_rets = [r for r in rets if ast.unparse(r.value) == "False"]
    t_rets = [r for r in rets if ast.unparse(r.value) == "True"]
    ok = len(f_rets) == 1 and len(t_rets) == 1 and len(rets) == 2
    if ok:
        at = gv.guard_atoms(cfg.node_of(f_rets[0]))
        ok = atom_of("rx == ry") in at
        # no field write can reach the False return
        writes = [cfg.node_of(n) for sites in field_writes(un).values() for n in sites]
        back = cfg.backward(cfg.node_of(f_rets[0]))
        ok = ok and not any(w.id in back for w in writes)
    ctx.ob("C20-O2", "R29 EXACTLY-ONCE", un, "union returns False exactly when the roots coincide, without any write", ok, "", node=un.node)
    w = field_writes(un)
    links = w.get("_parent", [])
    ok = len(links) == 1 and ast.unparse(links[0]) == "self._parent[ry] = rx"
    ctx.ob("C20-O2", "R29 EXACTLY-ONCE", un, "the True path links exactly one root under the other root", ok, f"{[ast.unparse(x) for x in links]}", node=un.node)
    swaps = [n for n in own_nodes(un.node) if isinstance(n, ast.Assign) and ast.unparse(n) == "rx, ry = (ry, rx)"]
    ok = len(swaps) == 1
    if ok:
        at = gv.guard_atoms(cfg.node_of(swaps[0]))
        ok = atom_of("self._rank[rx] < self._rank[ry]") in at and links and cfg.dominates(cfg.stmt_node_containing(swaps[0].value).test if False else cfg.node_of(swaps[0]).test if False else cfg.node_of(body[body.index(first)]), cfg.node_of(links[0]))
    ctx.ob("C20-O2", "R29 EXACTLY-ONCE", un, "the lower-rank root goes under the higher-rank root (swap before linking)", ok, "", node=un.node)
    ranks = w.get("_rank", [])
    ok = len(ranks) == 1 and ast.unparse(ranks[0]) == "self._rank[rx] += 1"
    if ok:
        at = gv.guard_atoms(cfg.node_of(ranks[0]))
        ok = atom_of("self._rank[rx] == self._rank[ry]") in at and cfg.node_of(links[0]).id in cfg.backward(cfg.node_of(ranks[0]))
    ctx.ob("C20-O2", "R29 EXACTLY-ONCE", un, "rank of the new root grows by one only when both ranks were equal", ok, "", node=un.node)
    counts = w.get("_count", [])
    ok = len(counts) == 1 and ast.unparse(counts[0]) == "self._count -= 1"
    if ok and t_rets:
        cn = cfg.node_of(counts[0])
        ok = cfg.dominates(cn, cfg.node_of(t_rets[0])) and cn.loop is None
    ctx.ob("C20-O2", "R29 EXACTLY-ONCE", un, "the component counter drops by exactly one on every merge", ok, "", node=un.node)

    # ---- O3 Fenwick walkers
    up = ctx.func(MOD, "FenwickTree.update")
    pf = ctx.func(MOD, "FenwickTree.prefix")
    rs = ctx.func(MOD, "FenwickTree.range_sum")
    # a constructor that builds the partial sums by some other scheme (no `i | (i + 1)` propagation, e.g. level by
    # level) is outside what this rule can decide: fail closed rather than call a possibly correct build a violation
    ctx.require(any(isinstance(n, ast.BinOp) and isinstance(n.op, ast.BitOr) for n in own_nodes(fi.node)), "FenwickTree.__init__ no longer propagates cells through the parent step `i | (i + 1)`: the build scheme is not one this check can decide")
    step_ctor = [n.value for n in own_nodes(fi.node) if isinstance(n, ast.Assign) and ast.unparse(n.targets[0]) == "j"]
    want = canon(ast.parse("i | (i + 1)", mode="eval").body)

    def walk_of(f):
        """(family, index var, loop) of a Fenwick walk: family Z = 0-based (i |= i + 1 / i = (i & (i + 1)) - 1),
        family O = 1-based lowbit (k += k & -k / k -= k & -k); local aliases of self._tree / self._n are resolved"""
        alias = {}
        for n in own_nodes(f.node):
            if isinstance(n, ast.Assign) and len(n.targets) == 1:
                t, v = n.targets[0], n.value
                if isinstance(t, ast.Name) and ast.unparse(v) in ("self._tree", "self._n"):
                    alias[t.id] = ast.unparse(v)
                elif isinstance(t, ast.Tuple) and isinstance(v, ast.Tuple) and len(t.elts) == len(v.elts):
                    for a_, b_ in zip(t.elts, v.elts):
                        if isinstance(a_, ast.Name) and ast.unparse(b_) in ("self._tree", "self._n"):
                            alias[a_.id] = ast.unparse(b_)

        def txt(e):
            t = ast.unparse(e)
            for k_, v_ in alias.items():
                t = re.sub(rf"(?<![\w.]){k_}(?![\w])", v_, t)
            return t

        loops = [n for n in own_nodes(f.node) if isinstance(n, ast.While)]
        if len(loops) != 1:
            return None
        w = loops[0]
        for st_ in w.body:
            if isinstance(st_, ast.AugAssign) and isinstance(st_.target, ast.Name):
                x = st_.target.id
                v = ast.unparse(st_.value)
                has_and = any(isinstance(b_, ast.BinOp) and isinstance(b_.op, ast.BitAnd) for b_ in ast.walk(st_.value))
                if isinstance(st_.op, ast.BitOr):
                    return ("Z-up", x, w, txt, v == f"{x} + 1")
                if isinstance(st_.op, ast.Add) and has_and:
                    return ("O-up", x, w, txt, v == f"{x} & -{x}")
                if isinstance(st_.op, ast.Sub) and has_and:
                    return ("O-down", x, w, txt, v == f"{x} & -{x}")
            if isinstance(st_, ast.Assign) and isinstance(st_.targets[0], ast.Name):
                x = st_.targets[0].id
                if x in names_in(w.test) and any(isinstance(b_, ast.BinOp) and isinstance(b_.op, (ast.BitAnd, ast.BitOr)) for b_ in ast.walk(st_.value)):
                    good = canon(st_.value) == canon(ast.parse(f"({x} & ({x} + 1)) - 1", mode="eval").body)
                    if any(isinstance(b_, ast.BinOp) and isinstance(b_.op, ast.BitOr) for b_ in ast.walk(st_.value)):
                        return ("Z-up", x, w, txt, canon(st_.value) == canon(ast.parse(f"{x} | ({x} + 1)", mode="eval").body))
                    return ("Z-down", x, w, txt, good)
        return None

    wu, wp = walk_of(up), walk_of(pf)
    ctx.require(wu is not None and wu[0] in ("Z-up", "O-up"), "FenwickTree.update is not a walk this check recognises (neither `i |= i + 1` nor `k += k & -k`): cannot decide C20-O3")
    ctx.require(wp is not None and wp[0] in ("Z-down", "O-down"), "FenwickTree.prefix is not a walk this check recognises (neither `i = (i & (i + 1)) - 1` nor `k -= k & -k`): cannot decide C20-O3")
    fam, x, w, txt, step_ok = wu
    body_t = [txt(b_) for b_ in w.body]
    init = [txt(n.value) for n in own_nodes(up.node) if isinstance(n, ast.Assign) and ast.unparse(n.targets[0]) == x]
    if fam == "Z-up":
        ok = txt(w.test) == f"{x} < self._n" and f"self._tree[{x}] += delta" in body_t and (x == "i" or init == ["i"])
        shape = f"0-based walk: `while {x} < n: tree[{x}] += delta`"
    else:
        ok = txt(w.test) == f"{x} <= self._n" and f"self._tree[{x} - 1] += delta" in body_t and init == ["i + 1"]
        shape = f"1-based walk from i + 1: `while {x} <= n: tree[{x} - 1] += delta`"
    ctx.ob("C20-O3", "R18 table", up, "update adds delta to every node on the walk up to and including the last node of the tree", ok and step_ok, f"expected {shape}; found test `{txt(w.test)}`, body {body_t}, start {init}: a walk that stops one node early loses updates in the last block", node=w)
    # every delta reaches the walk: a return before the loop may depend on delta only through an exact zero test
    ucfg = cfg_of(up.node)
    head = ucfg.node_of(w)
    skips = []
    for r_ in own_nodes(up.node):
        if isinstance(r_, ast.Return):
            rn_ = ucfg.node_of(r_)
            if rn_ is None or (head is not None and ucfg.dominates(head, rn_)):
                continue
            for gd in ucfg.guards(rn_):
                t_ = gd.test.ast if gd.test is not None else None
                if t_ is None or "delta" not in names_in(t_):
                    continue
                exact = ast.unparse(t_).replace(" ", "") in ("delta==0", "delta==0.0", "notdelta", "0==delta", "0.0==delta")
                if not exact:
                    skips.append(t_)
    ctx.ob("C20-O3", "R12 NO-CARDINALITY-CUTOFF", up, "every non-zero delta reaches the walk (an early return may test delta only for being exactly zero)", not skips, f"`{ast.unparse(skips[0]) if skips else ''}` returns before the walk: the plain array would add this delta, the tree drops it, and every prefix that covers the index differs from then on", node=skips[0] if skips else up.node)
    ok = len(step_ctor) == 1 and canon(step_ctor[0]) == want
    ctx.ob("C20-O3", "R18 SIBLING-AGREEMENT (expression)", up, "constructor propagation uses the parent step i | (i + 1), the step of the update walk", ok, f"ctor `{ast.unparse(step_ctor[0]) if step_ctor else '?'}` / update family {fam}", node=up.node)
    tc = ast.unparse(fi.node)
    ctx.ob("C20-O3", "R18 table", fi, "constructor pushes each cell into its parent once, in increasing order, when the parent exists", "for i in range(self._n):" in tc and any(isinstance(n, ast.If) and ast.unparse(n.test) == "j < self._n" and [ast.unparse(x_) for x_ in n.body] == ["self._tree[j] += self._tree[i]"] and not n.orelse for n in own_nodes(fi.node)), "", node=fi.node)
    fam, x, w, txt, step_ok = wp
    body_t = [txt(b_) for b_ in w.body]
    init = [txt(n.value) for n in own_nodes(pf.node) if isinstance(n, ast.Assign) and ast.unparse(n.targets[0]) == x]
    tp = ast.unparse(pf.node)
    if fam == "Z-down":
        ok = txt(w.test) == f"{x} >= 0" and f"total += self._tree[{x}]" in body_t and (x == "i" or init == ["i"])
    else:
        ok = txt(w.test) == f"{x} > 0" and f"total += self._tree[{x} - 1]" in body_t and init == ["i + 1"]
    ctx.ob("C20-O3", "R18 table", pf, "prefix accumulates the nodes of the downward walk from position i, starting from 0.0, and returns the total", ok and step_ok and "total = 0.0" in tp and "return total" in tp, f"family {fam}, test `{txt(w.test)}`, body {body_t}", node=pf.node)
    tr = ast.unparse(rs.node)
    cfg = cfg_of(rs.node)
    sub = [n for n in own_nodes(rs.node) if isinstance(n, ast.AugAssign) and isinstance(n.op, ast.Sub)]
    ok = "result = self.prefix(right)" in tr and len(sub) == 1 and ast.unparse(sub[0].value) == "self.prefix(left - 1)"
    if ok:
        at = GuardView(cfg).guard_atoms(cfg.node_of(sub[0]))
        ok = atom_of("left > 0") in at
    ctx.ob("C20-O3", "R18 table", rs, "range_sum = prefix(right) - prefix(left - 1), the subtraction only for left > 0", ok, "", node=rs.node)
    # who may read the tree array: the constructor, update and prefix.  A cell holds the sum of the lowbit(i + 1) elements
    # ending at i - a query that reads cells by itself has to get that block structure right a second time
    readers = sorted({q.split(".", 1)[1] for q, g_ in ctx.repo.module(MOD).funcs.items() if q.startswith("FenwickTree.") for n_ in own_nodes(g_.node) if isinstance(n_, ast.Attribute) and n_.attr == "_tree" and isinstance(n_.ctx, ast.Load)})
    extra = [r_ for r_ in readers if r_ not in ("__init__", "update", "prefix")]
    ctx.ob("C20-O3", "R27 WRITE-OWNERSHIP", rs, "the tree array is read by the constructor, update and prefix only (every other query goes through prefix)", not extra, f"read in {extra}: an aligned block [l, r] of size 2^k is the range of cell r only when the block number l / 2^k is even (cells (2,3), (6,7), (4,7) hold larger ranges)" if extra else "", node=rs.node)
    generic_sweeps(ctx)


# ---------------------------------------------------------------------------------------------
from sa import mutate as M  # noqa: E402

DS = "solvor/utils/data_structures.py"


LOWBIT_UPDATE = "tree, n = self._tree, self._n\nk = i + 1\nwhile k %s n:\n    tree[k - 1] += delta\n    k += k & -k"
LOWBIT_PREFIX = "tree = self._tree\ntotal = 0.0\nk = i + 1\nwhile k > 0:\n    total += tree[k - 1]\n    k -= k & -k\nreturn total"


def _lowbit(tree, op):
    g = M.find_func(tree, "FenwickTree.update")
    doc = [s for s in g.body if isinstance(s, ast.Expr) and isinstance(s.value, ast.Constant)]
    g.body = doc + M.stmts(LOWBIT_UPDATE % op)
    h = M.find_func(tree, "FenwickTree.prefix")
    doc = [s for s in h.body if isinstance(s, ast.Expr) and isinstance(s.value, ast.Constant)]
    h.body = doc + M.stmts(LOWBIT_PREFIX)


def _v_lowbit_update_stops_early(tree):
    _lowbit(tree, "<")


def _t_lowbit_walks(tree):
    """equally valid: both walks in the textbook 1-based lowbit form"""
    _lowbit(tree, "<=")


def _v_connected_writes(tree):
    g = M.find_func(tree, "UnionFind.connected")
    g.body = M.stmts("rx, ry = self.find(x), self.find(y)\nif rx != ry:\n    self._rank[rx] += 0\nreturn rx == ry")


def _v_sizes_mutates(tree):
    g = M.find_func(tree, "UnionFind.component_sizes")
    M.replace_stmt(g, lambda s: M.src_is(s, "root = self.find(i)"), M.stmts("root = self.find(i)\nself._parent[i] = i if root == i else root\nself._count = self._count"))


def _v_union_no_count(tree):
    g = M.find_func(tree, "UnionFind.union")
    M.replace_stmt(g, lambda s: M.src_is(s, "self._count -= 1"), [])


def _v_union_links_element(tree):
    g = M.find_func(tree, "UnionFind.union")
    M.replace_stmt(g, lambda s: M.src_is(s, "self._parent[ry] = rx"), M.stmts("self._parent[y] = rx"))


def _v_union_false_writes(tree):
    g = M.find_func(tree, "UnionFind.union")
    M.replace_stmt(g, lambda s: isinstance(s, ast.If) and M.src_is(s.test, "rx == ry"), M.stmts("if rx == ry:\n    self._count -= 0\n    return False"))


def _v_find_half(tree):
    g = M.find_func(tree, "UnionFind.find")
    M.replace_stmt(g, lambda s: M.src_is(s, "self._parent[x] = self.find(self._parent[x])"), M.stmts("self._parent[x] = self._parent[self._parent[x]]"))


def _v_fenwick_step(tree):
    g = M.find_func(tree, "FenwickTree.update")
    M.replace_stmt(g, lambda s: isinstance(s, ast.AugAssign) and M.src_is(s.target, "i") , M.stmts("i += i & -i"))


def _v_prefix_step(tree):
    g = M.find_func(tree, "FenwickTree.prefix")
    M.replace_expr(g, lambda e: M.src_is(e, "(i & i + 1) - 1"), M.expr("(i & i - 1) - 1"))


def _v_range_unguarded(tree):
    g = M.find_func(tree, "FenwickTree.range_sum")
    M.replace_stmt(g, lambda s: isinstance(s, ast.If) and M.src_is(s.test, "left > 0"), lambda s: s.body)


def _v_alias_values(tree):
    g = M.find_func(tree, "FenwickTree.__init__")
    M.replace_stmt(g, lambda s: M.src_is(s, "self._tree = list(values)"), M.stmts("self._tree = values"))


def _t_reformat(tree):
    pass


def _t_rename(tree):
    g = M.find_func(tree, "UnionFind.component_sizes")
    M.rename_local(g, "size_map", "sizes")


def _v_update_skips_tiny_delta(tree):
    g = M.find_func(tree, "FenwickTree.update")
    g.body.insert(1 if isinstance(g.body[0], ast.Expr) else 0, M.stmts("if -1e-12 < delta < 1e-12:\n    return")[0])


def _t_update_skips_zero_delta(tree):
    g = M.find_func(tree, "FenwickTree.update")
    g.body.insert(1 if isinstance(g.body[0], ast.Expr) else 0, M.stmts("if delta == 0:\n    return")[0])


def _v_range_sum_reads_cell(tree):
    g = M.find_func(tree, "FenwickTree.range_sum")
    M.insert(g, "result = self.prefix(right)", "size = right - left + 1\nif size > 1 and not size & (size - 1) and not left & (size - 1):\n    return self._tree[right]")


VARIANTS = [
    M.Variant("range_sum answers an aligned power-of-two block from one tree cell (seed C20-T)", DS, _v_range_sum_reads_cell, "C20-O3"),
    M.Variant("update returns early for |delta| < 1e-12 (seed C20-M8)", DS, _v_update_skips_tiny_delta, "C20-O3"),
    M.Variant("twin: update returns early for delta == 0", DS, _t_update_skips_zero_delta, None),
    M.Variant("connected() writes a rank", DS, _v_connected_writes, "C20-O1"),
    M.Variant("component_sizes() rewrites parents and the counter", DS, _v_sizes_mutates, "C20-O1"),
    M.Variant("union forgets to decrement the counter", DS, _v_union_no_count, "C20-O2"),
    M.Variant("union links the element instead of its root", DS, _v_union_links_element, "C20-O2"),
    M.Variant("union writes on the no-merge path", DS, _v_union_false_writes, "C20-O2"),
    M.Variant("find uses path halving without returning the root", DS, _v_find_half, "C20-O1"),
    M.Variant("update walks with i += i & -i (1-based step on a 0-based tree)", DS, _v_fenwick_step, "C20-O3"),
    M.Variant("prefix walks with the wrong step", DS, _v_prefix_step, "C20-O3"),
    M.Variant("range_sum subtracts prefix(-1)", DS, _v_range_unguarded, "C20-O3"),
    M.Variant("FenwickTree aliases the caller's list", DS, _v_alias_values, "C20-O1"),
    M.Variant("1-based lowbit update walk keeps the 0-based bound `k < n` (seed C20-F)", DS, _v_lowbit_update_stops_early, "C20-O3"),
    M.Variant("twin: both walks rewritten in 1-based lowbit form", DS, _t_lowbit_walks, None),
    M.Variant("twin: reformat", DS, _t_reformat, None),
    M.Variant("twin: rename a local", DS, _t_rename, None),
]
