"""C03 - LP verdicts and optima (structural part): simplex.py, interior_point.py."""

from __future__ import annotations

import ast

from sa.cfg import cfg_of
from sa.facts import is_status, loads_of, result_sites, tuple_return_statuses
from sa.guards import atoms as _atoms
from sa.guards import GuardView, atom_of, names_in
from sa.index import own_nodes
from sa.report import Ctx

from .common import generic_sweeps

EXPLANATION = (
    "Decides structural necessary conditions of the LP verdict contract: (O1) error discipline - every call whose "
    "callee returns a Status at a fixed tuple position has that status read before its holder dies (the phase-1 "
    "status of the two-phase simplex is the instance); (O2) verdict mapping in solve_lp - the status published after "
    "phase 1 is never a literal INFEASIBLE when the phase-1 summary (computed from _phase1/_phase2 return statements) "
    "can also be MAX_ITER, the INFEASIBLE return of phase 1 is dominated by a test of the inner status and of the "
    "artificial objective, MAX_ITER in _phase2 is returned only after the iteration loop; (O3) interior point - the "
    "in-loop OPTIMAL is dominated by all three convergence atoms whose operands are def-use descendants of the primal "
    "residual, dual residual and complementarity gap, FEASIBLE by a primal residual test with literal tolerance <= "
    "0.01, nothing after the loop is OPTIMAL; (O4) sign units - the cost vector is negated exactly when minimize is "
    "false and every published non-constant objective is negated back under the same condition. (O6) interior_point.py contains no float operation of a shape that can raise on diverged iterates (no float power, every divisor bounded away from zero, every sqrt argument non-negative by construction). (O7) the tableau engine (entering rule, ratio test, pivot, extraction), statement group by statement group. NOT decided: "
    "feasibility within tolerance, equality with the true optimum, UNBOUNDED/INFEASIBLE discrimination, Bland "
    "termination, absence of crashes (numerical)."
)


def _corner(e):
    """`matrix[-1][-1]`: the cell holding (minus) the phase-1 objective."""
    return isinstance(e, ast.Subscript) and ast.unparse(e).replace(" ", "") == "matrix[-1][-1]"


def _infeasible_threshold_scaled(ctx, p1, c1, inner, ret):
    """The corner cell is what is left of the initial infeasibility after the pivots; its rounding error is
    relative to that start value. The verdict `infeasible` has to be taken against a threshold that grows with
    it: the comparison that guards the INFEASIBLE return mentions, besides the corner cell and eps, a local that
    was read from the corner cell before the inner simplex run."""
    inner_node = c1.node_of(inner)
    scales = {}
    for a in own_nodes(p1.node):
        if isinstance(a, ast.Assign) and len(a.targets) == 1 and isinstance(a.targets[0], ast.Name) and any(_corner(x) for x in ast.walk(a.value)):
            an = c1.node_of(a)
            if an is not None and c1.dominates(an, inner_node):
                scales[a.targets[0].id] = a
    tests = []
    for g in c1.guards(c1.node_of(ret)):
        t = g.test.ast if g.test is not None else None
        if t is not None and any(_corner(x) for x in ast.walk(t)):
            tests.append(t)
    ctx.require(bool(tests), "the INFEASIBLE return of _phase1 is no longer guarded by a test of matrix[-1][-1]")
    stores = {}
    for a in own_nodes(p1.node):
        for x in ast.walk(a) if isinstance(a, (ast.Assign, ast.AugAssign, ast.For)) else ():
            if isinstance(x, ast.Name) and isinstance(x.ctx, ast.Store):
                stores[x.id] = stores.get(x.id, 0) + 1
    used = {x.id for t in tests for x in ast.walk(t) if isinstance(x, ast.Name)}
    ok = any(v in used and stores.get(v, 0) == 1 for v in scales)
    ctx.ob("C03-O2", "R1 STATUS-GUARD", p1, "phase-1 INFEASIBLE threshold is scaled by the infeasibility the run started with (read from the corner cell before the inner run, written once)", ok,
           f"test `{ast.unparse(tests[0])}` compares the corner cell with an absolute tolerance: the pivots leave a residue relative to the right-hand sides (about 1e-10 at 1e6), and a feasible LP with plain integer data such as solve_lp([1], [[-3]], [-786434]) is answered INFEASIBLE", node=ret)
    # ... and the threshold is the caller's eps times that scale (at least eps): a *relative* test.  An absolute eps fails
    # on plain integer data of size 1e6 (row 56); a few ulps of the scale fail as soon as an intermediate tableau value is
    # much larger than the scale (row 64 -> row 70: a feasible LP with |v| <= 280 was called INFEASIBLE).  What made the
    # relative test look wrong in row 64 was solve_milp handing over eps = 1e-6 - decided under C04-O12.
    good = False
    why = ""
    sc = {v for v in scales if v in used}
    for t in tests:
        for x in ast.walk(t):
            if isinstance(x, ast.BinOp) and isinstance(x.op, (ast.Mult, ast.Div)) and sc & {y.id for y in ast.walk(x) if isinstance(y, ast.Name)}:
                factors, stack_ = [], [x]
                while stack_:
                    e_ = stack_.pop()
                    if isinstance(e_, ast.BinOp) and isinstance(e_.op, ast.Mult):
                        stack_ += [e_.left, e_.right]
                    else:
                        factors.append(e_)
                txt_ = sorted(ast.unparse(f_.operand if isinstance(f_, ast.UnaryOp) and isinstance(f_.op, ast.USub) else f_) for f_ in factors)
                if isinstance(x.op, ast.Mult) and len(txt_) == 2 and "eps" in txt_ and any(t_ in (f"max(1.0, {v})", f"max(1, {v})", f"max({v}, 1.0)", f"max({v}, 1)") for t_ in txt_ for v in sc):
                    good = True
                elif isinstance(x.op, ast.Div) and ast.unparse(x.right) in [f"max(1.0, {v})" for v in sc] and any(isinstance(c_, ast.Compare) and "eps" in names_in(c_) for c_ in ast.walk(t)):
                    good = True  # residue / scale compared with eps: the same test
                else:
                    why = f"`{ast.unparse(x)[:70]}`"
    ctx.ob("C03-O2", "R1 STATUS-GUARD", p1, "the phase-1 threshold is the caller's eps times max(1, initial infeasibility): relative to the problem's own scale", ok and good,
           f"{why or ast.unparse(tests[0])[:70]}: an absolute eps calls feasible LPs with right-hand sides around 1e6 INFEASIBLE; an allowance of a few machine epsilons of the scale does the same as soon as a pivot produces a tableau value much larger than the scale", node=ret)


def run(ctx: Ctx):
    ctx.step(check_status_use)
    ctx.step(check_simplex_verdicts)
    ctx.step(check_interior)
    ctx.step(check_no_raising_float_ops)
    from .sat_common import _need

    p2 = ctx.func("simplex", "_phase2")
    ctx.step(_need, "C03-O7", "R21 search discipline", p2, "entering column: the first non-basic column with a negative reduced cost (Bland); none -> OPTIMAL", ["enter = -1\n        for j in range(n_cols - 1):\n            if j not in basis_set and matrix[-1][j] < -eps:\n                enter = j\n                break", "if enter == -1:\n            return (Status.OPTIMAL, iteration, matrix, basis, basis_set)"])
    ctx.step(_need, "C03-O7", "R30 ACCUMULATOR-PAIRING", p2, "leaving row: minimum ratio over the rows with a positive entry, ties by the smaller basic index; no such row -> UNBOUNDED", ["leave, min_ratio = (-1, float('inf'))", "if matrix[i][enter] > eps:\n                ratio = matrix[i][-1] / matrix[i][enter]\n                if ratio < min_ratio - eps:\n                    min_ratio, leave = (ratio, i)\n                elif abs(ratio - min_ratio) <= eps:\n                    if leave == -1 or basis[i] < basis[leave]:\n                        leave = i", "if leave == -1:\n            return (Status.UNBOUNDED, iteration, matrix, basis, basis_set)", "for i in range(m):"])
    ctx.step(_need, "C03-O7", "R16 PAIRED-EFFECTS", p2, "after the pivot the basis label and the basis set move together", ["matrix = _pivot(matrix, m, leave, enter, eps)\n        basis_set.discard(basis[leave])\n        basis[leave] = enter\n        basis_set.add(enter)"])
    pv = ctx.func("simplex", "_pivot")
    ctx.step(_need, "C03-O7", "R16 PAIRED-EFFECTS", pv, "pivot: the pivot row is scaled to a unit entry, every other row (objective row included) is cleared in the pivot column", ["inv = 1.0 / pivot_val\n    for j in range(n_cols):\n        matrix[row][j] *= inv", "for i in range(m + 1):\n        if i != row:\n            f = matrix[i][col]\n            if abs(f) > eps:\n                for j in range(n_cols):\n                    matrix[i][j] -= f * matrix[row][j]", "return matrix"])
    # solve_lp gives no verdict of its own: every status it returns was computed by a phase (phase 1 decides
    # feasibility before phase 2 may say UNBOUNDED)
    slp = ctx.func("simplex", "solve_lp")
    lits = []
    for s_ in result_sites(slp):
        st_ = s_.arg("status")
        if st_ is not None and ast.unparse(st_).startswith("Status."):
            lits.append(s_)
    ctx.ob("C03-O1", "R3 STATUS-USE", slp, "solve_lp publishes no status literal of its own (statuses come from _phase1 / _phase2)", not lits, f"`{ast.unparse(lits[0].call)[:70]}`: a verdict decided before the phases ran skips the feasibility phase - an infeasible LP with an unlimited improving variable is called UNBOUNDED" if lits else "", node=lits[0].call if lits else slp.node)
    ctx.step(_need, "C03-O7", "R16 PAIRED-EFFECTS", slp, "the tableau gets one slack column per row and the right-hand side last; phase 1 runs exactly when some right-hand side is negative, and phase 2 follows with the remaining budget", ["row = array('d', A[i])\n        row.extend([0.0] * m)\n        row[n + i] = 1.0\n        row.append(b[i])\n        matrix.append(row)", "obj = array('d', weights)\n    obj.extend([0.0] * (m + 1))\n    matrix.append(obj)", "basis = array('i', range(n, n + m))", "if any((matrix[i][-1] < -eps for i in range(m))):\n        status, iters, matrix, basis, basis_set = _phase1(matrix, basis, basis_set, m, n, eps, max_iter)", "max_iter -= iters", "status, iters2, matrix, basis, basis_set = _phase2(matrix, basis, basis_set, m, eps, max_iter)\n    return _extract(matrix, basis, m, n, status, iters + iters2, minimize)", "weights = list(c) if minimize else [-ci for ci in c]"])
    p1 = ctx.func("simplex", "_phase1")
    ctx.step(_need, "C03-O7", "R16 PAIRED-EFFECTS", p1, "after phase 1 every basic artificial is pivoted out over all structural and slack columns (every column that is not artificial), with its basis label", ["n_cols = len(matrix[0])\n    for i in range(m):\n        if basis[i] in art_cols:\n            for j in range(n_cols - 1 - len(art_cols)):\n                if j not in basis_set and abs(matrix[i][j]) > eps:\n                    matrix = _pivot(matrix, m, i, j, eps)\n                    basis_set.discard(basis[i])\n                    basis[i] = j\n                    basis_set.add(j)\n                    break"], "a scan that stops short of the last non-artificial column leaves an artificial basic; it is deleted with its column and phase 2 lets it grow")
    ctx.step(_need, "C03-O7", "R16 PAIRED-EFFECTS", p1, "the artificial objective is the sum of the artificial rows; afterwards the artificial columns are removed and the original objective is restored and priced out against the basis", ["for col in art_cols:\n        matrix[-1][col] = 1.0", "for i in range(m):\n        if basis[i] in art_cols:\n            for j in range(n_cols):\n                matrix[-1][j] -= matrix[i][j]", "for _ in art_cols:\n        for row in matrix:\n            del row[-2]", "matrix[-1] = orig_obj", "var = basis[i]\n        if var < n_cols - 1:\n            cost = matrix[-1][var]\n            if abs(cost) > eps:\n                for j in range(n_cols):\n                    matrix[-1][j] -= cost * matrix[i][j]"])
    ctx.step(_need, "C03-O7", "R16 PAIRED-EFFECTS", p1, "a row with a negative right-hand side is negated as a whole, every row grows by one artificial column before the right-hand side, the column has a unit entry in that row and becomes the row's basic variable (label and set together); the phase-1 objective row starts from zero", ["if matrix[i][-1] < -eps:\n            row_len = len(matrix[i])\n            for j in range(row_len):\n                matrix[i][j] *= -1\n            art_col = n_total + len(art_cols)\n            for row in matrix:\n                row.insert(-1, 0.0)\n            matrix[i][-2] = 1.0\n            basis_set.discard(basis[i])\n            basis[i] = art_col\n            basis_set.add(art_col)\n            art_cols.append(art_col)", "n_cols = len(matrix[0])\n    matrix[-1] = array('d', [0.0] * n_cols)", "orig_obj = array('d', matrix[-1])", "matrix[-1] = orig_obj\n    n_cols = len(matrix[0])"], "a missing unit entry or basis label leaves phase 1 without a starting basis: its verdict is about another system")
    ex = ctx.func("simplex", "_extract")
    ctx.step(_need, "C03-O7", "R5 PAIRING", ex, "the point is read off the basic rows of the structural variables; the objective is the negated corner cell, mirrored back for maximisation", ["solution = [0.0] * n", "for i in range(m):\n        if basis[i] < n:\n            solution[basis[i]] = matrix[i][-1]", "obj = -matrix[-1][-1]\n    if not minimize:\n        obj = -obj", "return Result(tuple(solution), obj, iters, iters, status)"])
    ipf = ctx.func("interior_point", "solve_lp_interior")
    ctx.step(_need, "C03-O3", "R16 PAIRED-EFFECTS", ipf, "the residuals that license OPTIMAL / FEASIBLE are those of the system [A | I](x, s) = b with the extended cost vector: every row gets its own unit slack entry and is appended", ["for i in range(m):\n        row = list(A[i]) + [0.0] * m\n        row[n + i] = 1.0\n        A_aug.append(row)", "c_ext = obj + [0.0] * m\n    n_total = n + m", "rb = [sum((A_aug[i][j] * x[j] for j in range(n_total))) - b[i] for i in range(m)]", "rc = [sum((A_aug[i][j] * y[i] for i in range(m))) + z[j] - c_ext[j] for j in range(n_total)]"], "a slack entry that is missing turns `<=` rows into equalities (or drops the row): the convergence tests then certify a point of another LP")
    sl = ctx.func("interior_point", "_step_length")
    tsl = ast.unparse(sl.node)
    ctx.ob("C03-O3", "R18 table", sl, "step length = min(1, min over decreasing components of -v/dv), never negative (iterates stay non-negative)", "alpha = 1.0" in tsl and "if dv[j] < -1e-12:\n            alpha = min(alpha, -v[j] / dv[j])" in tsl and "return max(0.0, alpha)" in tsl and "for j in range(n):" in tsl, "", node=sl.node)
    ctx.step(check_pivot_thresholds)
    ctx.step(check_sign_units, "simplex", "solve_lp", ["_extract"])
    ctx.step(check_sign_units, "interior_point", "solve_lp_interior", [])
    generic_sweeps(ctx)


def check_status_use(ctx: Ctx, modules=("simplex", "interior_point")):
    """R3: tuple-unpacked status from a status-returning callee must be read."""
    n_sites = 0
    for mn in modules:
        m = ctx.repo.module(mn)
        for q in sorted(m.funcs):
            f = m.funcs[q]
            for n in own_nodes(f.node):
                if isinstance(n, ast.Assign) and isinstance(n.value, ast.Call) and isinstance(n.targets[0], ast.Tuple):
                    g = ctx.repo.resolve_call(f, n.value)
                    if g is None:
                        continue
                    for i, el in enumerate(n.targets[0].elts):
                        sts = tuple_return_statuses(ctx.repo, g, i)
                        if not sts or sts == {"?"}:
                            continue
                        n_sites += 1
                        ctx.touch(g)
                        if not isinstance(el, ast.Name):
                            continue
                        cfg = cfg_of(f.node)
                        an = cfg.node_of(n)
                        fw = cfg.forward(an)
                        read = False
                        for ld in loads_of(f.node, el.id):
                            sn = cfg.stmt_node_containing(ld)
                            if sn is not None and sn.id in fw:
                                read = True
                        ctx.ob("C03-O1", "R3 STATUS-USE", f, f"status returned by {g.qualname}() at position {i} is read", read, f"`{el.id}` holds {sorted(sts)} and is never read: a non-OPTIMAL outcome of {g.qualname} is lost", node=n)
    ctx.floor("status-returning call sites (tuple)", n_sites, 3)


def check_simplex_verdicts(ctx: Ctx):
    repo = ctx.repo
    f = ctx.func("simplex", "solve_lp")
    p1 = ctx.func("simplex", "_phase1")
    p2 = ctx.func("simplex", "_phase2")
    ex = ctx.func("simplex", "_extract")
    cfg = cfg_of(f.node)
    gv = GuardView(cfg)
    s1 = tuple_return_statuses(repo, p1, 0)
    s2 = tuple_return_statuses(repo, p2, 0)
    ctx.ob("C03-O2", "R1 STATUS-GUARD", p2, "iteration summary: _phase2 can return OPTIMAL, UNBOUNDED, MAX_ITER", s2 == {"OPTIMAL", "UNBOUNDED", "MAX_ITER"}, f"{sorted(s2)}", node=p2.node)
    ctx.ob("C03-O2", "R2 BUDGET-EXIT", p1, "phase-1 summary includes MAX_ITER (budget exit of the inner run is propagated)", "MAX_ITER" in s1, f"_phase1 returns {sorted(s1)} while its inner _phase2 returns {sorted(s2)}", node=p1.node)
    sites = result_sites(f)
    ctx.floor("Result sites in solve_lp", len(sites), 1)
    for k, s in enumerate(sites):
        at = gv.guard_atoms(s.node)
        st = s.arg("status")
        if st is not None and is_status(st) == "INFEASIBLE":
            # literal INFEASIBLE: phase-1 statuses compatible with the guards must be exactly {INFEASIBLE}
            var = _phase1_status_var(f)
            possible = set(s1)
            for a in at:
                for name in list(possible):
                    if a == atom_of(f"{var} != Status.{name}"):
                        possible.discard(name)
                    if a == atom_of(f"{var} == Status.{name}"):
                        possible = {name} & possible
            ctx.ob("C03-O2", "R1 STATUS-GUARD", f, f"Result#{k} literal INFEASIBLE only when phase 1 said INFEASIBLE", possible <= {"INFEASIBLE"}, f"under guards {sorted(a for a in at if var in a)} phase 1 may have returned {sorted(possible)}", node=s.call)
        elif st is not None and isinstance(st, ast.Name):
            ctx.ob("C03-O2", "R1 STATUS-GUARD", f, f"Result#{k} forwards the phase-1 status", st.id == _phase1_status_var(f), "", node=s.call)
            fw = _possible(gv.guard_atoms(s.node, stable_only=False), st.id, s1)
            ctx.ob("C03-O2", "R1 STATUS-GUARD", f, f"Result#{k} forwards every phase-1 outcome except OPTIMAL, and only those (phase 2 runs exactly after a successful phase 1)", fw == set(s1) - {"OPTIMAL"}, f"forwarded under its guards: {sorted(fw)}; phase 1 returns {sorted(s1)}", node=s.call)
    # phase 1: INFEASIBLE return under artificial objective test and after the inner status was examined
    c1 = cfg_of(p1.node)
    g1 = GuardView(c1)
    inner = None
    for n in own_nodes(p1.node):
        if isinstance(n, ast.Assign) and isinstance(n.value, ast.Call) and repo.resolve_call(p1, n.value) is p2 and isinstance(n.targets[0], ast.Tuple):
            inner = n
    ctx.require(inner is not None, "_phase1 no longer calls _phase2 with tuple unpacking")
    svar = inner.targets[0].elts[0].id
    n_inf = 0
    for n in own_nodes(p1.node):
        if isinstance(n, ast.Return) and isinstance(n.value, ast.Tuple) and is_status(n.value.elts[0]) == "INFEASIBLE":
            n_inf += 1
            rn = c1.node_of(n)
            at = g1.guard_atoms(rn)
            art = any(a.startswith("matrix[-1][-1]") and " < " in a for a in at)
            examined = any(svar in a for a in at)
            ctx.ob("C03-O2", "R1 STATUS-GUARD", p1, "phase-1 INFEASIBLE under 'artificial objective still positive'", art, f"guards {sorted(at)}", node=n)
            ctx.ob("C03-O2", "R2 BUDGET-EXIT", p1, "phase-1 INFEASIBLE not reachable from an iteration-limited inner run", examined, f"guards {sorted(at)} do not mention the inner status `{svar}`", node=n)
            ctx.step(_infeasible_threshold_scaled, p1, c1, inner, n)
    ctx.floor("phase-1 INFEASIBLE returns", n_inf, 1)
    inf_false = set()
    for n in own_nodes(p1.node):
        if isinstance(n, ast.Return) and isinstance(n.value, ast.Tuple) and is_status(n.value.elts[0]) == "INFEASIBLE":
            for gd in c1.guards(c1.node_of(n)):
                t = gd.test.ast if gd.test is not None else None
                if t is not None and any(_corner(x) for x in ast.walk(t)):
                    inf_false |= _atoms(t, not gd.pol)
    for n in own_nodes(p1.node):
        if isinstance(n, ast.Return) and isinstance(n.value, ast.Tuple) and is_status(n.value.elts[0]) in ("MAX_ITER", "OPTIMAL"):
            lit = is_status(n.value.elts[0])
            rn = c1.node_of(n)
            at = g1.guard_atoms(rn, stable_only=False)
            after_inner = c1.dominates(c1.node_of(inner), rn)
            if lit == "MAX_ITER":
                ctx.ob("C03-O2", "R2 BUDGET-EXIT", p1, "phase-1 MAX_ITER only when the inner run said MAX_ITER", after_inner and _possible(at, svar, s2) == {"MAX_ITER"}, f"guards {sorted(a for a in at if svar in a)}", node=n)
            elif not after_inner:
                ctx.ob("C03-O2", "R1 STATUS-GUARD", p1, "phase 1 answers OPTIMAL without pivoting only when no artificial column was needed", "F:art_cols" in at, f"guards {sorted(at)}", node=n)
            else:
                ctx.ob("C03-O2", "R1 STATUS-GUARD", p1, "phase-1 OPTIMAL after the inner run only when that run neither hit its budget nor left the artificial objective positive", "MAX_ITER" not in _possible(at, svar, s2) and bool(inf_false) and inf_false <= at, f"guards {sorted(at)}; negation of the INFEASIBLE test: {sorted(inf_false)}", node=n)
    # _phase2: MAX_ITER only after the loop; OPTIMAL under 'no entering column'; UNBOUNDED under 'no leaving row'
    c2 = cfg_of(p2.node)
    g2 = GuardView(c2)
    for n in own_nodes(p2.node):
        if isinstance(n, ast.Return) and isinstance(n.value, ast.Tuple):
            st = is_status(n.value.elts[0])
            rn = c2.node_of(n)
            at = g2.guard_atoms(rn)
            if st == "MAX_ITER":
                ctx.ob("C03-O2", "R2 BUDGET-EXIT", p2, "MAX_ITER returned only when the iteration loop is exhausted", any(a.startswith("AFTER-LOOP:range(max_iter)") for a in at) and rn.loop is None, f"{sorted(at)}", node=n)
            elif st == "OPTIMAL":
                ctx.ob("C03-O2", "R1 STATUS-GUARD", p2, "OPTIMAL only when no entering column was found", atom_of("enter == -1") in at, f"{sorted(at)}", node=n)
            elif st == "UNBOUNDED":
                ctx.ob("C03-O2", "R1 STATUS-GUARD", p2, "UNBOUNDED only when an entering column has no leaving row", atom_of("leave == -1") in at and atom_of("enter != -1") in at, f"{sorted(at)}", node=n)
    # _extract forwards the status it is given
    for s in result_sites(ex):
        st = s.arg("status")
        ctx.ob("C03-O2", "R1 STATUS-GUARD", ex, "_extract publishes the status parameter unchanged", isinstance(st, ast.Name) and st.id in ex.params, "", node=s.call)
    # the status handed to _extract is the one of the final _phase2 run
    for n in own_nodes(f.node):
        if isinstance(n, ast.Call) and repo.resolve_call(f, n) is ex:
            pos = ex.params.index("status") if "status" in ex.params else -1
            ctx.require(pos >= 0, "_extract has no status parameter")
            a = n.args[pos]
            src = None
            for x in own_nodes(f.node):
                if isinstance(x, ast.Assign) and isinstance(x.targets[0], ast.Tuple) and isinstance(x.value, ast.Call) and repo.resolve_call(f, x.value) is p2:
                    src = x.targets[0].elts[0].id
            ctx.ob("C03-O2", "R5 PAIRING", f, "status handed to _extract is the status of the final phase-2 run", isinstance(a, ast.Name) and a.id == src, "", node=n)


def check_pivot_thresholds(ctx: Ctx):
    """The ratio test may only pick a row the pivot routine will actually pivot on: _pivot() silently skips an element
    below eps while the caller still relabels the basis, so the row candidates must clear the same threshold."""
    p2 = ctx.func("simplex", "_phase2")
    pv = ctx.func("simplex", "_pivot")
    skip = [n for n in own_nodes(pv.node) if isinstance(n, ast.If) and "pivot_val" in ast.unparse(n.test) and any(isinstance(x, ast.Return) for x in n.body)]
    ctx.require(len(skip) == 1, "pivot-skip guard not found in _pivot")
    st = skip[0].test
    thr = ast.unparse(st.comparators[0]) if isinstance(st, ast.Compare) else "?"
    cands = [n for n in own_nodes(p2.node) if isinstance(n, ast.If) and ast.unparse(n.test).startswith("matrix[i][enter] >")]
    ctx.require(len(cands) == 1, "ratio-test candidate condition not found in _phase2")
    ct = cands[0].test
    ok = isinstance(ct, ast.Compare) and isinstance(ct.ops[0], ast.Gt) and ast.unparse(ct.comparators[0]) == thr and ast.unparse(st) == f"abs(pivot_val) < {thr}"
    ctx.ob("C03-O5", "R18 SIBLING-AGREEMENT (expression)", p2, "ratio-test candidates clear the threshold below which _pivot skips the pivot", ok, f"candidates `{ast.unparse(ct)}` vs skip `{ast.unparse(st)}`: an element in between is chosen, not pivoted, and the basis is relabelled anyway - the entering column's negative reduced cost is never looked at again", node=cands[0])
    ent = [n for n in own_nodes(p2.node) if isinstance(n, ast.If) and "matrix[-1][j]" in ast.unparse(n.test)]
    ok2 = len(ent) == 1 and "matrix[-1][j] < -eps" in ast.unparse(ent[0].test) and "j not in basis_set" in ast.unparse(ent[0].test)
    ctx.ob("C03-O5", "R18 SIBLING-AGREEMENT (expression)", p2, "entering column: smallest non-basic index with reduced cost below -eps (Bland)", ok2 and "for j in range(n_cols - 1)" in ast.unparse(p2.node), "", node=p2.node)
    t = ast.unparse(p2.node)
    ctx.ob("C03-O5", "R16 PAIRED-EFFECTS", p2, "after the pivot the basis bookkeeping is updated for exactly the pivoted row and column", "matrix = _pivot(matrix, m, leave, enter, eps)" in t and "basis_set.discard(basis[leave])" in t and "basis[leave] = enter" in t and "basis_set.add(enter)" in t, "", node=p2.node)


def _possible(at, var, universe):
    """Statuses `var` can still hold under the guard atoms `at` (==, !=, in, not in over Status members)."""
    import re

    possible = set(universe)
    for a in at:
        names = set(re.findall(r"Status\.([A-Z_]+)", a))
        if not names or not re.search(rf"(?<![\w.]){re.escape(var)}(?![\w.])", a):
            continue
        if " not in " in a or " != " in a:
            possible -= names
        elif " in " in a or " == " in a:
            possible &= names
    return possible


def _phase1_status_var(f) -> str:
    for n in own_nodes(f.node):
        if isinstance(n, ast.Assign) and isinstance(n.value, ast.Call) and isinstance(n.value.func, ast.Name) and n.value.func.id == "_phase1" and isinstance(n.targets[0], ast.Tuple):
            return n.targets[0].elts[0].id
    return "status"


def _def_closure(fn_node, name: str, levels: int = 2) -> set[str]:
    """names reachable backwards through at most `levels` assignment steps from `name` (kept shallow on purpose:
    inside the iteration loop every vector eventually depends on every other)"""
    seen = {name}
    frontier = {name}
    for _ in range(levels):
        nxt = set()
        for nm in frontier:
            for n in own_nodes(fn_node):
                val = None
                if isinstance(n, ast.Assign):
                    for t in n.targets:
                        if isinstance(t, ast.Name) and t.id == nm:
                            val = n.value
                if val is not None:
                    nxt |= names_in(val) - seen
        seen |= nxt
        frontier = nxt
    return seen


def check_no_raising_float_ops(ctx: Ctx):
    """'does not crash on infeasible or unbounded input': the iterates of a diverging run reach inf/nan.  Float `*`,
    `+`, `-`, comparisons, `sqrt(inf)`, `sqrt(nan)` then return inf/nan - but `x ** k` raises OverflowError, `/ 0.0`
    raises ZeroDivisionError and `sqrt(negative)` raises ValueError.  Every power, divisor and sqrt argument of
    interior_point.py must be of a shape that cannot raise."""
    m = ctx.repo.module("interior_point")
    n_pow = n_div = n_sqrt = 0
    for q in sorted(m.funcs):
        f = m.funcs[q]
        cfg = cfg_of(f.node)
        gv = GuardView(cfg)
        for n in own_nodes(f.node):
            if isinstance(n, ast.BinOp) and isinstance(n.op, ast.Pow) and not isinstance(n.left, ast.Constant):
                n_pow += 1
                ctx.ob("C03-O6", "R35 NO-RAISING-FLOAT-OP", f, "no float power (a square is written as a product)", False, f"`{ast.unparse(n)[:60]}` raises OverflowError once the operand exceeds about 1e154 (a product returns inf): diverged iterates of an infeasible or unbounded LP make the call crash instead of returning a status", node=n)
            if isinstance(n, ast.BinOp) and isinstance(n.op, (ast.Div, ast.FloorDiv, ast.Mod)):
                n_div += 1
                d = n.right
                ok = False
                why = ""
                if isinstance(d, ast.Constant) and d.value not in (0, 0.0):
                    ok = True
                elif isinstance(d, ast.Call) and ast.unparse(d.func) == "max" and any((isinstance(a, ast.Name) and a.id == "eps") or (isinstance(a, ast.Constant) and isinstance(a.value, (int, float)) and a.value > 0) for a in d.args):
                    ok = True
                elif isinstance(d, ast.Name) and d.id == "n_total":
                    # n_total = n + m with the `m == 0 or n == 0` early return before it
                    defs = [x for x in own_nodes(f.node) if isinstance(x, ast.Assign) and ast.unparse(x.targets[0]) == "n_total"]
                    ok = len(defs) == 1 and ast.unparse(defs[0].value) in ("n + m", "m + n") and any(a.startswith("NAND(") or a in (atom_of("m != 0"), atom_of("n != 0")) or "0 == m" in a or "0 != m" in a for a in gv.guard_atoms(cfg.node_of(defs[0]), stable_only=False))
                    why = "n_total = n + m behind the empty-problem early return"
                else:
                    at = gv.guard_atoms(cfg.stmt_node_containing(n), stable_only=False)
                    dt = ast.unparse(d)
                    for a in at:
                        for cst in ("1e-12", "-1e-12", "eps"):
                            if a in (atom_of(f"{dt} > {cst}"), atom_of(f"{dt} < {cst}")) and not (cst == "eps" and a == atom_of(f"{dt} < eps")):
                                ok = True
                ctx.ob("C03-O6", "R35 NO-RAISING-FLOAT-OP", f, f"divisor `{ast.unparse(d)[:40]}` is bounded away from zero (max(.., eps), non-zero constant, or a dominating strict comparison)", ok, why or "a zero divisor raises ZeroDivisionError", node=n)
            if isinstance(n, ast.Call) and ast.unparse(n.func) in ("sqrt", "math.sqrt") and n.args:
                n_sqrt += 1
                a = n.args[0]
                ok = False
                if isinstance(a, ast.Call) and ast.unparse(a.func) == "sum" and a.args and isinstance(a.args[0], ast.GeneratorExp):
                    e = a.args[0].elt
                    ok = isinstance(e, ast.BinOp) and ((isinstance(e.op, ast.Mult) and ast.unparse(e.left) == ast.unparse(e.right)) or (isinstance(e.op, ast.Pow) and ast.unparse(e.right) == "2"))
                elif isinstance(a, ast.Name):
                    blk = _block_of(f.node, cfg.stmt_node_containing(n).ast)
                    i = blk.index(cfg.stmt_node_containing(n).ast) if blk and cfg.stmt_node_containing(n).ast in blk else -1
                    prev = blk[i - 1] if i > 0 else None
                    ok = isinstance(prev, ast.If) and ast.unparse(prev.test) in (f"{a.id} <= 0", f"{a.id} <= 0.0") and any(isinstance(x, ast.Assign) and ast.unparse(x.targets[0]) == a.id and ast.unparse(x.value) == "eps" for x in prev.body)
                ctx.ob("C03-O6", "R35 NO-RAISING-FLOAT-OP", f, f"sqrt argument `{ast.unparse(a)[:40]}` cannot be negative (sum of squares, or clamped to eps just before)", ok, "sqrt of a negative number raises ValueError", node=n)
    # library calls that raise on inf / nan operands where plain float arithmetic would carry them along
    raising = {"fsum": "ValueError on inf - inf, OverflowError on an overflowing partial sum", "exp": "OverflowError", "expm1": "OverflowError", "log": "ValueError on 0, negative or nan", "log1p": "ValueError", "log2": "ValueError", "log10": "ValueError", "pow": "OverflowError / ValueError", "int": "OverflowError on inf, ValueError on nan", "round": "OverflowError on inf, ValueError on nan", "floor": "OverflowError / ValueError", "ceil": "OverflowError / ValueError", "trunc": "OverflowError / ValueError", "isqrt": "ValueError", "Fraction": "OverflowError / ValueError", "Decimal": "signals on nan comparisons", "divmod": "ZeroDivisionError / nan", "fmod": "ValueError on inf", "remainder": "ValueError on inf", "cosh": "OverflowError", "sinh": "OverflowError", "ldexp": "OverflowError", "gamma": "OverflowError / ValueError", "lgamma": "ValueError", "acos": "ValueError", "asin": "ValueError", "mean": "raises on nan / inf mixtures", "fmean": "raises on inf - inf"}
    for q in sorted(m.funcs):
        f = m.funcs[q]
        for n in own_nodes(f.node):
            if isinstance(n, ast.Call):
                nm = n.func.id if isinstance(n.func, ast.Name) else (n.func.attr if isinstance(n.func, ast.Attribute) and isinstance(n.func.value, ast.Name) and n.func.value.id in ("math", "statistics", "fractions", "decimal") else None)
                if nm in raising and n.args and not all(isinstance(a, ast.Constant) or (isinstance(a, ast.Call) and ast.unparse(a.func) == "len") for a in n.args) and not (nm == "round" and len(n.args) == 2):
                    ctx.ob("C03-O6", "R35 NO-RAISING-FLOAT-OP", f, f"no call of `{nm}` on values the iteration computes", False, f"`{ast.unparse(n)[:60]}`: {raising[nm]} - the iterates of an infeasible or unbounded LP reach inf / nan, where sum(), *, + and comparisons carry on and this call raises: the solver crashes instead of returning a status", node=n)
    ctx.floor("divisions in interior_point.py", n_div, 8)
    ctx.floor("sqrt calls in interior_point.py", n_sqrt, 3)
    ctx.ob("C03-O6", "R35 NO-RAISING-FLOAT-OP", None, "interior_point.py contains no float power", n_pow == 0, "", rel=m.rel, fname="<module>")


def _block_of(fn_node, stmt):
    for n in ast.walk(fn_node):
        for fld in ("body", "orelse", "finalbody"):
            b = getattr(n, fld, None)
            if isinstance(b, list) and stmt in b:
                return b
    return None


def check_interior(ctx: Ctx):
    f = ctx.func("interior_point", "solve_lp_interior")
    cfg = cfg_of(f.node)
    gv = GuardView(cfg)
    sites = result_sites(f)
    ctx.floor("Result sites in solve_lp_interior", len(sites), 4)
    n_opt = 0
    for k, s in enumerate(sites):
        at = gv.guard_atoms(s.node)
        sts = s.statuses
        st_arg = s.arg("status")
        ctx.ob("C03-O3", "R3 STATUS-USE", f, f"Result#{k} states its verdict as a literal of this routine (decided by the residual tests around it)", st_arg is None or is_status(st_arg) is not None, f"status `{ast.unparse(st_arg) if st_arg is not None else ''}` comes from elsewhere (a sub-problem, a helper): the convergence tests of this routine say nothing about the LP the caller posed", node=s.call)
        if "OPTIMAL" in sts:
            trivial = any(a.startswith("OR(") and "0 == m" in a and "0 == n" in a for a in at) or atom_of("m == 0") in at or atom_of("n == 0") in at
            if trivial:
                ctx.ob("C03-O3", "R1 STATUS-GUARD", f, f"Result#{k} OPTIMAL for a problem without variables only when no right-hand side is negative", "F:any((bi < 0 for bi in b))" in gv.guard_atoms(s.node, stable_only=False), "the left-hand sides of a variable-free LP are 0: with a negative right-hand side it is infeasible, and OPTIMAL would be given for a point that violates a constraint", node=s.call)
                continue
            n_opt += 1
            in_loop = s.node.loop is not None
            ctx.ob("C03-O3", "R2 BUDGET-EXIT", f, f"Result#{k} OPTIMAL is inside the iteration loop (never after budget exhaustion)", in_loop, "", node=s.call)
            # three atoms `v < eps` whose v descend from primal residual / dual residual / gap
            conv = {}
            for a in at:
                parts = a.split(" < ")
                if len(parts) == 2 and parts[1] == "eps":
                    conv[parts[0]] = _def_closure(f.node, parts[0])
            has_primal = any({"b", "x"} <= c and ("A_aug" in c or "A" in c) for c in conv.values())
            has_dual = any({"y", "z"} <= c and ("c_ext" in c or "obj" in c) for v, c in conv.items() if not ({"b"} <= c))
            has_gap = any({"x", "z"} <= c and "b" not in c and "y" not in c for c in conv.values())
            ctx.ob("C03-O3", "R1 STATUS-GUARD", f, f"Result#{k} OPTIMAL dominated by primal-residual < eps", has_primal, f"convergence atoms {sorted(conv)}", node=s.call)
            ctx.ob("C03-O3", "R1 STATUS-GUARD", f, f"Result#{k} OPTIMAL dominated by dual-residual < eps", has_dual, f"convergence atoms {sorted(conv)}", node=s.call)
            ctx.ob("C03-O3", "R1 STATUS-GUARD", f, f"Result#{k} OPTIMAL dominated by complementarity gap < eps", has_gap, f"convergence atoms {sorted(conv)}", node=s.call)
        if "FEASIBLE" in sts:
            tol_ok = False
            at_f = set(at)
            st_e = s.arg("status")
            if isinstance(st_e, ast.Name):
                dd = [d.value for d in own_nodes(f.node) if isinstance(d, ast.Assign) and ast.unparse(d.targets[0]) == st_e.id]
                st_e = dd[0] if len(dd) == 1 else st_e
            if isinstance(st_e, ast.IfExp):
                # status chosen by a conditional expression: FEASIBLE holds under the polarity of its own branch
                if ast.unparse(st_e.body) == "Status.FEASIBLE":
                    at_f |= _atoms(st_e.test, True)
                elif ast.unparse(st_e.orelse) == "Status.FEASIBLE":
                    at_f |= _atoms(st_e.test, False)
            for a in at_f:
                parts = a.split(" < ")
                if len(parts) == 2:
                    try:
                        tol = float(parts[1])
                    except ValueError:
                        continue
                    c = _def_closure(f.node, parts[0])
                    if tol <= 0.01 and {"b", "x"} <= c and ("A_aug" in c or "A" in c):
                        tol_ok = True
            ctx.ob("C03-O3", "R1 STATUS-GUARD", f, f"Result#{k} FEASIBLE dominated by primal residual < literal tolerance <= 0.01", tol_ok, f"guards {sorted(at)}", node=s.call)
        # pairing: solution and objective are computed from the same vector
        sol, obj = s.arg("solution"), s.arg("objective")
        if isinstance(sol, ast.Name) and isinstance(obj, ast.Name):
            sol_def = _last_def_before(f, cfg, sol.id, s.node)
            obj_def = _last_def_before(f, cfg, obj.id, s.node, skip_self_negation=True)
            if sol_def is not None and obj_def is not None:
                sd, od = ast.unparse(sol_def), ast.unparse(obj_def)
                same_vec = ("x[j]" in sd and "x[j]" in od) or (f"{sol.id}[j]" in od)
                ctx.ob("C03-O3", "R5 PAIRING", f, f"Result#{k} objective is the cost of the returned point", same_vec and "obj[j]" in od, f"solution `{sd[:50]}` objective `{od[:50]}`", node=s.call)
    ctx.floor("non-trivial OPTIMAL sites in solve_lp_interior", n_opt, 1)


def _last_def_before(f, cfg, name: str, node, skip_self_negation=False):
    best = None
    for n in own_nodes(f.node):
        if isinstance(n, ast.Assign) and isinstance(n.targets[0], ast.Name) and n.targets[0].id == name:
            if skip_self_negation and isinstance(n.value, ast.UnaryOp) and isinstance(n.value.operand, ast.Name) and n.value.operand.id == name:
                continue
            dn = cfg.node_of(n)
            if dn is not None and cfg.dominates(dn, node):
                if best is None or cfg.dominates(cfg.node_of(best), dn):
                    best = n
    return best.value if best is not None else None


# ---------------------------------------------------------------------------------------------
# R4 sign units (function-level form)
# ---------------------------------------------------------------------------------------------


def _minimize_test_polarity(test: ast.AST, param: str = "minimize"):
    """True if the test holds when minimize is true, False if it holds when minimize is false, None otherwise."""
    if isinstance(test, ast.Name) and test.id == param:
        return True
    if isinstance(test, ast.UnaryOp) and isinstance(test.op, ast.Not) and isinstance(test.operand, ast.Name) and test.operand.id == param:
        return False
    return None


def _is_negation_of(e: ast.AST, base: str | None = None) -> bool:
    if isinstance(e, ast.UnaryOp) and isinstance(e.op, ast.USub):
        return base is None or ast.unparse(e.operand) == base
    if isinstance(e, (ast.ListComp, ast.GeneratorExp)):
        return isinstance(e.elt, ast.UnaryOp) and isinstance(e.elt.op, ast.USub)
    if isinstance(e, ast.Call) and e.args and isinstance(e.func, ast.Name) and e.func.id in ("list", "tuple"):
        return _is_negation_of(e.args[0], base)
    return False


def cost_flips(fn_node, param="minimize"):
    """[(node, negated_when_minimize_is)] for `A if minimize else -A` style selections."""
    out = []
    for n in own_nodes(fn_node):
        if isinstance(n, ast.IfExp):
            pol = _minimize_test_polarity(n.test, param)
            if pol is None:
                continue
            nb, no = _is_negation_of(n.body), _is_negation_of(n.orelse)
            if nb != no:
                out.append((n, pol if nb else (not pol)))
    return out


def objective_flips(fn_node, var: str, param="minimize"):
    """[(If node, negated_when_minimize_is)] for `if not minimize: var = -var`."""
    out = []
    for n in own_nodes(fn_node):
        if isinstance(n, ast.If) and not n.orelse:
            pol = _minimize_test_polarity(n.test, param)
            if pol is None:
                continue
            if len(n.body) == 1 and isinstance(n.body[0], ast.Assign) and isinstance(n.body[0].targets[0], ast.Name) and n.body[0].targets[0].id == var and _is_negation_of(n.body[0].value, var):
                out.append((n, pol))
    return out


def check_sign_units(ctx: Ctx, module: str, api: str, helpers: list[str]):
    f = ctx.func(module, api)
    flips = cost_flips(f.node)
    cost_pol = {p for _, p in flips}
    ctx.ob("C03-O4", "R4 SIGN-UNIT", f, "cost vector negated exactly when minimize is false", cost_pol == {False}, f"{len(flips)} minimize-selected negation(s), negated when minimize is {sorted(cost_pol)}", node=f.node)
    n_pub = 0
    for g in [f] + [ctx.func(module, h) for h in helpers]:
        if "minimize" not in g.params:
            ctx.ob("C03-O4", "R4 SIGN-UNIT", g, "publishing function receives `minimize`", False, "", node=g.node)
            continue
        cfg = cfg_of(g.node)
        for k, s in enumerate(result_sites(g)):
            obj = s.arg("objective")
            if not isinstance(obj, ast.Name):
                continue  # constants (inf / 0.0) carry no unit
            n_pub += 1
            ofl = [(n, p) for n, p in objective_flips(g.node, obj.id) if cfg.dominates(cfg.node_of(n.body[0]).test if False else cfg.stmt_node_containing(n.test), s.node)]
            # no re-definition of the objective between the flip and the publication
            ok = len(ofl) == 1 and ofl[0][1] is False
            if ok:
                flip_node = cfg.node_of(ofl[0][0].body[0])
                between = cfg.forward(flip_node) & cfg.backward(s.node)
                for i in between:
                    n = cfg.nodes[i]
                    if n.ast is not None and n.kind == "stmt" and isinstance(n.ast, ast.Assign) and any(isinstance(t, ast.Name) and t.id == obj.id for t in n.ast.targets) and n is not flip_node:
                        ok = False
            ctx.ob("C03-O4", "R4 SIGN-UNIT", g, f"Result#{k} objective `{obj.id}` negated back exactly when minimize is false", ok, f"{len(ofl)} dominating flip(s) with polarity {[p for _, p in ofl]}", node=s.call)
    ctx.floor(f"published objectives in {api}", n_pub, 1)
    # helpers receive the caller's minimize unchanged
    for h in helpers:
        g = ctx.func(module, h)
        for n in own_nodes(f.node):
            if isinstance(n, ast.Call) and ctx.repo.resolve_call(f, n) is g:
                pos = g.params.index("minimize")
                a = n.args[pos] if pos < len(n.args) else next((k.value for k in n.keywords if k.arg == "minimize"), None)
                ctx.ob("C03-O4", "R4 SIGN-UNIT", f, f"{h}() receives the caller's minimize unchanged", isinstance(a, ast.Name) and a.id == "minimize", "", node=n)


# ---------------------------------------------------------------------------------------------
from sa import mutate as M  # noqa: E402

SX, IP = "solvor/simplex.py", "solvor/interior_point.py"


def _v_status_dropped(tree):
    g = M.find_func(tree, "_phase1")
    M.replace_stmt(g, lambda s: isinstance(s, ast.If) and M.src_is(s.test, "status == Status.MAX_ITER"), [])


def _v_literal_infeasible(tree):
    f = M.find_func(tree, "solve_lp")
    M.replace_expr(f, lambda e: isinstance(e, ast.Call) and M.src_has(e, "float('inf'), iters, iters, status"), lambda e: M.expr(ast.unparse(e).replace("iters, status)", "iters, Status.INFEASIBLE)")))


def _v_maxiter_as_optimal(tree):
    g = M.find_func(tree, "_phase2")
    M.replace_expr(g, lambda e: M.src_is(e, "Status.MAX_ITER"), M.expr("Status.OPTIMAL"))


def _v_no_flip_back(tree):
    g = M.find_func(tree, "_extract")
    M.replace_stmt(g, lambda s: isinstance(s, ast.If) and M.src_is(s.test, "not minimize"), [])


def _v_flip_wrong_way(tree):
    g = M.find_func(tree, "solve_lp_interior")
    M.replace_expr(g, lambda e: isinstance(e, ast.IfExp) and M.src_is(e.test, "minimize"), lambda e: ast.IfExp(test=M.expr("not minimize"), body=e.body, orelse=e.orelse))


def _v_ip_no_dual(tree):
    g = M.find_func(tree, "solve_lp_interior")
    M.replace_expr(g, lambda e: M.src_is(e, "primal_inf < eps and dual_inf < eps and (mu < eps)"), M.expr("primal_inf < eps and mu < eps"))


def _v_ip_optimal_after_loop(tree):
    g = M.find_func(tree, "solve_lp_interior")
    M.replace_expr(g, lambda e: isinstance(e, ast.Call) and M.src_has(e, "max_iter, max_iter, Status.FEASIBLE"), lambda e: M.expr(ast.unparse(e).replace("Status.FEASIBLE", "Status.OPTIMAL")))


def _v_ip_loose_feasible(tree):
    g = M.find_func(tree, "solve_lp_interior")
    M.replace_expr(g, lambda e: M.src_is(e, "primal_inf < 0.01"), M.expr("primal_inf < 1.0"))


def _v_ip_stale_objective(tree):
    g = M.find_func(tree, "solve_lp_interior")
    M.replace_expr(g, lambda e: M.src_is(e, "sum((obj[j] * solution[j] for j in range(n)))"), M.expr("sum((c[j] * y[j] for j in range(n)))"))


def _v_ratio_threshold(tree):
    g = M.find_func(tree, "_phase2")
    M.replace_expr(g, lambda e: M.src_is(e, "matrix[i][enter] > eps"), M.expr("matrix[i][enter] > 0"))


def _v_phase1_absolute_threshold(tree):
    g = M.find_func(tree, "_phase1")
    M.replace_expr(g, lambda e: M.src_is(e, "-eps * max(1.0, infeasibility)"), M.expr("-eps"))


def _v_phase1_ulps_of_scale(tree):
    g = M.find_func(tree, "_phase1")
    M.replace_expr(g, lambda e: M.src_is(e, "-eps * max(1.0, infeasibility)"), M.expr("-max(eps, 64 * 2.220446049250313e-16 * infeasibility)"))


def _t_phase1_factors_reordered(tree):
    g = M.find_func(tree, "_phase1")
    M.replace_expr(g, lambda e: M.src_is(e, "-eps * max(1.0, infeasibility)"), M.expr("-(max(1.0, infeasibility) * eps)"))


def _v_phase1_scale_read_after_run(tree):
    g = M.find_func(tree, "_phase1")
    scale = [s for s in g.body if isinstance(s, ast.Assign) and M.src_is(s.targets[0], "infeasibility")]
    if not scale:
        raise M.Skip("scale assignment not found")
    g.body.remove(scale[0])
    k = [i for i, s in enumerate(g.body) if isinstance(s, ast.If) and M.src_is(s.test, "status == Status.MAX_ITER")]
    if not k:
        raise M.Skip("MAX_ITER test not found")
    g.body.insert(k[0] + 1, scale[0])


def _t_phase1_relative_by_division(tree):
    g = M.find_func(tree, "_phase1")
    M.replace_expr(g, lambda e: isinstance(e, ast.Compare) and M.src_is(e, "matrix[-1][-1] < -eps * max(1.0, infeasibility)"), M.expr("matrix[-1][-1] / max(1.0, infeasibility) < -eps"))


def _v_forward_when_optimal(tree):
    f = M.find_func(tree, "solve_lp")
    M.replace_expr(f, lambda e: isinstance(e, ast.Compare) and M.src_is(e, "status != Status.OPTIMAL"), M.expr("status == Status.OPTIMAL"))


def _v_phase1_maxiter_test_negated(tree):
    g = M.find_func(tree, "_phase1")
    M.replace_expr(g, lambda e: isinstance(e, ast.Compare) and M.src_is(e, "status == Status.MAX_ITER"), M.expr("status != Status.MAX_ITER"))


def _v_phase1_no_unit_entry(tree):
    g = M.find_func(tree, "_phase1")
    M.replace_stmt(g, lambda s: isinstance(s, ast.Assign) and M.src_is(s.targets[0], "matrix[i][-2]"), [])


def _v_phase1_label_without_set(tree):
    g = M.find_func(tree, "_phase1")
    M.replace_stmt(g, lambda s: isinstance(s, ast.Expr) and M.src_is(s.value, "basis_set.add(art_col)"), [])


def _v_ipm_no_slack_entry(tree):
    g = M.find_func(tree, "solve_lp_interior")
    M.replace_stmt(g, lambda s: isinstance(s, ast.Assign) and M.src_is(s.targets[0], "row[n + i]"), [])


def _v_basis_set_unbound(tree):
    f = M.find_func(tree, "solve_lp")
    M.replace_stmt(f, lambda s: isinstance(s, ast.Assign) and M.src_is(s.targets[0], "basis_set"), [])


def _t_forward_by_membership(tree):
    f = M.find_func(tree, "solve_lp")
    M.replace_expr(f, lambda e: isinstance(e, ast.Compare) and M.src_is(e, "status != Status.OPTIMAL"), M.expr("status in (Status.INFEASIBLE, Status.MAX_ITER)"))


def _v_pivot_out_scan_short(tree):
    g = M.find_func(tree, "_phase1")
    M.replace_expr(g, lambda e: M.src_is(e, "range(n_cols - 1 - len(art_cols))"), M.expr("range(n_cols - 1 - m)"))


def _v_unbounded_precheck(tree):
    g = M.find_func(tree, "solve_lp")
    M.replace_stmt(g, lambda s: isinstance(s, ast.Assign) and M.src_is(s.targets[0], "matrix") and M.src_is(s.value, "[]"), lambda s: M.stmts("for j in range(n):\n    if weights[j] < -eps and all(A[i][j] <= eps for i in range(m)):\n        return Result(tuple([0.0] * n), 0.0, 0, 0, Status.UNBOUNDED)") + [s])


def _v_ratio_rows_off_by_one(tree):
    g = M.find_func(tree, "_phase2")
    loops = [n for n in ast.walk(g) if isinstance(n, ast.For) and M.src_is(n.iter, "range(m)")]
    if not loops:
        raise M.Skip("ratio loop not found")
    loops[0].iter = M.expr("range(m - 1)")


def _v_ip_pow(tree):
    g = M.find_func(tree, "solve_lp_interior")
    M.replace_expr(g, lambda e: isinstance(e, ast.BinOp) and M.src_is(e, "r * r"), M.expr("r ** 2"), count=2)


def _v_ip_pow_final(tree):
    g = M.find_func(tree, "solve_lp_interior")
    st = [s for s in g.body if isinstance(s, ast.Assign) and M.src_is(s.targets[0], "primal_inf")]
    if not st:
        raise M.Skip("final residual norm not found")
    st[-1].value = M.expr("sqrt(sum((sum(A_aug[i][j] * x[j] for j in range(n_total)) - b[i]) ** 2 for i in range(m)))")


def _v_ip_divisor_unclamped(tree):
    g = M.find_func(tree, "_solve_newton")
    M.replace_expr(g, lambda e: M.src_is(e, "max(z[j], eps)"), M.expr("z[j]"))


def _v_ip_ratio_unguarded(tree):
    g = M.find_func(tree, "solve_lp_interior")
    M.replace_expr(g, lambda e: M.src_is(e, "mu > 1e-12"), M.expr("mu >= 0"))


def _t_reformat(tree):
    pass


def _t_rename(tree):
    M.rename_local(M.find_func(tree, "_phase1"), "status", "inner_status")
    M.rename_local(M.find_func(tree, "solve_lp"), "status", "st")


def _t_eq_optimal(tree):
    g = M.find_func(tree, "_phase1")
    M.replace_stmt(g, lambda s: isinstance(s, ast.If) and M.src_is(s.test, "status == Status.MAX_ITER"), M.stmts("if status != Status.OPTIMAL:\n    return status, iters, matrix, basis, basis_set"))


def _t_ipm_result_helper(tree):
    g = M.find_func(tree, "solve_lp_interior")
    n = M.replace_expr(g, lambda e: isinstance(e, ast.Call) and M.src_is(e.func, "Result") and M.src_has(e, "Status.OPTIMAL") and M.src_has(e, "iteration"), M.expr("_pack(solution, objective, iteration, Status.OPTIMAL)"))
    if not n:
        raise M.Skip("OPTIMAL publication not found")
    tree.body.append(M.stmts("def _pack(point, value, iters, status):\n    return Result(point, value, iters, iters, status)")[0])


def _v_ipm_result_helper_unsigned_cost(tree):
    g = M.find_func(tree, "solve_lp_interior")
    n = M.replace_stmt(g, lambda s: isinstance(s, ast.Return) and M.src_has(s, "Status.OPTIMAL") and M.src_has(s, "iteration"), M.stmts("return _make(x, c, n, minimize, iteration, Status.OPTIMAL)"))
    if not n:
        raise M.Skip("OPTIMAL publication not found")
    tree.body.append(M.stmts("def _make(x, cost, n, minimize, iters, status):\n    solution = tuple(max(0.0, x[j]) for j in range(n))\n    objective = sum(cost[j] * solution[j] for j in range(n))\n    if not minimize:\n        objective = -objective\n    return Result(solution, objective, iters, iters, status)")[0])


def _v_ipm_no_variables_ignores_b(tree):
    g = M.find_func(tree, "solve_lp_interior")
    M.replace_stmt(g, lambda s: isinstance(s, ast.If) and M.src_has(s.test, "bi < 0"), [])


def _v_ipm_zero_columns_dropped(tree):
    g = M.find_func(tree, "solve_lp_interior")
    k = [i for i, st in enumerate(g.body) if isinstance(st, ast.Assign) and M.src_is(st.targets[0], "obj")]
    if not k:
        raise M.Skip("obj assignment not found")
    g.body[k[0]:k[0]] = M.stmts("used = [j for j in range(n) if any(A[i][j] for i in range(m))]\nif 0 < len(used) < n:\n    sub = solve_lp_interior([c[j] for j in used], [[A[i][j] for j in used] for i in range(m)], b, minimize=minimize, eps=eps, max_iter=max_iter)\n    full = [0.0] * n\n    for j, xj in zip(used, sub.solution):\n        full[j] = xj\n    return Result(tuple(full), sub.objective, sub.iterations, sub.evaluations, sub.status)")


def _v_ipm_refinement_with_fsum(tree):
    g = M.find_func(tree, "_solve_newton")
    M.insert(g, "dx = ", "res = [rhs[i] - fsum(ADA[i][k] * dy[k] for k in range(m)) for i in range(m)]\ncorr = _solve_cholesky(ADA, res, m, eps)\ndy = [dy[i] + corr[i] for i in range(m)]")


def _v_warn_helper_max_of_empty(tree):
    g = M.find_func(tree, "warn_large_coefficients")
    loop = [i for i, st in enumerate(g.body) if isinstance(st, ast.For)]
    if not loop:
        raise M.Skip("running maximum loop not found")
    g.body[loop[0] - 1 : loop[0] + 1] = M.stmts("max_val = max(abs(val) for row in A for val in row)")


def _v_cholesky_none_untested(tree):
    g = M.find_func(tree, "_solve_cholesky")
    M.insert(g, "if s <= 0", "if s != s:\n    return None")
    h = M.find_func(tree, "_solve_newton")
    M.replace_stmt(h, lambda s: isinstance(s, ast.If) and M.src_is(s.test, "dy is None"), [])


VARIANTS = [
    M.Variant("warn_large_coefficients takes max() of all entries: an LP without variables raises in the validator (seed C03-S)", "solvor/utils/validate.py", _v_warn_helper_max_of_empty, "C03-G7"),
    M.Variant("_solve_cholesky answers None for a nan pivot and _solve_newton no longer tests for it (seed C03-T)", IP, _v_cholesky_none_untested, "C03-G18"),
    M.Variant("Newton step refined with math.fsum, which raises on inf - inf (seed C03-Q)", IP, _v_ipm_refinement_with_fsum, "C03-O6"),
    M.Variant("interior point solves without the all-zero columns and forwards the sub-problem's verdict (seed C03-N)", IP, _v_ipm_zero_columns_dropped, "C03-O3"),
    M.Variant("interior point calls a variable-free LP OPTIMAL without looking at b (original defect)", IP, _v_ipm_no_variables_ignores_b, "C03-O3"),
    M.Variant("twin: the OPTIMAL Result is built by a new helper that only packages its arguments", IP, _t_ipm_result_helper, None),
    M.Variant("Result construction moved into a helper that flips the sign itself; the OPTIMAL site hands it the unsigned cost (seed C03-J)", IP, _v_ipm_result_helper_unsigned_cost, "C03-O"),
    M.Variant("phase-1 inner status dropped (original defect)", SX, _v_status_dropped, "C03-O1"),
    M.Variant("solve_lp publishes literal INFEASIBLE for any non-OPTIMAL phase 1", SX, _v_literal_infeasible, "C03-O2"),
    M.Variant("iteration limit reported as OPTIMAL", SX, _v_maxiter_as_optimal, "C03-O2"),
    M.Variant("objective not negated back for maximize", SX, _v_no_flip_back, "C03-O4"),
    M.Variant("interior point negates cost when minimizing", IP, _v_flip_wrong_way, "C03-O4"),
    M.Variant("interior point OPTIMAL without dual residual test", IP, _v_ip_no_dual, "C03-O3"),
    M.Variant("interior point OPTIMAL after the loop", IP, _v_ip_optimal_after_loop, "C03-O3"),
    M.Variant("interior point FEASIBLE with 1.0 tolerance", IP, _v_ip_loose_feasible, "C03-O3"),
    M.Variant("interior point objective from another vector", IP, _v_ip_stale_objective, "C03-O3"),
    M.Variant("ratio test accepts elements below the pivot-skip threshold (seed C03-A)", SX, _v_ratio_threshold, "C03-O5"),
    M.Variant("residual norms squared with ** 2 in the loop (seed C03-D)", IP, _v_ip_pow, "C03-O6"),
    M.Variant("final residual norm squared with ** 2 (original defect)", IP, _v_ip_pow_final, "C03-O6"),
    M.Variant("Newton scaling divides by z[j] without the eps clamp", IP, _v_ip_divisor_unclamped, "C03-O6"),
    M.Variant("Mehrotra ratio divides by mu under `mu >= 0`", IP, _v_ip_ratio_unguarded, "C03-O6"),
    M.Variant("ratio test leaves the last constraint row out", SX, _v_ratio_rows_off_by_one, "C03-O7"),
    M.Variant("solve_lp answers UNBOUNDED from a column pre-check, before feasibility is known (seed C03-G)", SX, _v_unbounded_precheck, "C03-O1"),
    M.Variant("phase-1 pivot-out scans n_cols - 1 - m columns instead of all non-artificial ones (seed C03-E)", SX, _v_pivot_out_scan_short, "C03-O7"),
    M.Variant("phase-1 infeasibility judged against the absolute eps (original defect)", SX, _v_phase1_absolute_threshold, "C03-O2"),
    M.Variant("phase-1 scale read from the corner cell after the inner run, when it is (nearly) zero", SX, _v_phase1_scale_read_after_run, "C03-O2"),
    M.Variant("twin: phase-1 residue divided by the scale and compared with eps", SX, _t_phase1_relative_by_division, None),
    M.Variant("phase-1 threshold of 64 ulps of the initial infeasibility (repair 64 as written: ledger row 70)", SX, _v_phase1_ulps_of_scale, "C03-O2"),
    M.Variant("twin: phase-1 threshold with its factors in the other order", SX, _t_phase1_factors_reordered, None),
    M.Variant("solve_lp forwards the phase-1 outcome when it is OPTIMAL and runs phase 2 after a failed phase 1", SX, _v_forward_when_optimal, "C03-O2"),
    M.Variant("_phase1 answers MAX_ITER when the inner run did not", SX, _v_phase1_maxiter_test_negated, "C03-O2"),
    M.Variant("artificial column without its unit entry", SX, _v_phase1_no_unit_entry, "C03-O7"),
    M.Variant("artificial basis label not entered in the basis set", SX, _v_phase1_label_without_set, "C03-O7"),
    M.Variant("interior point: slack entry of the augmented matrix missing", IP, _v_ipm_no_slack_entry, "C03-O3"),
    M.Variant("basis_set read in the statement that first binds it", SX, _v_basis_set_unbound, "C03-G1"),
    M.Variant("twin: phase-1 failure recognised by membership in (INFEASIBLE, MAX_ITER)", SX, _t_forward_by_membership, None),
    M.Variant("twin: reformat", SX, _t_reformat, None),
    M.Variant("twin: reformat interior", IP, _t_reformat, None),
    M.Variant("twin: rename status locals", SX, _t_rename, None),
    M.Variant("twin: phase 1 forwards every non-OPTIMAL inner status", SX, _t_eq_optimal, None),
]
