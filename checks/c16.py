"""C16 - knapsack / bin packing (structural part)."""

from __future__ import annotations

import ast

from sa.cfg import cfg_of
from sa.facts import result_sites
from sa.guards import GuardView, atom_of, names_in
from sa.index import own_nodes
from sa.report import Ctx

from .common import generic_sweeps

from .sat_common import _enclosing_block

EXPLANATION = (
    "Decides structural necessary conditions on knapsack.py / bin_pack.py: (O1) knapsack gate - the DP's OPTIMAL "
    "publication is preceded on every path by the weight re-check against the unscaled weights (failing it hands over "
    "to the greedy fallback, which publishes FEASIBLE only), and an OPTIMAL publication of a constant (empty) selection "
    "is justified only by an empty item list; (O2) units/provenance - the objective is summed from the user's values "
    "over exactly the returned indices, the selection comes from a strictly monotone backtracking loop (distinct "
    "indices) that takes item i iff keep[i][w] and then lowers w by that item's weight, the DP updates a cell and its "
    "keep flag together under a strict improvement, iterating capacities downwards; (O3) bin packing - every item "
    "index is assigned exactly once on every path through the placement loop, the iteration order is a permutation of "
    "range(n), a new bin's index equals len(bins) before the append, an existing bin is chosen only if the item fits, "
    "the objective is len(bins), OPTIMAL is claimed only for at most one bin. NOT decided: DP optimality, float "
    "scaling and load accumulation, the 11/9 bound."
)


def _knapsack_selection_is_the_dp_s(ctx: Ctx, k):
    """What is published as OPTIMAL is what the DP proved optimal: every item goes through the sweep, the selection
    is written by the backtracking walk only, and decisions are taken on the sign-adjusted values."""
    nodes = list(own_nodes(k.node))
    sweeps = [n for n in nodes if isinstance(n, ast.For) and any(isinstance(x, ast.If) and "dp[" in ast.unparse(x.test) for x in ast.walk(n)) and isinstance(n.target, ast.Name) and not any(isinstance(p_, ast.For) and n in ast.walk(p_) and p_ is not n for p_ in nodes)]
    ctx.require(len(sweeps) == 1, "the item sweep of the knapsack DP is not found once")
    sw = sweeps[0]
    inner = [x for x in sw.body if isinstance(x, ast.For)]
    skips = [x for x in ast.walk(sw) if isinstance(x, (ast.Continue, ast.Break))]
    ctx.ob("C16-O2", "R12 NO-CARDINALITY-CUTOFF", k, "every item takes part in the DP sweep (the capacity loop is an unconditional statement of the item loop; no continue / break)", ast.unparse(sw.iter) == "range(n)" and len(inner) == 1 and not skips, f"iter `{ast.unparse(sw.iter)}`, {len(inner)} unconditional capacity loop(s), {len(skips)} continue/break: an item settled outside the sweep is not covered by the optimality argument of the table", node=skips[0] if skips else sw)
    back = [n for n in nodes if isinstance(n, ast.For) and any(isinstance(x, ast.If) and ast.unparse(x.test).startswith("keep[") for x in ast.walk(n))]
    writes = []
    for n in nodes:
        if isinstance(n, ast.Call) and isinstance(n.func, ast.Attribute) and isinstance(n.func.value, ast.Name) and n.func.value.id == "selected" and n.func.attr in ("append", "extend", "insert", "remove", "pop", "clear"):
            if not any(n in ast.walk(b_) for b_ in back):
                writes.append(n)
        elif isinstance(n, ast.AugAssign) and isinstance(n.target, ast.Name) and n.target.id == "selected":
            writes.append(n)
    ctx.ob("C16-O2", "R27 WRITE-OWNERSHIP", k, "the selection is extended only by the backtracking walk over the keep table", len(back) == 1 and not writes, f"`{ast.unparse(writes[0])[:60]}`: indices added beside the walk were not chosen by the DP, yet the answer is labelled OPTIMAL" if writes else "", node=writes[0] if writes else k.node)
    raw = [c for c in nodes if isinstance(c, ast.Compare) and any(isinstance(x, ast.Name) and x.id == "values" for x in ast.walk(c))]
    ctx.ob("C16-O2", "R4 SIGN-UNIT", k, "no decision is taken on the caller's unsigned `values` (the DP compares sign-adjusted values only)", not raw, f"`{ast.unparse(raw[0])[:60]}`: for minimize the sign is the other way round" if raw else "", node=raw[0] if raw else k.node)


def _product_factors(e):
    out, stack_ = [], [e]
    while stack_:
        x = stack_.pop()
        if isinstance(x, ast.BinOp) and isinstance(x.op, ast.Mult):
            stack_ += [x.left, x.right]
        else:
            out.append(x)
    return out


def _is_exact_reading(m, name="_exact") -> bool:
    """`_exact(x)`: ints and Fractions as they are, everything else through str() - the number the caller wrote"""
    f = m.funcs.get(name)
    if f is None:
        return False
    rets = [n for n in own_nodes(f.node) if isinstance(n, ast.Return)]
    return len(rets) == 1 and ast.unparse(rets[0].value) == "Fraction(x) if isinstance(x, (int, Fraction)) else Fraction(str(x))"


def _recheck_allowance(ctx: Ctx, k, site):
    """The weight re-check has no slack at all: both sides are exact rationals - each weight and the capacity read as
    the decimal the caller wrote (`_exact`).  Every float slack tried before let an overweight selection through
    somewhere (1e-9: ledger row 62; n * eps * capacity: row 68) or sent a selection that fits to the fallback."""
    m = ctx.repo.module("knapsack")
    ctx.ob("C16-O1", "R14 GATE", k, "`_exact` reads a number exactly as written (int / Fraction unchanged, a float through its shortest repr)", _is_exact_reading(m), "any other reading (float(x), Fraction(x) of a float) compares binary expansions: 0.1 + 0.2 then exceeds 0.3", node=(m.funcs["_exact"].node if "_exact" in m.funcs else site))
    slack = [n for n in own_nodes(k.node) if isinstance(n, ast.Compare) and "total_weight" in names_in(n) and any(isinstance(x, ast.BinOp) for x in ast.walk(n))]
    floats = [n for n in own_nodes(k.node) if isinstance(n, ast.Compare) and "total_weight" in names_in(n) and "_exact" not in {ast.unparse(c.func) for c in ast.walk(n) if isinstance(c, ast.Call)}]
    ctx.ob("C16-O1", "R14 GATE", k, "the weight re-check compares exact values without any slack", not slack and not floats, f"`{ast.unparse((slack or floats)[0])[:60]}`: an allowance added to the capacity, or the capacity taken as a float, lets a selection through that is over the capacity (or turns one away that fits)" if (slack or floats) else "", node=(slack or floats or [site])[0])
    # OPTIMAL is claimed only when the DP ran on exact integers: the flag is computed from the scaled data, the rounded
    # integers are used exactly when it holds
    ex = [n for n in own_nodes(k.node) if isinstance(n, ast.Assign) and ast.unparse(n.targets[0]) == "exact"]
    ok = len(ex) == 1 and ast.unparse(ex[0].value) == "all((abs(x - round(x)) <= 1e-09 * max(1.0, abs(x)) for x in scaled))"
    sc = [n for n in own_nodes(k.node) if isinstance(n, ast.Assign) and ast.unparse(n.targets[0]) == "scaled"]
    ok = ok and len(sc) == 1 and ast.unparse(sc[0].value) == "[w * scale for w in weights] + [capacity * scale]"
    ctx.ob("C16-O1", "R14 GATE", k, "`exact` holds when every scaled weight and the scaled capacity is a whole number up to float noise", ok, "", node=ex[0] if ex else site)
    cfg = cfg_of(k.node)
    gv = GuardView(cfg)
    rounded = [n for n in own_nodes(k.node) if isinstance(n, ast.Assign) and ast.unparse(n.targets[0]) in ("int_weights", "int_capacity") and "round(" in ast.unparse(n.value)]
    trunc = [n for n in own_nodes(k.node) if isinstance(n, ast.Assign) and ast.unparse(n.targets[0]) == "int_weights" and "int(" in ast.unparse(n.value)]
    okr = len(rounded) == 2 and all("T:exact" in gv.guard_atoms(cfg.node_of(n), stable_only=False) for n in rounded) and len(trunc) == 1 and "F:exact" in gv.guard_atoms(cfg.node_of(trunc[0]), stable_only=False)
    ctx.ob("C16-O1", "R14 GATE", k, "exact data is rounded to its whole numbers (weights and capacity alike); only inexact data is cut down to the grid", okr, "truncating 2.01 * 1000 = 2009.9999999999998 to 2009 shrinks the capacity by a unit: a set that fills it exactly is rejected and a worse one labelled OPTIMAL", node=(rounded or trunc or [site])[0])
    pub = [s_ for s_ in result_sites(k) if "OPTIMAL" in s_.statuses and not (isinstance(s_.arg("solution"), ast.Tuple) and not s_.arg("solution").elts)]
    okp = bool(pub) and all(ast.unparse(s_.arg("status")) == "Status.OPTIMAL if exact else Status.FEASIBLE" for s_ in pub)
    ctx.ob("C16-O1", "R1 STATUS-GUARD", k, "the DP answer is labelled OPTIMAL exactly when the data was exact, FEASIBLE otherwise", okp, f"{[ast.unparse(s_.arg('status')) for s_ in pub]}: on data cut down to the grid the DP solves a stricter problem than the caller's", node=pub[0].call if pub else site)


def run(ctx: Ctx):
    k = ctx.func("knapsack", "solve_knapsack")
    cfg = cfg_of(k.node)
    gv = GuardView(cfg)
    sites = result_sites(k)
    ctx.floor("Result sites in solve_knapsack", len(sites), 2)
    n_dp = 0
    for i, s in enumerate(sites):
        at = gv.guard_atoms(s.node)
        sol = s.arg("solution")
        if "OPTIMAL" in s.statuses and isinstance(sol, ast.Tuple) and not sol.elts:
            ok = atom_of("n == 0") in at or "F:values" in at
            ctx.ob("C16-O1", "R14 GATE", k, f"Result#{i}: an OPTIMAL empty selection is published only for an empty item list", ok, f"guards {sorted(at)}: the items were never examined (zero-weight items would fit)", node=s.call)
        elif "OPTIMAL" in s.statuses:
            n_dp += 1
            gate = atom_of("total_weight <= _exact(capacity)")
            ok = gate in at
            ctx.step(_recheck_allowance, k, s.call)
            tw = [n for n in own_nodes(k.node) if isinstance(n, ast.Assign) and ast.unparse(n.targets[0]) == "total_weight"]
            ok2 = len(tw) == 1 and ast.unparse(tw[0].value) == f"sum((_exact(weights[i]) for i in {_sel_name(k)}))"
            ctx.ob("C16-O1", "R14 GATE", k, f"Result#{i}: DP OPTIMAL is published only after the weight re-check passed", ok, f"guards {sorted(at)}", node=s.call)
            ctx.ob("C16-O1", "R14 GATE", k, "the re-check sums the user's unscaled weights over the returned selection", ok2, ast.unparse(tw[0]) if tw else "", node=s.call)
            obj = s.arg("objective")
            od = [n.value for n in own_nodes(k.node) if isinstance(n, ast.Assign) and isinstance(obj, ast.Name) and ast.unparse(n.targets[0]) == obj.id]
            sel = _sel_name(k)
            ctx.ob("C16-O2", "R5 PAIRING", k, "objective = sum of the user's values over the returned indices", len(od) == 1 and ast.unparse(od[0]) == f"sum((values[i] for i in {sel}))" and ast.unparse(sol) in (sel, f"{sel}_tuple"), ast.unparse(od[0]) if od else "", node=s.call)
    ctx.floor("DP publications in solve_knapsack", n_dp, 1)
    # fallback publishes FEASIBLE only
    fb = ctx.func("knapsack", "_greedy_fallback")
    for s in result_sites(fb):
        ctx.ob("C16-O1", "R1 STATUS-GUARD", fb, "greedy fallback never claims OPTIMAL", s.statuses == frozenset({"FEASIBLE"}), f"{sorted(s.statuses)}", node=s.call)
    fcfg = cfg_of(fb.node)
    fgv = GuardView(fcfg)
    for n in own_nodes(fb.node):
        if isinstance(n, ast.Call) and ast.unparse(n.func) == "selected.append":
            at = fgv.guard_atoms(fcfg.stmt_node_containing(n))
            blk = [ast.unparse(x) for x in _enclosing_block(fb.node, fcfg.stmt_node_containing(n).ast)]
            ctx.ob("C16-O1", "R14 GATE", fb, "fallback takes an item only if it fits the remaining capacity, and lowers it by the item's weight", atom_of("_exact(weights[i]) <= remaining") in at and "remaining -= _exact(weights[i])" in blk and any(ast.unparse(x) == "remaining = _exact(capacity)" for x in own_nodes(fb.node)), "", node=n)
    t = ast.unparse(fb.node)
    ctx.ob("C16-O2", "R5 PAIRING", fb, "fallback objective = sum of the user's values over the returned indices (each index visited once)", "objective = sum((values[i] for i in selected))" in t and "indices = list(range(n))" in t and "for i in indices" in t, "", node=fb.node)
    # hand-over to fallback forwards the user's arguments
    ho = [n for n in own_nodes(k.node) if isinstance(n, ast.Return) and isinstance(n.value, ast.Call) and ast.unparse(n.value.func) == "_greedy_fallback"]
    ctx.ob("C16-O1", "R14 GATE", k, "failing the re-check hands the user's unscaled data to the fallback", len(ho) == 1 and [ast.unparse(a) for a in ho[0].value.args] == ["values", "weights", "capacity", "minimize"], "", node=k.node)
    # DP skeleton
    t = ast.unparse(k.node)
    upd = [n for n in own_nodes(k.node) if isinstance(n, ast.If) and "dp[w - w_i] + v_i" in ast.unparse(n.test)]
    ok = len(upd) == 1 and ast.unparse(upd[0].test) == "dp[w - w_i] + v_i > dp[w]" and [ast.unparse(x) for x in upd[0].body] == ["dp[w] = dp[w - w_i] + v_i", "keep[i][w] = True"]
    ctx.ob("C16-O2", "R16 PAIRED-EFFECTS", k, "DP cell and keep flag are updated together under a strict improvement", ok, "", node=upd[0] if upd else k.node)
    ctx.ob("C16-O2", "R16 PAIRED-EFFECTS", k, "capacities are scanned downwards to w_i (an item is used at most once)", "for w in range(int_capacity, w_i - 1, -1)" in t, "", node=k.node)
    ctx.ob("C16-O2", "R29 EXACTLY-ONCE", k, "backtracking visits items from last to first once, takes i iff keep[i][w], then lowers w by that item's scaled weight", "for i in range(n - 1, -1, -1):\n        if keep[i][w]:\n            selected.append(i)\n            w -= int_weights[i]" in t and "w = int_capacity" in t, "", node=k.node)
    ctx.ob("C16-O2", "R4 SIGN-UNIT", k, "DP maximises sign * value with sign = -1 exactly when minimizing", "sign = -1 if minimize else 1" in t and "vals = [sign * v for v in values]" in t and "v_i = vals[i]" in t, "", node=k.node)
    ctx.ob("C16-O2", "R18 table", k, "scaled weights are positive for positive weights and 0 only for weight 0", "int_weights = [max(1, int(w * scale)) if w > 0 else 0 for w in weights]" in t, "", node=k.node)

    ctx.step(_knapsack_selection_is_the_dp_s, k)

    # O4 exactness gate: integral data is never rescaled (the DP is exact only on the unscaled integers)
    tic = ctx.func("knapsack", "_to_int_capacity")
    tcfg = cfg_of(tic.node)
    tgv = GuardView(tcfg)
    exact = [n for n in own_nodes(tic.node) if isinstance(n, ast.Return) and isinstance(n.value, ast.Tuple) and ast.unparse(n.value) == "(int(capacity), 1.0)"]
    ok = len(exact) == 1
    if ok:
        at = tgv.guard_atoms(tcfg.node_of(exact[0]), stable_only=False)
        ok = at == {"T:all((v == int(v) for v in all_vals))"}
    ctx.ob("C16-O4", "R1 STATUS-GUARD", tic, "integral capacity and weights take the exact path (scale 1) unconditionally", ok, "any further condition sends integer data through the rounding path, where light items are rounded up and the DP rejects subsets that fit - still labelled OPTIMAL", node=exact[0] if exact else tic.node)
    for r_ in own_nodes(tic.node):
        if isinstance(r_, ast.Return) and ast.unparse(r_.value) == "(0, 1.0)":
            at = tgv.guard_atoms(tcfg.node_of(r_), stable_only=False)
            ctx.ob("C16-O4", "R1 STATUS-GUARD", tic, "the DP capacity is 0 only for a capacity that is not positive", atom_of("capacity <= 0") in at, f"{sorted(at)}: with capacity 0 the DP can take zero-weight items only, and that answer is labelled OPTIMAL", node=r_)
    for d_ in own_nodes(tic.node):
        if isinstance(d_, ast.BinOp) and isinstance(d_.op, ast.Div) and "capacity" in names_in(d_.right):
            at = tgv.guard_atoms(tcfg.stmt_node_containing(d_), stable_only=False)
            ctx.ob("C16-O4", "R35 NO-RAISING-FLOAT-OP", tic, f"`{ast.unparse(d_)}` divides by a positive capacity", atom_of("capacity > 0") in at, f"{sorted(at)}: capacity 0 with decimal weights (inside the property's quantifier) raises ZeroDivisionError", node=d_)
    av = [n.value for n in own_nodes(tic.node) if isinstance(n, ast.Assign) and ast.unparse(n.targets[0]) == "all_vals"]
    ctx.ob("C16-O4", "R1 STATUS-GUARD", tic, "the integrality test looks at the capacity and every positive weight", len(av) == 1 and ast.unparse(av[0]) == "[capacity] + [w for w in weights if w > 0]", "", node=tic.node)

    # ---- O3 bin packing
    b = ctx.func("bin_pack", "solve_bin_pack")
    cfg = cfg_of(b.node)
    gv = GuardView(cfg)
    loops = [n for n in own_nodes(b.node) if isinstance(n, ast.For) and ast.unparse(n.iter) == "indices"]
    ctx.require(len(loops) == 1, "placement loop over `indices` not found")
    lp = loops[0]
    item = ast.unparse(lp.target)
    head = cfg.stmt_node_containing(lp.iter)
    stores = [cfg.node_of(n) for n in ast.walk(lp) if isinstance(n, ast.Assign) and ast.unparse(n.targets[0]) == f"assignments[{item}]"]
    ctx.floor("bin assignment stores", len(stores), 2)
    # every path from loop entry back to the head passes exactly one store
    bt = [cfg.nodes[i] for i in cfg.succ[head.id] if cfg.nodes[i].kind == "branch" and cfg.nodes[i].pol is True][0]
    skip = head.id in cfg.forward(bt, avoid={s.id for s in stores})
    twice = any(o.id in cfg.forward(s, avoid={head.id}) for s in stores for o in stores if o is not s)
    ctx.ob("C16-O3", "R29 EXACTLY-ONCE", b, "every item is assigned a bin exactly once on every path through the placement loop", not skip and not twice, f"path without assignment: {skip}; path with two assignments: {twice}", node=lp)
    defs = [ast.unparse(n.value) for n in own_nodes(b.node) if isinstance(n, ast.Assign) and ast.unparse(n.targets[0]) == "indices"]
    ok = sorted(defs) == sorted(["list(range(n))", "sorted(range(n), key=lambda i: item_sizes[i], reverse=True)"])
    ctx.ob("C16-O3", "R29 EXACTLY-ONCE", b, "iteration order is a permutation of range(n) (decreasing variants sort by size, descending)", ok, f"{defs}", node=b.node)
    for n in own_nodes(b.node):
        if isinstance(n, ast.Assign) and ast.unparse(n.targets[0]) == "indices":
            at = gv.guard_atoms(cfg.node_of(n), stable_only=False)
            srt = "sorted(" in ast.unparse(n.value)
            ctx.ob("C16-O3", "R5 PAIRING", b, f"the {'sorted' if srt else 'input'} order is used exactly {'for' if srt else 'outside'} the decreasing variants", ("T:decreasing" in at) if srt else ("F:decreasing" in at), f"{sorted(at)[-3:]}: a decreasing variant that packs in input order loses the 11/9 OPT + 6/9 guarantee", node=n)
    opens = [n for n in own_nodes(b.node) if isinstance(n, ast.Call) and ast.unparse(n.func) == "bins.append"]
    for o in opens:
        blk = _enclosing_block(b.node, cfg.stmt_node_containing(o).ast)
        i = blk.index(cfg.stmt_node_containing(o).ast)
        at = gv.guard_atoms(cfg.stmt_node_containing(o))
        if atom_of("best_bin == -1") in at:
            ctx.ob("C16-O3", "R16 PAIRED-EFFECTS", b, "a new bin's index is len(bins) taken before the append", i > 0 and ast.unparse(blk[i - 1]) == "best_bin = len(bins)", "", node=o)
        ctx.ob("C16-O3", "R16 PAIRED-EFFECTS", b, "a new bin starts with the full capacity and no items", ast.unparse(o.args[0]) == "(capacity, [])", "", node=o)
    fits = [n for n in own_nodes(b.node) if isinstance(n, ast.Assign) and ast.unparse(n.targets[0]) == "best_bin" and ast.unparse(n.value) == "b"]
    ctx.floor("existing-bin choices", len(fits), 2)
    for f_ in fits:
        at = gv.guard_atoms(cfg.node_of(f_), stable_only=False)
        ctx.ob("C16-O3", "R14 GATE", b, "an existing bin is chosen only if the item fits its remaining capacity", atom_of("size <= remaining") in at, f"{sorted(at)[:6]}", node=f_)
    # loads are exact: sizes and capacity are read through `_exact`, remainders are exact rationals, and the fit tests
    # have no slack (the slack tried before - 1e-12 of the capacity, then n ulps of it - overfilled a bin somewhere:
    # ledger rows 57, 60, 67)
    mb = ctx.repo.module("bin_pack")
    cap_def = [n for n in own_nodes(b.node) if isinstance(n, ast.Assign) and ast.unparse(n.targets[0]) == "capacity"]
    siz_def = [n for n in own_nodes(b.node) if isinstance(n, ast.Assign) and ast.unparse(n.targets[0]) == "sizes"]
    size_use = [n for n in own_nodes(b.node) if isinstance(n, ast.Assign) and ast.unparse(n.targets[0]) == "size"]
    okx = _is_exact_reading(mb) and len(cap_def) == 1 and ast.unparse(cap_def[0].value) == "_exact(bin_capacity)" and len(siz_def) == 1 and ast.unparse(siz_def[0].value) == "[_exact(size) for size in item_sizes]" and len(size_use) == 1 and ast.unparse(size_use[0].value) == "sizes[item_idx]"
    slack_ = [n for n in own_nodes(b.node) if isinstance(n, ast.Compare) and "remaining" in names_in(n) and "size" in names_in(n) and any(isinstance(x, ast.BinOp) for x in ast.walk(n))]
    ctx.ob("C16-O3", "R14 GATE", b, "sizes and capacity are read exactly as written (`_exact`), and the fit tests compare them without any slack", okx and not slack_, (f"`{ast.unparse(slack_[0])[:60]}`: " if slack_ else "") + "a float remainder carries residue (1.0 - 0.3 - 0.3 - 0.3 is below 0.1), and any allowance for it lets in an item that is larger than the room left (0.5, 0.25 and 0.2500000000000002 shared a bin of 1.0)", node=(slack_ or cap_def or [b.node])[0])
    # the variant flags are read from the *normalised* algorithm name (lower case, `_` -> `-`)
    tb_ = ast.unparse(b.node)
    norm = [n for n in own_nodes(b.node) if isinstance(n, ast.Assign) and ast.unparse(n.targets[0]) == "algo" and "algorithm" in names_in(n.value)]
    dec = [n for n in own_nodes(b.node) if isinstance(n, ast.Assign) and ast.unparse(n.targets[0]) == "decreasing"]
    okn = len(norm) == 1 and len(dec) == 1 and ".lower()" in ast.unparse(norm[0].value) and ".replace('_', '-')" in ast.unparse(norm[0].value) and ast.unparse(dec[0].value) == "algo.endswith('-decreasing')" and norm[0].lineno < dec[0].lineno
    ctx.ob("C16-O3", "R5 PAIRING", b, "`decreasing` is decided on the normalised algorithm name (every accepted spelling of a decreasing variant sorts the items)", okn, f"algo = {ast.unparse(norm[0].value) if norm else '?'}; decreasing = {ast.unparse(dec[0].value) if dec else '?'}: a spelling that is accepted but not recognised as decreasing silently runs the online heuristic and loses the 11/9 OPT + 6/9 guarantee", node=dec[0] if dec else b.node)
    from .sat_common import _need

    ctx.step(_need, "C16-O3", "R16 PAIRED-EFFECTS", b, "an item that fits no open bin opens a new one, whose index it takes; every item is then recorded in its bin with the bin's remaining capacity lowered", ["if best_bin == -1:\n            best_bin = len(bins)\n            bins.append((capacity, []))", "remaining, items = bins[best_bin]\n        items.append(item_idx)\n        bins[best_bin] = (remaining - size, items)\n        assignments[item_idx] = best_bin", "best_bin = -1"])
    ctx.step(_need, "C16-O3", "R16 PAIRED-EFFECTS", b, "zero-size items go to bin 0, which is opened if there is none", ["if size == 0:\n            if not bins:\n                bins.append((capacity, []))\n            bins[0][1].append(item_idx)\n            assignments[item_idx] = 0\n            continue"])
    ctx.step(_need, "C16-O3", "R21 search discipline", b, "best fit keeps the fitting bin with the least room, first fit stops at the first fitting bin", ["if use_best_fit:\n            best_remaining = float('inf')\n            for b, (remaining, _) in enumerate(bins):\n                if size <= remaining and remaining < best_remaining:\n                    best_remaining = remaining\n                    best_bin = b\n        else:\n            for b, (remaining, _) in enumerate(bins):\n                if size <= remaining:\n                    best_bin = b\n                    break"])
    ctx.step(_need, "C16-O3", "R1 STATUS-GUARD", b, "inputs are validated: positive capacity, no item larger than a bin, no negative size, known algorithm name", ["check_positive(bin_capacity, name='bin_capacity')", "if size > bin_capacity:\n            raise ValueError", "if size < 0:\n            raise ValueError", "if algo not in ('first-fit', 'best-fit', 'ff', 'bf'):\n        raise ValueError", "if decreasing:\n        algo = algo.replace('-decreasing', '')", "use_best_fit = algo in ('best-fit', 'bf')"])
    # a new bin is opened only because no open bin has room: the scan over the open bins is skipped for no item
    scans = [n for n in ast.walk(lp) if isinstance(n, ast.For) and ast.unparse(n.iter) == "enumerate(bins)"]
    ctx.floor("scans over the open bins", len(scans), 2)
    for sc in scans:
        from sa.guards import atoms as _atoms

        inside = {id(x) for x in ast.walk(lp)}
        at = set()
        for br in cfg.guards(cfg.stmt_node_containing(sc.iter)):
            if br.test.kind == "test" and id(br.test.ast) in inside:
                at |= _atoms(br.test.ast, br.pol)
        extra = sorted(a for a in at if a not in ("T:use_best_fit", "F:use_best_fit", atom_of("size != 0")))
        ctx.ob("C16-O3", "R12 NO-CARDINALITY-CUTOFF", b, "every positive item is offered to all open bins (the scan is selected by the fit rule only)", not extra, f"the scan is skipped under {extra}: an item that would fit an open bin opens a new one, and the decreasing variants lose their 11/9 OPT + 6/9 guarantee", node=sc)
    floordivs = [n for n in own_nodes(b.node) if isinstance(n, ast.BinOp) and isinstance(n.op, ast.FloorDiv)]
    ctx.ob("C16-O3", "R32 EXACT-DIVISION", b, "no floor division on sizes or capacities (they may be decimal)", not floordivs, f"`{ast.unparse(floordivs[0])}`" if floordivs else "", node=floordivs[0] if floordivs else b.node)
    place = [n for n in own_nodes(b.node) if isinstance(n, ast.Assign) and ast.unparse(n.targets[0]) == "bins[best_bin]"]
    ctx.ob("C16-O3", "R16 PAIRED-EFFECTS", b, "placing an item lowers that bin's remaining capacity by the item size and records the item", len(place) == 1 and ast.unparse(place[0].value) == "(remaining - size, items)" and "remaining, items = bins[best_bin]" in ast.unparse(b.node) and f"items.append({item})" in ast.unparse(b.node), "", node=b.node)
    for s in result_sites(b):
        if ast.unparse(s.arg("solution")) == "tuple(assignments)":
            st = s.arg("status")
            d = [n.value for n in own_nodes(b.node) if isinstance(st, ast.Name) and isinstance(n, ast.Assign) and ast.unparse(n.targets[0]) == st.id]
            nb = [ast.unparse(n.value) for n in own_nodes(b.node) if isinstance(n, ast.Assign) and ast.unparse(n.targets[0]) == "num_bins"]
            ok = len(d) == 1 and isinstance(d[0], ast.IfExp) and ((ast.unparse(d[0].test) == "num_bins > 1" and ast.unparse(d[0].orelse) == "Status.OPTIMAL" and ast.unparse(d[0].body) == "Status.FEASIBLE") or (ast.unparse(d[0].test) == "num_bins <= 1" and ast.unparse(d[0].body) == "Status.OPTIMAL"))
            ctx.ob("C16-O3", "R1 STATUS-GUARD", b, "OPTIMAL is claimed only when at most one bin is used", ok, "", node=s.call)
            ctx.ob("C16-O3", "R5 PAIRING", b, "objective is the number of bins opened", nb == ["len(bins)"] and ast.unparse(s.arg("objective")) in ("float(num_bins)", "num_bins"), "", node=s.call)
    pre = [n for n in own_nodes(b.node) if isinstance(n, ast.Raise)]
    ctx.ob("C16-O3", "R14 GATE", b, "items larger than a bin or negative are rejected up front", sum(1 for r in pre if "exceeds bin capacity" in ast.unparse(r) or "negative size" in ast.unparse(r)) == 2, "", node=b.node)
    generic_sweeps(ctx)


def _sel_name(k) -> str:
    for n in own_nodes(k.node):
        if isinstance(n, ast.Call) and isinstance(n.func, ast.Attribute) and n.func.attr == "append" and isinstance(n.func.value, ast.Name):
            return n.func.value.id
    return "selected"


# ---------------------------------------------------------------------------------------------
from sa import mutate as M  # noqa: E402

KN, BP = "solvor/knapsack.py", "solvor/bin_pack.py"


def _v_zero_capacity_shortcut(tree):
    g = M.find_func(tree, "solve_knapsack")
    M.replace_stmt(g, lambda s: M.src_has(s, "int_weights = ["), lambda s: M.stmts("if int_capacity == 0:\n    return Result((), 0.0, 0, n, Status.OPTIMAL)") + [s])


def _v_no_recheck(tree):
    g = M.find_func(tree, "solve_knapsack")
    M.replace_stmt(g, lambda s: isinstance(s, ast.If) and M.src_has(s.test, "total_weight > _exact(capacity)"), [])


def _v_recheck_scaled(tree):
    g = M.find_func(tree, "solve_knapsack")
    M.replace_expr(g, lambda e: M.src_is(e, "sum((_exact(weights[i]) for i in selected))"), M.expr("sum((_exact(int_weights[i] / scale) for i in selected))"))


def _v_objective_from_vals(tree):
    g = M.find_func(tree, "solve_knapsack")
    M.replace_expr(g, lambda e: M.src_is(e, "sum((values[i] for i in selected))"), M.expr("sum((vals[i] for i in selected))"))


def _v_fallback_optimal(tree):
    g = M.find_func(tree, "_greedy_fallback")
    M.replace_expr(g, lambda e: M.src_is(e, "Status.FEASIBLE"), M.expr("Status.OPTIMAL"), count=5)


def _v_dp_upward(tree):
    g = M.find_func(tree, "solve_knapsack")
    M.replace_expr(g, lambda e: M.src_is(e, "range(int_capacity, w_i - 1, -1)"), M.expr("range(w_i, int_capacity + 1)"))


def _v_bin_skip(tree):
    g = M.find_func(tree, "solve_bin_pack")
    M.replace_stmt(g, lambda s: M.src_is(s, "assignments[item_idx] = 0"), [])


def _v_bin_index_after(tree):
    g = M.find_func(tree, "solve_bin_pack")
    M.replace_stmt(g, lambda s: isinstance(s, ast.If) and M.src_is(s.test, "best_bin == -1"), M.stmts("if best_bin == -1:\n    bins.append((capacity, []))\n    best_bin = len(bins)"))


def _v_bin_fit(tree):
    g = M.find_func(tree, "solve_bin_pack")
    M.replace_expr(g, lambda e: M.src_is(e, "size <= remaining and remaining < best_remaining"), M.expr("remaining < best_remaining"))


def _v_bin_optimal(tree):
    g = M.find_func(tree, "solve_bin_pack")
    M.replace_expr(g, lambda e: M.src_is(e, "num_bins > 1"), M.expr("num_bins > 2"))


def _v_scale_big_integers(tree):
    g = M.find_func(tree, "_to_int_capacity")
    M.replace_expr(g, lambda e: M.src_is(e, "all((v == int(v) for v in all_vals))"), M.expr("all((v == int(v) for v in all_vals)) and capacity <= 100000"))


def _v_decreasing_before_normalisation(tree):
    g = M.find_func(tree, "solve_bin_pack")
    M.replace_expr(g, lambda e: M.src_is(e, "algorithm.lower().replace('_', '-')"), M.expr("algorithm.lower()"))
    M.replace_stmt(g, lambda s: isinstance(s, ast.If) and M.src_is(s.test, "decreasing") and M.src_has(s, "algo.replace('-decreasing', '')"), M.stmts("algo = algo.replace('_', '-').removesuffix('-decreasing')"))


def _v_new_bin_when_one_fits(tree):
    g = M.find_func(tree, "solve_bin_pack")
    M.replace_expr(g, lambda e: M.src_is(e, "best_bin == -1"), M.expr("best_bin != -1"))


def _v_skip_scan_for_big_items(tree):
    g = M.find_func(tree, "solve_bin_pack")
    M.replace_stmt(g, lambda s: isinstance(s, ast.If) and M.src_is(s.test, "use_best_fit"), lambda s: [ast.If(test=M.expr("decreasing and size > bin_capacity // 2"), body=[ast.Pass()], orelse=[s])])


def _t_reformat(tree):
    pass


def _v_weightless_items_presolved(tree):
    g = M.find_func(tree, "solve_knapsack")
    sweep = [x for x in g.body if isinstance(x, ast.For) and M.src_has(x, "dp[w - w_i]")][0]
    k = [i for i, st in enumerate(sweep.body) if isinstance(st, ast.For)][0]
    sweep.body.insert(k, M.stmts("if w_i == 0:\n    continue")[0])
    r = [i for i, st in enumerate(g.body) if isinstance(st, ast.Expr) and M.src_is(st.value, "selected.reverse()")]
    if not r:
        raise M.Skip("selected.reverse() not found")
    g.body[r[0] + 1 : r[0] + 1] = M.stmts("selected.extend([i for i in range(n) if int_weights[i] == 0 and values[i] > 0])\nselected.sort()")


def _v_bp_float_loads_with_slack(tree):
    g = M.find_func(tree, "solve_bin_pack")
    M.replace_expr(g, lambda e: M.src_is(e, "size <= remaining and remaining < best_remaining"), M.expr("size <= remaining + n * 2.220446049250313e-16 * bin_capacity and remaining < best_remaining"))


def _v_bp_binary_reading(tree):
    g = M.find_func(tree, "_exact")
    g.body[-1] = M.stmts("return Fraction(x)")[0]


def _v_ks_recheck_with_slack(tree):
    g = M.find_func(tree, "solve_knapsack")
    M.replace_expr(g, lambda e: isinstance(e, ast.Compare) and M.src_is(e, "total_weight > _exact(capacity)"), M.expr("total_weight > _exact(capacity) + Fraction(1, 10 ** 9)"))


def _v_ks_truncated_scaling(tree):
    g = M.find_func(tree, "solve_knapsack")
    M.replace_expr(g, lambda e: M.src_is(e, "round(capacity * scale)"), M.expr("int(capacity * scale)"))


def _v_ks_optimal_on_inexact_data(tree):
    g = M.find_func(tree, "solve_knapsack")
    M.replace_expr(g, lambda e: M.src_is(e, "Status.OPTIMAL if exact else Status.FEASIBLE"), M.expr("Status.OPTIMAL"))


def _v_ks_fallback_float_room(tree):
    g = M.find_func(tree, "_greedy_fallback")
    M.replace_stmt(g, lambda s: M.src_is(s, "remaining = _exact(capacity)"), M.stmts("remaining = capacity"))


VARIANTS = [
    M.Variant("bin packing fit test with a float slack of n ulps of the capacity (repair 60 as written: ledger row 67)", BP, _v_bp_float_loads_with_slack, "C16-O3"),
    M.Variant("`_exact` reads the binary expansion of a float: ten items of 0.1 no longer fit a bin of 1.0", BP, _v_bp_binary_reading, "C16-O3"),
    M.Variant("knapsack re-check with a slack of 1e-9 again (ledger rows 62, 68)", KN, _v_ks_recheck_with_slack, "C16-O1"),
    M.Variant("knapsack capacity truncated instead of rounded: 2.01 becomes 2009 cells (original defect, ledger row 68)", KN, _v_ks_truncated_scaling, "C16-O1"),
    M.Variant("knapsack labels OPTIMAL whatever the scaling did to the data (original defect, ledger row 68)", KN, _v_ks_optimal_on_inexact_data, "C16-O1"),
    M.Variant("knapsack fallback keeps its remaining room as a float", KN, _v_ks_fallback_float_room, "C16-O1"),
    M.Variant("weightless items settled outside the DP by the sign of the raw value (seed C16-O)", KN, _v_weightless_items_presolved, "C16-O2"),

    M.Variant("zero-capacity shortcut publishes OPTIMAL without looking at items (original defect)", KN, _v_zero_capacity_shortcut, "C16-O1"),
    M.Variant("weight re-check removed", KN, _v_no_recheck, "C16-O1"),
    M.Variant("weight re-check on the scaled weights", KN, _v_recheck_scaled, "C16-O1"),
    M.Variant("objective summed from the signed working values", KN, _v_objective_from_vals, "C16-O2"),
    M.Variant("greedy fallback labelled OPTIMAL", KN, _v_fallback_optimal, "C16-O1"),
    M.Variant("DP scans capacities upwards (item reused)", KN, _v_dp_upward, "C16-O2"),
    M.Variant("zero-size items not assigned", BP, _v_bin_skip, "C16-O3"),
    M.Variant("new bin index taken after the append", BP, _v_bin_index_after, "C16-O3"),
    M.Variant("best-fit ignores whether the item fits", BP, _v_bin_fit, "C16-O3"),
    M.Variant("two bins labelled OPTIMAL", BP, _v_bin_optimal, "C16-O3"),
    M.Variant("huge integer capacities are down-scaled like decimals (seed C16-C)", KN, _v_scale_big_integers, "C16-O4"),
    M.Variant("decreasing variants skip the scan for items above floor(capacity / 2) (seed C16-F)", BP, _v_skip_scan_for_big_items, "C16-O3"),
    M.Variant("`decreasing` tested before underscores are normalised (seed C16-H)", BP, _v_decreasing_before_normalisation, "C16-O3"),
    M.Variant("a new bin is opened exactly when an open bin was found", BP, _v_new_bin_when_one_fits, "C16-O3"),
    M.Variant("twin: reformat knapsack", KN, _t_reformat, None),
    M.Variant("twin: reformat bin_pack", BP, _t_reformat, None),
]
