"""C10 - Hungarian assignment (structural part): solvor/hungarian.py."""

from __future__ import annotations

import ast

from sa.cfg import cfg_of
from sa.facts import result_sites
from sa.guards import GuardView, atom_of, names_in
from sa.index import own_nodes
from sa.report import Ctx

from .common import generic_sweeps

from .c03 import _minimize_test_polarity

EXPLANATION = (
    "Decides the clauses of the Hungarian contract whose truth is in the shape of the code: (O1) objective provenance - "
    "the reported objective is a fold of <user matrix>[i][<returned assignment>[i]] over the returned assignment, "
    "never of the padded / reflected working copy; (O2) extraction - the returned list is initialised to -1 per real "
    "row and written only as assignment[row-1] = col-1 under guards excluding unmatched, dummy-row and dummy-column "
    "entries, from the column-match table the augmentation wrote; (O3) reflection for maximise is `max - cost` over "
    "the user's matrix, applied exactly when minimize is false, and dummy cells hold one constant in both modes (so "
    "padding cannot favour a row); working matrix side is max(rows, cols). (O5) the running minima of the augmenting search are updated under exact comparisons. (O6) the steps of the augmenting search (start per row, scan, move, flip along the path). NOT decided: optimality over all "
    "matchings, the potential/slack updates, that no column is used twice (follows from col_match being a function "
    "of the column, checked, plus the algorithm's invariants, not checked)."
)


def run(ctx: Ctx):
    f = ctx.func("hungarian", "solve_hungarian")
    user = f.params[0]
    cfg = cfg_of(f.node)
    gv = GuardView(cfg)
    all_sites = result_sites(f)
    accumulated = {n.target.id for n in own_nodes(f.node) if isinstance(n, ast.AugAssign) and isinstance(n.target, ast.Name)}
    named = [s for s in all_sites if isinstance(s.arg("solution"), ast.Name) and isinstance(s.arg("objective"), ast.Name)]
    sites = [s for s in named if s.arg("objective").id in accumulated] or named[-1:]
    ctx.require(len(sites) == 1, "main Result(assignment, total_cost, ..) publication not found")
    asg, obj = sites[0].arg("solution").id, sites[0].arg("objective").id
    # every other publication is the empty answer for an empty matrix: an assignment is published by the one site
    # behind the augmenting search (a shortcut that picks entries by itself has its own idea of min / max and of ties)
    for k_, s_ in enumerate(all_sites):
        if s_ is sites[0]:
            continue
        sol_ = s_.arg("solution")
        empty = isinstance(sol_, (ast.List, ast.Tuple)) and not sol_.elts
        if isinstance(sol_, ast.BinOp) and isinstance(sol_.op, ast.Mult) and ast.unparse(sol_.left) == "[-1]":
            # all rows unassigned, objective 0: the answer for a matrix without rows or without columns
            at_ = gv.guard_atoms(s_.node, stable_only=False)
            empty = ast.unparse(s_.arg("objective")) in ("0.0", "0") and any(user in a and ("F:" in a or "OR(" in a or "0 ==" in a) for a in at_)
        ctx.ob("C10-O1", "R14 GATE", f, f"Result#{k_}: besides the read-out of the match table only the empty assignment is published", empty, f"`{ast.unparse(s_.call)[:70]}`: an assignment the augmenting search did not produce - it has to get minimize / maximize, rectangular shapes and the objective right on its own", node=s_.call)

    # O1 provenance
    acc = [n for n in own_nodes(f.node) if isinstance(n, ast.AugAssign) and isinstance(n.target, ast.Name) and n.target.id == obj]
    inits = [n for n in own_nodes(f.node) if isinstance(n, ast.Assign) and ast.unparse(n.targets[0]) == obj]
    ok = len(acc) == 1 and isinstance(acc[0].op, ast.Add) and len(inits) == 1 and ast.unparse(inits[0].value) in ("0.0", "0")
    if ok:
        v = acc[0].value
        # <user>[i][<asg>[i]]
        ok = isinstance(v, ast.Subscript) and isinstance(v.value, ast.Subscript) and ast.unparse(v.value.value) == user and ast.unparse(v.slice) == f"{asg}[{ast.unparse(v.value.slice)}]"
        loop = cfg.node_of(acc[0]).loop
        ok = ok and loop is not None and loop.kind == "for" and ast.unparse(loop.ast.iter) == "range(n_rows)" and ast.unparse(loop.ast.target) == ast.unparse(v.value.slice)
    ctx.ob("C10-O1", "R5 PAIRING", f, "objective = sum of user_matrix[i][assignment[i]] over the returned assignment", ok, ast.unparse(acc[0]) if acc else "no accumulation found", node=acc[0] if acc else f.node)
    if acc:
        at = gv.guard_atoms(cfg.node_of(acc[0]))
        ctx.ob("C10-O1", "R5 PAIRING", f, "only assigned rows contribute", atom_of(f"{asg}[i] != -1") in at, f"{sorted(at)}", node=acc[0])
        # no write to the assignment between its extraction and the fold / the publication
        writes = [n for n in own_nodes(f.node) if isinstance(n, ast.Assign) and isinstance(n.targets[0], ast.Subscript) and ast.unparse(n.targets[0].value) == asg]
        later = [w for w in writes if cfg.node_of(w).id in cfg.forward(cfg.node_of(acc[0]).loop)]
        ctx.ob("C10-O1", "R5 PAIRING", f, "assignment is not modified after its cost was summed", not later, "", node=acc[0])
    work = [n.targets[0].id for n in own_nodes(f.node) if isinstance(n, ast.Assign) and isinstance(n.targets[0], ast.Name) and isinstance(n.value, ast.ListComp) and "for _ in range(n)" in ast.unparse(n.value) and isinstance(n.value.elt, ast.BinOp)]
    ctx.require(len(work) >= 1, "padded working matrix not found")
    wm = work[0]
    ctx.ob("C10-O1", "R4 SIGN-UNIT", f, "the working copy never feeds the reported objective", all(wm not in names_in(a.value) for a in acc), "", node=f.node)

    # O2 extraction
    init = [n for n in own_nodes(f.node) if isinstance(n, ast.Assign) and ast.unparse(n.targets[0]) == asg]
    ctx.ob("C10-O2", "R27 WRITE-OWNERSHIP", f, "assignment starts as -1 for every real row", len(init) == 1 and ast.unparse(init[0].value) == "[-1] * n_rows", "", node=f.node)
    writes = [n for n in own_nodes(f.node) if isinstance(n, ast.Assign) and isinstance(n.targets[0], ast.Subscript) and ast.unparse(n.targets[0].value) == asg]
    ctx.floor("assignment writes", len(writes), 1)
    for w in writes:
        wn = cfg.node_of(w)
        at = gv.guard_atoms(wn)
        loop = wn.loop
        j = ast.unparse(loop.ast.target) if loop is not None and loop.kind == "for" else "?"
        shape = ast.unparse(w.targets[0].slice) == f"col_match[{j}] - 1" and ast.unparse(w.value) == f"{j} - 1" and ast.unparse(loop.ast.iter) == "range(1, n + 1)"
        ctx.ob("C10-O2", "R27 WRITE-OWNERSHIP", f, "assignment[row-1] = col-1 for each column of the match table (one write per column: no column used twice)", shape, ast.unparse(w), node=w)
        need = {atom_of(f"col_match[{j}] != 0"), atom_of(f"col_match[{j}] <= n_rows"), atom_of(f"{j} <= n_cols")}
        ctx.ob("C10-O2", "R1 STATUS-GUARD", f, "extraction skips unmatched columns, dummy rows and dummy columns", need <= at, f"missing {sorted(need - at)}", node=w)

    # O3 reflection / padding
    ncfg = cfg
    refl = [n for n in own_nodes(f.node) if isinstance(n, ast.Assign) and isinstance(n.value, ast.BinOp) and isinstance(n.value.op, ast.Sub) and user in names_in(n.value.right) and isinstance(n.targets[0], ast.Subscript) and ast.unparse(n.targets[0].value.value if isinstance(n.targets[0].value, ast.Subscript) else n.targets[0].value) == wm]
    ctx.floor("reflection stores", len(refl), 1)
    for r in refl:
        at = gv.guard_atoms(cfg.node_of(r))
        ctx.ob("C10-O3", "R4 SIGN-UNIT", f, "cost reflection is applied exactly when minimize is false", "F:minimize" in at, f"{sorted(a for a in at if 'minimize' in a)}", node=r)
        mv = r.value.left
        ok = isinstance(mv, ast.Name)
        if ok:
            d = [x.value for x in own_nodes(f.node) if isinstance(x, ast.Assign) and ast.unparse(x.targets[0]) == mv.id]
            ok = len(d) == 1 and isinstance(d[0], ast.Call) and ast.unparse(d[0].func) == "max" and user in names_in(d[0]) and wm not in names_in(d[0])
        ctx.ob("C10-O3", "R4 SIGN-UNIT", f, "reflection is max(user matrix) - cost (order reversing, non-negative)", ok and ast.unparse(r.value.right) == f"{user}[{ast.unparse(r.targets[0].value.slice)}][{ast.unparse(r.targets[0].slice)}]", ast.unparse(r), node=r)
        ctx.ob("C10-O3", "R4 SIGN-UNIT", f, "reflection touches real cells only", {atom_of("i < n_rows"), atom_of("j < n_cols")} <= at, "", node=r)
    # dummy cells hold one constant
    consts = set()
    other = []
    for n in own_nodes(f.node):
        if isinstance(n, ast.Assign) and isinstance(n.targets[0], ast.Subscript) and isinstance(n.targets[0].value, ast.Subscript) and ast.unparse(n.targets[0].value.value) == wm:
            if isinstance(n.value, ast.Constant):
                consts.add(n.value.value)
            elif user not in names_in(n.value):
                other.append(ast.unparse(n))
    consts |= set(other)
    wd = [n.value for n in own_nodes(f.node) if isinstance(n, ast.Assign) and ast.unparse(n.targets[0]) == wm][0]
    fill = wd.elt.left.elts[0].value if isinstance(wd.elt, ast.BinOp) and isinstance(wd.elt.left, ast.List) and isinstance(wd.elt.left.elts[0], ast.Constant) else None
    ctx.ob("C10-O3", "R18 SIBLING-AGREEMENT (policy)", f, "dummy cells hold one constant in both modes", fill is not None and consts <= {fill}, f"fill {fill}, other cell stores {sorted(map(str, consts))}", node=f.node)
    nd = [n.value for n in own_nodes(f.node) if isinstance(n, ast.Assign) and ast.unparse(n.targets[0]) == "n"]
    ctx.ob("C10-O3", "R18 table", f, "working matrix side is max(rows, cols)", len(nd) == 1 and ast.unparse(nd[0]) in ("max(n_rows, n_cols)", "max(n_cols, n_rows)"), "", node=f.node)
    copies = [n for n in own_nodes(f.node) if isinstance(n, ast.Assign) and ast.unparse(n.targets[0]) == f"{wm}[i][j]" and ast.unparse(n.value) == f"{user}[i][j]"]
    ctx.ob("C10-O3", "R18 table", f, "real cells are copied from the user's matrix at the same position", len(copies) == 1, "", node=f.node)
    ctx.step(check_work_matrix_fixed)
    ctx.step(check_dual_update)
    # O5 running minima of the search are exact: `if X < Y: Y = X` with no tolerance on either side
    n_min = 0
    for n in own_nodes(f.node):
        if not (isinstance(n, ast.If) and isinstance(n.test, ast.Compare) and len(n.test.ops) == 1):
            continue
        for st_ in n.body:
            if isinstance(st_, ast.Assign) and len(st_.targets) == 1:
                tt, vv = ast.unparse(st_.targets[0]), ast.unparse(st_.value)
                test_t = ast.unparse(n.test)
                if tt in test_t and vv in test_t and tt != vv and not isinstance(st_.value, ast.Constant):
                    n_min += 1
                    l_, r_, op_ = ast.unparse(n.test.left), ast.unparse(n.test.comparators[0]), type(n.test.ops[0])
                    exact = (l_ == vv and r_ == tt and op_ in (ast.Lt, ast.LtE)) or (l_ == tt and r_ == vv and op_ in (ast.Gt, ast.GtE))
                    ctx.ob("C10-O5", "R30 ACCUMULATOR-PAIRING", f, f"running minimum `{tt}` is updated under the exact comparison with `{vv}`", exact, f"`{test_t}`: with a tolerance a strictly shorter alternating path is not recorded, the search augments along a non-shortest path and the matching is not minimal", node=n)
    ctx.floor("running minima in solve_hungarian", n_min, 2)
    # O6 the steps of the row-by-row augmenting search
    from .sat_common import _need

    ctx.step(_need, "C10-O6", "R16 PAIRED-EFFECTS", f, "every row (dummy rows included) starts a search from the virtual column 0 with fresh slacks and marks", ["for i in range(1, n + 1):\n        col_match[0] = i\n        current_col = 0\n        min_slack = [float('inf')] * (n + 1)\n        used = [False] * (n + 1)"])
    ctx.step(_need, "C10-O6", "R16 PAIRED-EFFECTS", f, "each step marks the current column, takes its matched row, scans the unmarked columns for the reduced cost of that row, and moves to the column of minimum slack", ["while col_match[current_col] != 0:", "used[current_col] = True\n            matched_row = col_match[current_col]\n            delta = float('inf')\n            next_col = 0", "for j in range(1, n + 1):\n                if not used[j]:\n                    reduced_cost = matrix[matched_row - 1][j - 1] - row_potential[matched_row] - col_potential[j]", "augment_path[j] = current_col", "if min_slack[j] < delta:\n                        delta = min_slack[j]\n                        next_col = j", "current_col = next_col"])
    ctx.step(_need, "C10-O6", "R16 PAIRED-EFFECTS", f, "the dual step raises the potentials of the marked columns' rows and lowers those columns; unmarked columns only lose slack", ["for j in range(n + 1):\n                if used[j]:\n                    row_potential[col_match[j]] += delta\n                    col_potential[j] -= delta\n                else:\n                    min_slack[j] -= delta"])
    ctx.step(_need, "C10-O6", "R16 PAIRED-EFFECTS", f, "the search ends at a free column; the matching is flipped along the recorded path back to column 0", ["while current_col != 0:\n            prev_col = augment_path[current_col]\n            col_match[current_col] = col_match[prev_col]\n            current_col = prev_col"])
    ctx.step(_need, "C10-O6", "R18 table", f, "potentials, match table and path table cover the n columns plus the virtual column 0", ["row_potential = [0.0] * (n + 1)\n    col_potential = [0.0] * (n + 1)\n    col_match = [0] * (n + 1)\n    augment_path = [0] * (n + 1)"])
    ctx.step(_need, "C10-O6", "R1 STATUS-GUARD", f, "a matrix without rows or without columns leaves every row (if any) unassigned: one -1 per row", ["if not cost_matrix or not cost_matrix[0]:\n        return Result([-1] * len(cost_matrix), 0.0, 0, 0)", "n_rows = len(cost_matrix)\n    n_cols = len(cost_matrix[0])"])
    generic_sweeps(ctx)


def check_work_matrix_fixed(ctx: Ctx):
    """The potentials carry all reductions; the work matrix itself holds the (padded, possibly flipped) costs from
    its construction on: cells are assigned from the caller's matrix, a constant or `max_val - cost`, never updated
    in place (a row / column reduction that treats padding differently from real cells changes which rows are
    cheapest to leave unassigned)."""
    f = ctx.func("hungarian", "solve_hungarian")
    bad = []
    n_cells = 0
    for n in own_nodes(f.node):
        tg = n.targets if isinstance(n, ast.Assign) else ([n.target] if isinstance(n, ast.AugAssign) else [])
        for t_ in tg:
            if isinstance(t_, ast.Subscript) and isinstance(t_.value, ast.Subscript) and isinstance(t_.value.value, ast.Name) and t_.value.value.id == "matrix":
                n_cells += 1
                v_ = n.value
                ok_ = isinstance(n, ast.Assign) and (isinstance(v_, ast.Constant) or "cost_matrix" in names_in(v_))
                if not ok_:
                    bad.append(n)
    ctx.floor("cell stores of the work matrix", n_cells, 2)
    ctx.ob("C10-O3", "R27 WRITE-OWNERSHIP", f, "cells of the work matrix are assigned from the caller's matrix (or a constant) and never updated in place", not bad, f"`{ast.unparse(bad[0])[:60]}`" if bad else "", node=bad[0] if bad else f.node)


def check_dual_update(ctx: Ctx):
    """Every step of the augmenting search applies the dual update (row/column potentials of the used columns, slacks
    of the others) before it moves to the next column; only a zero step may be skipped."""
    f = ctx.func("hungarian", "solve_hungarian")
    cfg = cfg_of(f.node)
    gv = GuardView(cfg)
    upd = [n for n in own_nodes(f.node) if isinstance(n, ast.AugAssign) and ast.unparse(n.target).startswith(("row_potential[", "col_potential[", "min_slack["))]
    ctx.floor("dual update statements", len(upd), 3)
    adv = [n for n in own_nodes(f.node) if isinstance(n, ast.Assign) and ast.unparse(n) == "current_col = next_col"]
    ctx.require(len(adv) >= 1, "augmenting-search advance `current_col = next_col` not found")
    # every move to the next column comes after this step's dual update
    upd_loops = {id(cfg.node_of(u).loop): cfg.node_of(u).loop for u in upd if cfg.node_of(u).loop is not None}
    for a_ in adv:
        a_n = cfg.node_of(a_)
        after = any(cfg.dominates(lp, a_n) and lp.loop is a_n.loop for lp in upd_loops.values())
        if not after:
            # the update may sit under `if delta != 0:` (a zero step changes nothing): then that test is passed instead
            for st_ in own_nodes(f.node):
                if isinstance(st_, ast.If) and ast.unparse(st_.test).replace(" ", "") in ("delta!=0", "delta", "0!=delta", "delta!=0.0") and any(cfg.node_of(u) is not None and any(u is x for x in ast.walk(st_)) for u in upd):
                    tn_ = cfg.stmt_node_containing(st_.test)
                    if tn_ is not None and cfg.dominates(tn_, a_n) and tn_.loop is a_n.loop:
                        after = True
        ctx.ob("C10-O4", "R29 EXACTLY-ONCE", f, "the search moves to the next column only after the dual update of this step", after, f"`current_col = next_col` at line {a_.lineno} is reached without passing the update loop: the rows and columns visited in this search keep potentials that are short by delta, matched edges stop being tight and later rows are searched with wrong reduced costs", node=a_)
    an = cfg.node_of(adv[0])
    inner = an.loop
    ok = True
    why = []
    for u in upd:
        un = cfg.node_of(u)
        # guards decided inside the search loop, other than the used/unused split and the loop itself
        for b in cfg.guards(un):
            t = b.test
            if t.kind != "test" or t.loop is None:
                continue
            from sa.guards import atoms as _atoms

            for a in _atoms(t.ast, b.pol):
                if a in ("T:used[j]", "F:used[j]") or a.startswith(("IN-LOOP", "AFTER-LOOP")) or a == atom_of("col_match[current_col] != 0"):
                    continue
                if a in (atom_of("delta != 0"), "T:delta"):
                    continue
                ok = False
                why.append(f"`{ast.unparse(u)}` only under `{a}`")
    ctx.ob("C10-O4", "R29 EXACTLY-ONCE", f, "every step of the augmenting search applies the dual update (only a zero step may be skipped)", ok, "; ".join(sorted(set(why))) + (": a skipped update leaves the potentials infeasible for the row just entered" if why else ""), node=upd[0] if upd else f.node)
    signs = sorted(ast.unparse(u) for u in upd)
    ctx.ob("C10-O4", "R16 PAIRED-EFFECTS", f, "used columns: row potential += delta, column potential -= delta; unused columns: slack -= delta", signs == ["col_potential[j] -= delta", "min_slack[j] -= delta", "row_potential[col_match[j]] += delta"], f"{signs}", node=upd[0] if upd else f.node)

    # every row of the square work matrix gets its augmenting search: the row loop is `for i in range(1, n + 1)` and
    # nothing leaves it early (with more rows than columns the rows still to come are real ones)
    seed = [n for n in own_nodes(f.node) if isinstance(n, ast.Assign) and ast.unparse(n.targets[0]) == "col_match[0]"]
    ctx.require(len(seed) == 1, "row seeding `col_match[0] = i` not found")
    parents = {ch: par for par in ast.walk(f.node) for ch in ast.iter_child_nodes(par)}
    rl = seed[0]
    while rl in parents and not isinstance(rl, ast.For):
        rl = parents[rl]
    ok_rng = isinstance(rl, ast.For) and ast.unparse(rl.iter).replace(" ", "") in ("range(1,n+1)", "range(1,1+n)") and ast.unparse(seed[0].value) == ast.unparse(rl.target)

    def _leaves(node, depth=0):
        for ch in ast.iter_child_nodes(node):
            if isinstance(ch, (ast.FunctionDef, ast.Lambda)):
                continue
            if isinstance(ch, (ast.Return, ast.Raise)) or (isinstance(ch, (ast.Break, ast.Continue)) and depth == 0):
                yield ch
            yield from _leaves(ch, depth + (1 if isinstance(ch, (ast.For, ast.While)) else 0))

    outs = list(_leaves(rl)) if isinstance(rl, ast.For) else []
    ctx.ob("C10-O4", "R12 NO-CARDINALITY-CUTOFF", f, "every row 1..n of the square work matrix gets its augmenting search (no way out of the row loop)", ok_rng and not outs, (f"`{ast.unparse(outs[0])}` at line {outs[0].lineno} leaves the row loop" if outs else f"`for {ast.unparse(rl.target)} in {ast.unparse(rl.iter)}`" if isinstance(rl, ast.For) else "no row loop") + ": with more rows than columns the rows not yet searched are real rows; they stay unassigned (or take what the earlier ones left), and the sum is not the minimum", node=outs[0] if outs else rl)


# ---------------------------------------------------------------------------------------------
from sa import mutate as M  # noqa: E402

HU = "solvor/hungarian.py"


def _v_row_loop_stops_early(tree):
    g = M.find_func(tree, "solve_hungarian")
    M.insert(g, "iterations = 0", "done = 0", after=True)
    M.replace_stmt(g, lambda s: isinstance(s, ast.While) and M.src_is(s.test, "current_col != 0"), lambda s: M.stmts("if current_col <= n_cols:\n    done += 1") + [s] + M.stmts("if done == min(n_rows, n_cols):\n    break"))


def _v_objective_from_working(tree):
    g = M.find_func(tree, "solve_hungarian")
    M.replace_stmt(g, lambda s: M.src_is(s, "total_cost += cost_matrix[i][assignment[i]]"), M.stmts("total_cost += matrix[i][assignment[i]]"))


def _v_reflect_always(tree):
    g = M.find_func(tree, "solve_hungarian")
    M.replace_expr(g, lambda e: M.src_is(e, "not minimize"), M.expr("True"))


def _v_dummy_cols_kept(tree):
    g = M.find_func(tree, "solve_hungarian")
    M.replace_expr(g, lambda e: M.src_is(e, "col_match[j] != 0 and col_match[j] <= n_rows and (j <= n_cols)"), M.expr("col_match[j] != 0 and col_match[j] <= n_rows"))


def _v_pad_nonuniform(tree):
    g = M.find_func(tree, "solve_hungarian")
    M.replace_stmt(g, lambda s: M.src_is(s, "matrix[i][j] = 0.0"), M.stmts("matrix[i][j] = max_val"))


def _v_reflect_min(tree):
    g = M.find_func(tree, "solve_hungarian")
    M.replace_expr(g, lambda e: isinstance(e, ast.Call) and M.src_has(e, "max((cost_matrix[i][j]"), lambda e: M.expr(ast.unparse(e).replace("max(", "min(", 1)))


def _v_offby(tree):
    g = M.find_func(tree, "solve_hungarian")
    M.replace_stmt(g, lambda s: M.src_is(s, "assignment[col_match[j] - 1] = j - 1"), M.stmts("assignment[col_match[j] - 1] = j"))


def _v_update_only_positive(tree):
    g = M.find_func(tree, "solve_hungarian")
    M.replace_stmt(g, lambda s: isinstance(s, ast.For) and M.src_is(s.iter, "range(n + 1)") and M.src_has(s, "row_potential[col_match[j]] += delta"), lambda s: [ast.If(test=M.expr("delta > 0"), body=[s], orelse=[])])


def _t_skip_zero_step(tree):
    g = M.find_func(tree, "solve_hungarian")
    M.replace_stmt(g, lambda s: isinstance(s, ast.For) and M.src_is(s.iter, "range(n + 1)") and M.src_has(s, "row_potential[col_match[j]] += delta"), lambda s: [ast.If(test=M.expr("delta != 0"), body=[s], orelse=[])])


def _v_cached_work_matrix(tree):
    g = M.find_func(tree, "solve_hungarian")
    M.replace_expr(g, lambda e: M.src_is(e, "[[0.0] * n for _ in range(n)]"), M.expr("_work_matrix(n)"))
    idx = tree.body.index(g)
    tree.body[idx:idx] = M.stmts("from functools import lru_cache\n@lru_cache(maxsize=64)\ndef _work_matrix(n):\n    return [[0.0] * n for _ in range(n)]")


def _v_path_not_recorded(tree):
    g = M.find_func(tree, "solve_hungarian")
    M.replace_stmt(g, lambda s: M.src_is(s, "augment_path[j] = current_col"), [])


def _v_flip_helper_swapped_dims(tree):
    g = M.find_func(tree, "solve_hungarian")
    idx = tree.body.index(g)
    tree.body[idx:idx] = M.stmts("def _real_cell(i, j, height, width):\n    return i < height and j < width")
    M.replace_expr(g, lambda e: M.src_is(e, "i < n_rows and j < n_cols"), M.expr("_real_cell(i, j, n_cols, n_rows)"))


def _v_slack_tolerance(tree):
    g = M.find_func(tree, "solve_hungarian")
    M.replace_expr(g, lambda e: M.src_is(e, "reduced_cost < min_slack[j]"), M.expr("reduced_cost < min_slack[j] - 1e-09"))


def _t_reformat(tree):
    pass


def _t_rename(tree):
    g = M.find_func(tree, "solve_hungarian")
    M.rename_local(g, "assignment", "row_to_col")
    M.rename_local(g, "total_cost", "cost_sum")
    M.rename_local(g, "matrix", "work")


def _v_zero_columns_empty_assignment(tree):
    g = M.find_func(tree, "solve_hungarian")
    M.replace_expr(g, lambda e: M.src_is(e, "[-1] * len(cost_matrix)"), M.expr("[]"))


def _v_skip_update_on_padding_column(tree):
    g = M.find_func(tree, "solve_hungarian")
    for n in ast.walk(g):
        if isinstance(n, ast.While) and M.src_is(n.test, "col_match[current_col] != 0"):
            k = [i for i, st in enumerate(n.body) if isinstance(st, ast.For) and M.src_has(st, "row_potential[col_match[j]] += delta")]
            if not k:
                raise M.Skip("update loop not found")
            n.body[k[0]:k[0]] = M.stmts("if next_col > n_cols and col_match[next_col] == 0:\n    current_col = next_col\n    break")
            return
    raise M.Skip("search loop not found")


def _v_row_column_reduction_presolve(tree):
    g = M.find_func(tree, "solve_hungarian")
    k = [i for i, st in enumerate(g.body) if isinstance(st, ast.Assign) and M.src_is(st.targets[0], "row_potential")]
    if not k:
        raise M.Skip("row_potential not found")
    g.body[k[0]:k[0]] = M.stmts("for i in range(n_rows):\n    row_min = min(matrix[i])\n    if row_min:\n        for j in range(n_cols):\n            matrix[i][j] -= row_min")


def _v_single_line_fast_path(tree):
    g = M.find_func(tree, "solve_hungarian")
    M.insert(g, "matrix = [[0.0] * n", "if n_cols == 1:\n    column = [r[0] for r in cost_matrix]\n    i = column.index(min(column))\n    assignment = [-1] * n_rows\n    assignment[i] = 0\n    return Result(assignment, float(column[i]), 1, n_rows)")


VARIANTS = [
    M.Variant("row loop stops once min(rows, cols) real pairs are made: with more rows than columns later real rows are never searched (seed C10-X)", HU, _v_row_loop_stops_early, "C10-O4"),
    M.Variant("a one-column matrix is answered by picking the smallest entry, whatever `minimize` says (seed C10-T)", HU, _v_single_line_fast_path, "C10-O1"),
    M.Variant("row reduction presolve over the real cells only (seed C10-Q)", HU, _v_row_column_reduction_presolve, "C10-O3"),

    M.Variant("the search leaves for a free padding column before the dual update of that step (seed C10-O)", HU, _v_skip_update_on_padding_column, "C10-O4"),
    M.Variant("a matrix without columns gives the empty assignment instead of one -1 per row (original defect)", HU, _v_zero_columns_empty_assignment, "C10-O6"),
    M.Variant("objective summed from the padded/reflected working copy", HU, _v_objective_from_working, "C10-O1"),
    M.Variant("reflection applied when minimizing too", HU, _v_reflect_always, "C10-O3"),
    M.Variant("dummy columns leak into the assignment", HU, _v_dummy_cols_kept, "C10-O2"),
    M.Variant("dummy cells filled with a different constant in maximise mode", HU, _v_pad_nonuniform, "C10-O3"),
    M.Variant("reflection around the minimum", HU, _v_reflect_min, "C10-O3"),
    M.Variant("column index off by one in extraction", HU, _v_offby, "C10-O2"),
    M.Variant("dual update applied only for positive steps (seed C10-B)", HU, _v_update_only_positive, "C10-O4"),
    M.Variant("twin: dual update skipped for a zero step", HU, _t_skip_zero_step, None),
    M.Variant("padded work matrix comes from an lru_cache and keeps the padding of the previous call (seed C10-D)", HU, _v_cached_work_matrix, "C10-G3"),
    M.Variant("slack scan ignores improvements below an absolute tolerance (seed C10-F)", HU, _v_slack_tolerance, "C10-O5"),
    M.Variant("the alternating path is not recorded when a slack improves", HU, _v_path_not_recorded, "C10-O6"),
    M.Variant("helper receives (n_cols, n_rows) where it expects (height, width)", HU, _v_flip_helper_swapped_dims, "C10-G8"),
    M.Variant("twin: reformat", HU, _t_reformat, None),
    M.Variant("twin: rename assignment / objective / working matrix", HU, _t_rename, None),
]
