"""Shared policy rules for the (nodes, neighbors) graph routines (C14, C15)."""

from __future__ import annotations

import ast

from sa.cfg import cfg_of
from sa.guards import GuardView, names_in
from sa.index import Func, own_nodes


def neighbor_loops(f: Func, include_nested=True):
    """(function, For node, loop var) for every `for w in neighbors(x)` (the callback parameter) in f and nested defs"""
    out = []
    cb = "neighbors"
    funcs = [f] + (list(_all_nested(f)) if include_nested else [])
    for g in funcs:
        for n in own_nodes(g.node):
            if isinstance(n, ast.For) and isinstance(n.iter, ast.Call) and isinstance(n.iter.func, ast.Name) and n.iter.func.id == cb and isinstance(n.target, ast.Name):
                out.append((g, n, n.target.id))
    return out


def _all_nested(f: Func):
    for c in f.children.values():
        yield c
        yield from _all_nested(c)


def node_universe_filtered(g: Func, loop: ast.For, w: str, set_names: set[str]):
    """every use of the callback neighbour `w` as a key / recursion argument / container element is guarded by
    membership in a set derived from `nodes` (or `w` is only ever tested for membership)"""
    cfg = cfg_of(g.node)
    gv = GuardView(cfg)
    bad = []
    for n in ast.walk(loop):
        if isinstance(n, ast.Name) and n.id == w and isinstance(n.ctx, ast.Load):
            sn = cfg.stmt_node_containing(n)
            if sn is None:
                continue
            # a membership test itself is a use that needs no guard
            parent_cmp = _parent_compare(loop, n)
            if parent_cmp is not None and ((isinstance(parent_cmp.ops[0], (ast.In, ast.NotIn)) and parent_cmp.left is n) or isinstance(parent_cmp.ops[0], (ast.Eq, ast.NotEq, ast.Is, ast.IsNot))):
                continue  # membership / identity / equality tests read the neighbour without using it as a key
            at = gv.guard_atoms(sn, stable_only=False)
            if any(a == f"{w} in {s}" for s in set_names for a in at):
                continue
            bad.append(n)
    return bad


def _parent_compare(root: ast.AST, name: ast.Name):
    for n in ast.walk(root):
        if isinstance(n, ast.Compare) and (n.left is name or any(c is name for c in n.comparators)):
            return n
    return None


def node_derived_sets(f: Func) -> set[str]:
    """names of sets / dicts whose members (keys) are nodes of the `nodes` argument: set(<derived list>), dict
    comprehensions over a derived list, and dicts filled by `D[k] = ..` with k drawn from a derived collection"""
    derived = {"nodes"} | ({"node_list"} & set(f.params))  # collections / values drawn from the node universe
    changed = True
    while changed:
        changed = False
        for n in own_nodes(f.node):
            if isinstance(n, (ast.Assign, ast.AnnAssign)) and n.value is not None:
                tgts = n.targets if isinstance(n, ast.Assign) else [n.target]
                if names_in(n.value) & derived:
                    for t in tgts:
                        for x in ast.walk(t):
                            if isinstance(x, ast.Name) and isinstance(x.ctx, ast.Store) and x.id not in derived:
                                derived.add(x.id)
                                changed = True
            elif isinstance(n, ast.For) and names_in(n.iter) & derived:
                for x in ast.walk(n.target):
                    if isinstance(x, ast.Name) and x.id not in derived:
                        derived.add(x.id)
                        changed = True
    out = set()
    for n in own_nodes(f.node):
        if isinstance(n, (ast.Assign, ast.AnnAssign)) and n.value is not None:
            t = n.targets[0] if isinstance(n, ast.Assign) else n.target
            v = n.value
            if isinstance(t, ast.Name):
                if isinstance(v, ast.Call) and ast.unparse(v.func) == "set" and names_in(v) & derived:
                    out.add(t.id)
                elif isinstance(v, ast.DictComp) and names_in(v.generators[0].iter) & derived and names_in(v.key) <= {x.id for x in ast.walk(v.generators[0].target) if isinstance(x, ast.Name)}:
                    out.add(t.id)
            elif isinstance(t, ast.Subscript) and isinstance(t.value, ast.Name) and isinstance(t.slice, ast.Name) and t.slice.id in derived:
                # D[k] = .. with k a node of the universe; D must start empty
                d = t.value.id
                inits = [x for x in own_nodes(f.node) if isinstance(x, (ast.Assign, ast.AnnAssign)) and ast.unparse(x.targets[0] if isinstance(x, ast.Assign) else x.target) == d and x.value is not None]
                if inits and all(ast.unparse(i.value) in ("{}", "dict()") for i in inits):
                    out.add(d)
    return out


def symmetrised_before_use(f: Func):
    """undirected policy: callback neighbours enter a symmetric adjacency (both `adj[v]..w` and `adj[w]..v` written in
    the neighbour loop); returns (ok, detail)"""
    for g, loop, w in neighbor_loops(f):
        v = ast.unparse(loop.iter.args[0]) if loop.iter.args else "?"
        fwd = rev = False
        for s in ast.walk(loop):
            key = None
            if isinstance(s, ast.Assign) and isinstance(s.targets[0], ast.Subscript) and isinstance(s.targets[0].value, ast.Subscript):
                key = (ast.unparse(s.targets[0].value.slice), ast.unparse(s.targets[0].slice))
            elif isinstance(s, ast.Call) and isinstance(s.func, ast.Attribute) and s.func.attr in ("add", "append") and isinstance(s.func.value, ast.Subscript) and s.args:
                key = (ast.unparse(s.func.value.slice), ast.unparse(s.args[0]))
            if key == (v, w):
                fwd = True
            if key == (w, v):
                rev = True
        if not (fwd and rev):
            return False, f"{g.qualname}: neighbours of `{v}` are used as listed (forward stored: {fwd}, mirrored: {rev})"
        moving = _admission_depends_on_loop_state(g, loop, v, w)
        if moving:
            return False, f"{g.qualname}: whether a listed neighbour is stored depends on `{moving}`, which the scan itself changes - an edge listed by one endpoint only is kept or dropped depending on the order of the scan"
    return True, ""


_MUTATORS = {"add", "append", "discard", "remove", "pop", "update", "clear", "extend", "insert", "setdefault", "popitem"}


def _admission_depends_on_loop_state(g: Func, loop: ast.For, v: str, w: str):
    """Name of a container that (a) occurs in a test deciding whether the pair (v, w) is stored - an `if` around the
    stores or a guard that `continue`s before them - and (b) is mutated inside the outermost loop around the scan,
    other than the adjacency being built (a test `w not in adj[v]` only avoids storing a pair twice)."""
    outer = loop
    for n in own_nodes(g.node):
        if isinstance(n, (ast.For, ast.While)) and any(x is loop for x in ast.walk(n)) and n is not loop:
            if any(x is outer for x in ast.walk(n)):
                outer = n
    stores = []  # names of the adjacency tables written with (v, w) / (w, v)
    for st in ast.walk(loop):
        tgt = None
        if isinstance(st, ast.Assign) and isinstance(st.targets[0], ast.Subscript) and isinstance(st.targets[0].value, ast.Subscript):
            tgt = st.targets[0].value.value
        elif isinstance(st, ast.Call) and isinstance(st.func, ast.Attribute) and st.func.attr in ("add", "append") and isinstance(st.func.value, ast.Subscript):
            tgt = st.func.value.value
        if isinstance(tgt, ast.Name):
            stores.append(tgt.id)
    mutated = set()
    for n in ast.walk(outer):
        if isinstance(n, ast.Call) and isinstance(n.func, ast.Attribute) and n.func.attr in _MUTATORS and isinstance(n.func.value, ast.Name):
            mutated.add(n.func.value.id)
        elif isinstance(n, (ast.Assign, ast.AugAssign)):
            for t in n.targets if isinstance(n, ast.Assign) else [n.target]:
                if isinstance(t, ast.Subscript) and isinstance(t.value, ast.Name):
                    mutated.add(t.value.id)
    mutated -= set(stores)
    for n in ast.walk(loop):
        if isinstance(n, ast.If):
            names = {x.id for x in ast.walk(n.test) if isinstance(x, ast.Name)}
            if w in names or v in names:
                hit = sorted(names & mutated)
                if hit:
                    return hit[0]
    return None


def edge_wrapper_adjacency(ctx, oid: str, wf: Func, wname: str):
    """An edge-list wrapper hands the generic routine the graph it was given: one successor list per node, every
    input edge appended unconditionally inside the loop over the edges (self loops and repeated edges included -
    for a topological sort a self loop is a cycle, for a shortest path a repeated edge may be the cheaper one)."""
    wcfg = cfg_of(wf.node)
    init = [n for n in own_nodes(wf.node) if isinstance(n, (ast.Assign, ast.AnnAssign)) and ast.unparse(n.targets[0] if isinstance(n, ast.Assign) else n.target) == "adj"]
    apps = [n for n in own_nodes(wf.node) if isinstance(n, ast.Call) and isinstance(n.func, ast.Attribute) and n.func.attr == "append" and ast.unparse(n.func.value).startswith("adj[")]
    ok = len(init) == 1 and ast.unparse(init[0].value) == "[[] for _ in range(n_nodes)]" and len(apps) >= 1
    why = "" if ok else "no `adj = [[] for _ in range(n_nodes)]` with an append per edge found"
    for a in apps:
        an = wcfg.stmt_node_containing(a)
        lp = an.loop
        inside = lp is not None and lp.kind == "for" and ast.unparse(lp.ast.iter) == "edges"
        tests_in_loop = [b for b in wcfg.guards(an) if b.test.kind == "test" and b.test.loop is lp]
        if not inside or tests_in_loop:
            ok, why = False, f"`{ast.unparse(a)}` is conditional or outside the loop over the input edges"
        elif isinstance(lp.ast.target, ast.Tuple) and len(lp.ast.target.elts) >= 2 and len(a.args) == 1:
            # direction: the list of the edge's first endpoint receives its second (the successor), weights ride along
            src, dst = ast.unparse(lp.ast.target.elts[0]), ast.unparse(lp.ast.target.elts[1])
            got_key = ast.unparse(a.func.value)[4:-1]
            got_val = a.args[0].elts[0] if isinstance(a.args[0], ast.Tuple) and a.args[0].elts else a.args[0]
            if got_key != src or ast.unparse(got_val) != dst:
                ok, why = False, f"`{ast.unparse(a)}` for an edge ({src}, {dst}): the list of `{got_key}` receives `{ast.unparse(got_val)}` - the routine then runs on the reversed graph (components come out sources first, a topological order backwards, distances *to* the source)"
    ctx.ob(oid, "R18 SIBLING-AGREEMENT (policy)", wf, f"{wname} builds one successor list per node and appends every input edge", ok, why, node=wf.node)


def edge_wrapper_returns_generic(ctx, oid: str, wf: Func, wname: str, generic: str):
    """Everything an edge-list wrapper returns was computed by the generic routine it wraps: each `return` is the call
    itself or is dominated by it.  An answer the wrapper works out on its own (a fast path for 'already sorted' input,
    an early INFEASIBLE by edge count) is a second implementation of the routine's corner cases - self loops, repeated
    edges - and the first place where they are forgotten."""
    wcfg = cfg_of(wf.node)
    dele = [wcfg.stmt_node_containing(n) for n in own_nodes(wf.node) if isinstance(n, ast.Call) and isinstance(n.func, ast.Name) and n.func.id == generic]
    n_ret = 0
    for n in own_nodes(wf.node):
        if isinstance(n, ast.Return):
            n_ret += 1
            rn = wcfg.node_of(n)
            ok = any(g_.id == rn.id or wcfg.dominates(g_, rn) for g_ in dele)
            ctx.ob(oid, "R14 GATE", wf, f"{wname} returns nothing {generic} did not compute", ok, f"`{ast.unparse(n)[:70]}` is reached without calling {generic}: the wrapper answers from the shape of the edge list (a self loop is a cycle although it does not point backwards; a repeated edge counts twice towards an edge bound)", node=n)
    ctx.floor(f"returns of {wname}", n_ret, 1)

