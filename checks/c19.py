"""C19 - search heuristics bookkeeping (structural part): 11 modules."""

from __future__ import annotations

import ast

from sa.cfg import cfg_of
from sa.effects import nondeterminism_sources, param_mutations
from sa.facts import result_sites
from sa.guards import GuardView, atom_of, names_in, or_parts
from sa.index import own_nodes
from sa.pairs import PairAnalysis, place, strip_copy
from sa.report import Ctx

from .common import generic_sweeps
from sa.undefined import possibly_undefined

from .sat_common import _enclosing_block

EXPLANATION = (
    "Decides the bookkeeping clauses of the heuristics' contract that are visible in the code's shape, for anneal, "
    "tabu_search, lns, alns, evolve, differential_evolution, particle_swarm, nelder_mead, bayesian_opt (group A) and "
    "powell, bfgs, lbfgs (group B): (O1) pairing - a pair analysis (o = evaluate(s), parallel arrays, records, "
    "propagated through tuple / adjacent assignments, copies allowed) explains every assignment to the published "
    "(solution, objective) variables, and an incumbent taken from a container whose cells are edited in place is "
    "copied; group B publishes objective_fn(x) computed next to the x it returns (powell through the re-derived "
    "summary of _line_search); (O2) sign - group A publishes and reports only evaluate.to_user(internal value), "
    "internal comparisons for 'better' use `<`; Evaluator applies the sign on evaluation and to_user undoes it; (O3) "
    "incumbent - every update after initialisation is guarded by `candidate < best`, and every test on a path from an "
    "evaluation to the incumbent update is an ordering test on objective values (an opaque acceptance callable in "
    "between loses better candidates); the initial incumbent is the start point / the minimum of the initial "
    "population; (O4) the user objective is used exactly once, inside Evaluator(objective_fn, minimize), and every "
    "published evaluation count is evaluate.evals; (O5) seeded solvers build exactly one Random(seed), never touch the "
    "`random` module, clocks or globals in their call closure; seedless ones use no randomness; every local is bound "
    "on all paths (max_iter = 0 included); (O6) bounded solvers evaluate and store only vectors produced by the "
    "clamp, by rng.uniform over the bounds, or by copying such vectors component-wise. NOT decided: 'mirror image of "
    "minimising -f' beyond units; anything about solution quality."
)

GROUP_A = {
    "anneal": ("anneal", "anneal"),
    "tabu_search": ("tabu", "tabu_search"),
    "lns": ("lns", "lns"),
    "alns": ("lns", "alns"),
    "evolve": ("genetic", "evolve"),
    "differential_evolution": ("differential_evolution", "differential_evolution"),
    "particle_swarm": ("particle_swarm", "particle_swarm"),
    "nelder_mead": ("nelder_mead", "nelder_mead"),
    "bayesian_opt": ("bayesian", "bayesian_opt"),
}
SEEDED = ["anneal", "tabu_search", "lns", "alns", "evolve", "differential_evolution", "particle_swarm", "bayesian_opt"]
RECORDS = {"evolve": {"Individual": ("solution", "fitness")}}


def _defs_of(f, name: str) -> list:
    """right-hand sides bound to the local `name` (plain and element-wise tuple assignments)"""
    out = []
    for n in own_nodes(f.node):
        if not isinstance(n, ast.Assign):
            continue
        for t in n.targets:
            if ast.unparse(t) == name:
                out.append(n.value)
            elif isinstance(t, ast.Tuple) and isinstance(n.value, ast.Tuple) and len(t.elts) == len(n.value.elts):
                out += [v for x, v in zip(t.elts, n.value.elts) if ast.unparse(x) == name]
    return out


def _published(f):
    """[(site, solution expr, internal objective expr)] with to_user unwrapped (through one local variable)."""
    out = []
    for s in result_sites(f):
        sol, obj = s.arg("solution"), s.arg("objective")
        inner = None
        e = obj
        if isinstance(e, ast.Name):
            d = _defs_of(f, e.id)
            if len(d) == 1:
                e = d[0]
        if isinstance(e, ast.Call) and ast.unparse(e.func) == "evaluate.to_user" and len(e.args) == 1:
            inner = e.args[0]
        out.append((s, sol, inner, obj))
    return out


def check_group_a(ctx: Ctx, name: str):
    mod, q = GROUP_A[name]
    f = ctx.func(mod, q)
    cfg = cfg_of(f.node)
    gv = GuardView(cfg)
    pa = PairAnalysis(f, {"evaluate"}, RECORDS.get(name, {}))
    ctx.count("pair facts", len(pa.pairs))
    pubs = _published(f)
    ctx.floor(f"Result sites in {name}", len(pubs), 2)

    # ---- O2: every published objective is to_user(internal)
    for k, (s, sol, inner, raw) in enumerate(pubs):
        ctx.ob("C19-O2", "R4 SIGN-UNIT", f, f"Result#{k}: objective is evaluate.to_user(<internal value>)", inner is not None, f"objective `{ast.unparse(raw)}`", node=s.call)
    for n in own_nodes(f.node):
        if isinstance(n, ast.Call) and ast.unparse(n.func) == "report_progress" and len(n.args) >= 6:
            def user_sense(a):
                if isinstance(a, ast.Name):
                    d = _defs_of(f, a.id)
                    a = d[0] if len(d) == 1 else a
                return isinstance(a, ast.Call) and ast.unparse(a.func) == "evaluate.to_user"

            ok = all(user_sense(a) for a in n.args[3:5])
            ctx.ob("C19-O2", "R4 SIGN-UNIT", f, "progress reports carry user-sense values", ok, "", node=n)
            ctx.ob("C19-O4", "R7 EVALUATOR-EXCLUSIVE", f, "progress reports carry evaluate.evals", ast.unparse(n.args[5]) == "evaluate.evals", "", node=n)

    # ---- O1: pairing of the published pair(s)
    pairs_seen = set()
    for k, (s, sol, inner, raw) in enumerate(pubs):
        if inner is None:
            continue
        ok = pa.is_pair(sol, inner)
        ctx.ob("C19-O1", "R5 PAIRING", f, f"Result#{k}: (`{ast.unparse(sol)}`, `{ast.unparse(inner)}`) is a (point, its evaluation) pair", ok, pa.why.get((pa._norm(sol), pa._norm(inner)), "no derivation found"), node=s.call)
        if isinstance(sol, ast.Name) and isinstance(inner, ast.Name):
            pairs_seen.add((sol.id, inner.id))
    for sv, ov in sorted(pairs_seen):
        bad = pa.unexplained(sv, ov)
        ctx.ob("C19-O1", "R5 PAIRING", f, f"every assignment to `{sv}` / `{ov}` is a paired assignment from a known pair", not bad, "; ".join(f"line {b.lineno}: `{ast.unparse(b)[:60]}`" for b in bad), node=bad[0] if bad else f.node)
        # copy rule: incumbent taken from a cell of a container edited in place must be copied
        mutated = set()
        for n in own_nodes(f.node):
            tgt = None
            if isinstance(n, ast.Assign):
                tgt = n.targets[0]
            elif isinstance(n, ast.AugAssign):
                tgt = n.target
            if isinstance(tgt, ast.Subscript) and isinstance(tgt.value, ast.Subscript) and isinstance(tgt.value.value, ast.Name):
                mutated.add(tgt.value.value.id)  # X[i][j] = ..
        for a in pa.assignments:
            for t, v in zip(a.targets, a.values or []):
                if ast.unparse(t) == sv and v is not None:
                    base, copied = strip_copy(v)
                    root = base.value.id if isinstance(base, ast.Subscript) and isinstance(base.value, ast.Name) else None
                    if root in mutated:
                        ctx.ob("C19-O1", "R5 PAIRING", f, f"incumbent taken from `{root}[..]` (edited in place later) is a copy", copied, f"`{ast.unparse(a.stmt)[:70]}`", node=a.stmt)

        # ---- O3 incumbent updates
        incs = []
        for a in pa.assignments:
            if any(ast.unparse(t) == ov for t in a.targets):
                incs.append(a)
        ctx.floor(f"incumbent assignments in {name}", len(incs), 2)
        init_done = False
        for a in sorted(incs, key=lambda a: a.stmt.lineno):
            nd = cfg.node_of(a.stmt)
            if nd.loop is None and not init_done:
                init_done = True
                # initial incumbent: start point, or minimum over the initial population
                v = a.values[a.targets.index(next(t for t in a.targets if ast.unparse(t) == ov))] if a.values else None
                vt = ast.unparse(v) if v is not None else "?"
                ok = True
                if "best_idx" in vt or "[0]" in vt:
                    t = ast.unparse(f.node)
                    ok = ("best_idx = min(range(" in t and "key=lambda i: " in t) or "pop.sort(key=attrgetter('fitness'))" in t
                ctx.ob("C19-O3", "R6 INCUMBENT", f, "initial incumbent is the start point / the best of the initial population", ok, vt, node=a.stmt)
                continue
            at = gv.guard_atoms(nd, stable_only=False)
            v = a.values[[ast.unparse(t) for t in a.targets].index(ov)] if a.values else None
            cand = pa._norm(v) if v is not None else "?"
            cand_txt = ast.unparse(strip_copy(v)[0]) if v is not None else "?"
            if v is None:
                # the incumbent is unpacked from a record (`best_solution, best_fitness = pop[0]`): accept any ordering
                # test `<candidate value> < best` among the guards
                okg = any(a_.endswith(f" < {ov}") or a_.endswith(f" <= {ov}") for a_ in at)
                ctx.ob("C19-O3", "R6 INCUMBENT", f, f"incumbent update `{ast.unparse(a.stmt)[:50]}` is guarded by `candidate < best`", okg, f"guards {sorted(x for x in at if ov in x)}: an unguarded overwrite replaces the incumbent by whatever heads the population, which is worse whenever no elite survived", node=a.stmt)
                continue
            better = {atom_of(f"{cand_txt} < {ov}"), atom_of(f"{cand_txt} <= {ov}")}
            ctx.ob("C19-O3", "R6 INCUMBENT", f, f"incumbent update `{ast.unparse(a.stmt)[:50]}` is guarded by `candidate < best`", bool(better & at), f"guards {sorted(x for x in at if ov in x)}", node=a.stmt)
        # an in-loop publication comes after this iteration's incumbent update: in the body of the loop that holds the
        # return, every statement that evaluates a candidate before the return has its incumbent update before it too
        def top_index(body, node):
            for i, st_ in enumerate(body):
                if any(x is node for x in ast.walk(st_)):
                    return i
            return None

        for k, (s_, sol_, inner_, raw_) in enumerate(pubs):
            lp_ = s_.node.loop
            if lp_ is None:
                continue
            loop_ast = lp_.ast if lp_.kind == "for" else next((w for w in own_nodes(f.node) if isinstance(w, ast.While) and w.test is lp_.ast), None)
            if loop_ast is None:
                continue
            body = loop_ast.body
            i_ret = top_index(body, s_.call)
            ev_idx = [top_index(body, c) for c in ast.walk(loop_ast) if isinstance(c, ast.Call) and isinstance(c.func, ast.Name) and c.func.id == "evaluate"]
            ev_idx = [i for i in ev_idx if i is not None and i_ret is not None and i <= i_ret]
            up_idx = [top_index(body, a.stmt) for a in incs if top_index(body, a.stmt) is not None]
            if not ev_idx or not up_idx:
                continue
            ok = all(i < i_ret for i in up_idx) if i_ret is not None else True
            ctx.ob("C19-O3", "R6 INCUMBENT", f, f"Result#{k}: a return inside the loop comes after the incumbent update of this iteration", ok, "the candidate evaluated in this iteration is compared with the incumbent only after the return: a stop at this point hands back a stale incumbent that is worse than a point already evaluated", node=s_.call)
        # coverage: some route from every in-loop evaluation result to the incumbent passes only ordering guards
        if name != "evolve":
            objective_names = {o for _, o in pa.pairs} | {ov}
            roots = {x.split("[")[0].split(".")[-1] for x in objective_names} | {"delta"}
            sol_roots = {x.split("[")[0] for x, _ in pa.pairs}
            missing = _uncovered_evaluations(f, cfg, ov, roots, sol_roots)
            for target, why in missing:
                ctx.ob("C19-O3", "R6 INCUMBENT", f, f"evaluation result `{target}` reaches the incumbent comparison through ordering tests on objective values only", False, why, node=f.node)
            ctx.ob("C19-O3", "R6 INCUMBENT", f, "every evaluated candidate is compared with the incumbent (no opaque condition can discard a better one)", not missing, "", node=f.node)
        else:
            t = ast.unparse(f.node)
            blk_ok = "child = Individual(child_sol, evaluate(child_sol))" in t and "new_pop.append(child)" in t and "pop = sorted(new_pop, key=attrgetter('fitness'))[:pop_size]" in t
            ap = [n for n in own_nodes(f.node) if isinstance(n, ast.Call) and ast.unparse(n.func) == "new_pop.append"]
            same = bool(ap) and all(any(ast.unparse(x).startswith("child = Individual(") for x in _enclosing_block(f.node, cfg.stmt_node_containing(a_).ast)) for a_ in ap)
            ctx.ob("C19-O3", "R6 INCUMBENT", f, "every evaluated child joins the new population unconditionally; the population is sorted by fitness before the incumbent test on its first member", blk_ok and same, "", node=f.node)

    # the search works on the evaluator's internal (always minimised) values: `minimize` is consumed by Evaluator only
    mreads = [n for n in ast.walk(f.node) if isinstance(n, ast.Name) and n.id == "minimize" and isinstance(n.ctx, ast.Load)]
    okm = all(any(isinstance(c, ast.Call) and ast.unparse(c.func) == "Evaluator" and any(x is n for a_ in c.args + [k.value for k in c.keywords] for x in ast.walk(a_)) for c in ast.walk(f.node)) for n in mreads)
    ctx.ob("C19-O2", "R4 SIGN-UNIT", f, "`minimize` is read only to build the Evaluator (everything else works on internal, minimised values)", okm and len(mreads) >= 1, f"{len(mreads)} read(s): a second sign switch on values that are already sign-adjusted flips them back, and maximising f no longer mirrors minimising -f", node=mreads[-1] if mreads else f.node)

    # ---- O4 evaluator exclusivity
    uses = [n for n in own_nodes(f.node) if isinstance(n, ast.Name) and n.id == "objective_fn" and isinstance(n.ctx, ast.Load)]
    for c in f.children.values():
        uses += [n for n in own_nodes(c.node) if isinstance(n, ast.Name) and n.id == "objective_fn"]
    ev = [n for n in own_nodes(f.node) if isinstance(n, ast.Assign) and ast.unparse(n.value) == "Evaluator(objective_fn, minimize)"]
    ctx.ob("C19-O4", "R7 EVALUATOR-EXCLUSIVE", f, "the user objective is used exactly once, inside Evaluator(objective_fn, minimize)", len(uses) == 1 and len(ev) == 1 and ast.unparse(ev[0].targets[0]) == "evaluate", f"{len(uses)} uses", node=f.node)
    for k, (s, sol, inner, raw) in enumerate(pubs):
        ctx.ob("C19-O4", "R7 EVALUATOR-EXCLUSIVE", f, f"Result#{k}: evaluations = evaluate.evals", ast.unparse(s.arg("evaluations")) == "evaluate.evals", "", node=s.call)

    # ---- O5 determinism
    check_determinism(ctx, f, seeded=name in SEEDED)


def _acceptable_atom(atom: str, roots: set[str], sol_roots: set[str]) -> bool:
    """an atom that cannot be false for a candidate better than everything tracked: an ordering comparison on
    objective values, a disjunction containing one, a negated conjunction containing one, a presence test on a
    tracked solution, or a loop-membership atom"""
    import re

    if atom.startswith(("IN-LOOP:", "AFTER-LOOP:", "CASE:", "NOT-CASE:")):
        return True

    def ordering(a: str) -> bool:
        m = re.match(r"^(.*?) (<|<=) (.*)$", a)
        if not m or "(" in a.replace("float('inf')", "").replace("float(\"inf\")", ""):
            return False
        names = set(re.findall(r"[A-Za-z_][A-Za-z_0-9]*", a))
        return bool(names & roots)

    if atom.startswith("OR(") or atom.startswith("NAND("):
        inner = atom[atom.index("(") + 1 : -1]
        parts = [p for chunk in inner.split(" | ") for p in chunk.split("&")]
        return any(ordering(p.strip()) for p in parts)
    if ordering(atom):
        return True
    m = re.match(r"^([A-Za-z_][A-Za-z_0-9]*) is (not )?None$", atom)
    if m and m.group(1) in sol_roots:
        return True
    return False


def _uncovered_evaluations(f, cfg, incumbent: str, roots: set[str], sol_roots: set[str]):
    """[(evaluation target, reason)] for in-loop evaluations without an all-ordering route to the incumbent variable"""
    from sa.guards import atoms as _atoms

    # assignment edges between objective-valued places
    edges = []  # (src text, dst text, stmt node)
    eval_targets = []
    for n in own_nodes(f.node):
        pairs = []
        if isinstance(n, ast.Assign) and len(n.targets) == 1:
            t = n.targets[0]
            if isinstance(t, ast.Tuple) and isinstance(n.value, ast.Tuple) and len(t.elts) == len(n.value.elts):
                pairs = list(zip(t.elts, n.value.elts))
            elif not isinstance(t, ast.Tuple):
                pairs = [(t, n.value)]
        for t, v in pairs:
            dst = ast.unparse(t)
            if isinstance(v, ast.Call) and isinstance(v.func, ast.Name) and v.func.id == "evaluate":
                nd = cfg.node_of(n)
                if nd is not None and nd.loop is not None:
                    eval_targets.append((dst, nd))
                continue
            for x in ast.walk(v):
                if isinstance(x, (ast.Name, ast.Subscript)):
                    src = ast.unparse(x)
                    if src.split("[")[0] in roots and dst.split("[")[0] in roots | {"delta"}:
                        edges.append((src, dst, n))
    # guards of an edge: branch nodes dominating the assignment whose test lies inside a loop
    def edge_ok(stmt, after: set[int]) -> tuple[bool, str]:
        nd = cfg.node_of(stmt)
        if nd is None:
            return True, ""
        for b in cfg.guards(nd):
            t = b.test
            if t.kind != "test" or t.loop is None:
                continue
            if t.id not in after:
                continue  # decided before the candidate was evaluated: cannot discard an evaluated candidate
            for a in _atoms(t.ast, b.pol):
                if not _acceptable_atom(a, roots, sol_roots):
                    return False, f"`{ast.unparse(stmt)[:50]}` is under `{a}`"
        return True, ""

    out = []
    for tgt, nd in eval_targets:
        # DFS from tgt to incumbent
        top = nd
        while top.loop is not None:
            top = top.loop
        after = cfg.forward(nd, avoid={top.id})
        seen = {tgt}
        work = [tgt]
        reached = tgt == incumbent
        blocked = []
        while work and not reached:
            cur = work.pop()
            for src, dst, stmt in edges:
                if src != cur:
                    continue
                ok, why = edge_ok(stmt, after)
                if not ok:
                    blocked.append(why)
                    continue
                if dst == incumbent:
                    reached = True
                    break
                if dst not in seen:
                    seen.add(dst)
                    work.append(dst)
        if not reached:
            out.append((tgt, "; ".join(sorted(set(blocked))) or "no assignment chain from the evaluation result to the incumbent"))
    return out


def _is_objective_order_test(t: ast.AST, roots: set[str]) -> bool:
    """the condition is (or contains, as a disjunct of `or` / conjunct of `and`) an ordering comparison whose operands
    are objective-valued names"""
    if isinstance(t, ast.BoolOp):
        return any(_is_objective_order_test(v, roots) for v in t.values)
    if isinstance(t, ast.UnaryOp) and isinstance(t.op, ast.Not):
        return _is_objective_order_test(t.operand, roots)
    if isinstance(t, ast.Compare) and all(isinstance(o, (ast.Lt, ast.LtE, ast.Gt, ast.GtE)) for o in t.ops):
        operands = [t.left] + t.comparators
        names = set()
        for o in operands:
            for x in ast.walk(o):
                if isinstance(x, ast.Name):
                    names.add(x.id)
                elif isinstance(x, ast.Attribute):
                    names.add(x.attr)
        return bool(names & roots) and not any(isinstance(x, ast.Call) for o in operands for x in ast.walk(o))
    return False


def check_determinism(ctx: Ctx, f, seeded: bool):
    nd = nondeterminism_sources(ctx.repo, f, allow_funcs={"report_progress", "timed_progress", "default_progress", "debug", "_warn_fallback", "rust_available", "get_backend", "get_rust_module"})
    nd = [(g, w, n) for g, w, n in nd if g.module.name not in ("solvor.rust", "solvor.types")]
    ctx.ob("C19-O5", "R8 DETERMINISM", f, "no `random` module call, clock, id()/hash() or global state in the solver's call closure", not nd, "; ".join(f"{g.qualname}: {w} (line {n.lineno})" for g, w, n in nd), node=f.node)
    rnd = [n for n in own_nodes(f.node) if isinstance(n, ast.Call) and ast.unparse(n.func) == "Random"]
    if seeded:
        ok = len(rnd) == 1 and [ast.unparse(a) for a in rnd[0].args] == ["seed"]
        ctx.ob("C19-O5", "R8 DETERMINISM", f, "exactly one Random(seed) built from the seed parameter", ok, f"{[ast.unparse(r) for r in rnd]}", node=f.node)
        # all randomness through that generator: attribute calls on `rng` only
        other = [n for n in own_nodes(f.node) if isinstance(n, ast.Call) and isinstance(n.func, ast.Attribute) and n.func.attr in ("random", "uniform", "choice", "sample", "shuffle", "randrange", "randint", "gauss") and ast.unparse(n.func.value) != "rng"]
        ctx.ob("C19-O5", "R8 DETERMINISM", f, "all random draws go through the seeded generator", not other, f"{[ast.unparse(o) for o in other]}", node=f.node)
    else:
        ctx.ob("C19-O5", "R8 DETERMINISM", f, "seedless solver builds no random generator", not rnd, "", node=f.node)
    muts = param_mutations(ctx.repo, f, set(f.params))
    ctx.ob("C19-O5", "R17 PARAM-IMMUTABLE", f, "no argument object is modified in place (neither directly nor through an alias or a helper)", not muts, "; ".join(f"{g.qualname}: {k} on `{p_}` (line {n.lineno})" for g, p_, k, n in muts[:3]) + " - the caller's object comes back changed, so the same call repeated with the same argument objects and seed starts from different data", node=muts[0][3] if muts else f.node)
    pu = possibly_undefined(f)
    ctx.ob("C19-O5", "R31 DEFINED-ON-ALL-PATHS", f, "every local read is bound on all paths (zero iterations included)", not pu, "; ".join(f"`{nm}` at line {rd.lineno} may be unbound" for nm, rd in pu), node=f.node)


def check_group_b(ctx: Ctx):
    # bfgs / lbfgs: obj = objective_fn(x) ... next to Result(x, obj)
    for q in ("bfgs", "lbfgs"):
        f = ctx.func("bfgs", q)
        cfg = cfg_of(f.node)
        sites = result_sites(f)
        ctx.floor(f"Result sites in {q}", len(sites), 3)
        for k, s in enumerate(sites):
            sol, obj = s.arg("solution"), s.arg("objective")
            blk = _enclosing_block(f.node, s.node.ast)
            i = blk.index(s.node.ast)
            # nearest preceding definition of obj in the same block (or the enclosing block for `if report_progress`)
            ok = False
            detail = ""
            search_blocks = [(blk, i)]
            if s.node.loop is not None or True:
                for n in ast.walk(f.node):
                    b = getattr(n, "body", None)
                    if isinstance(b, list):
                        for j, st in enumerate(b):
                            if isinstance(st, ast.If) and any(x is s.node.ast for x in ast.walk(st)):
                                search_blocks.append((b, j))
            for b, idx in search_blocks:
                for st in reversed(b[:idx]):
                    if isinstance(st, ast.Assign) and ast.unparse(st.targets[0]) == ast.unparse(obj):
                        v = ast.unparse(st.value)
                        ok = v == f"objective_fn({ast.unparse(sol)}) if objective_fn else grad_norm"
                        detail = v
                        # no assignment to the solution variable between
                        between = b[b.index(st) + 1 : idx]
                        if any(isinstance(x, ast.Assign) and ast.unparse(x.targets[0]) == ast.unparse(sol) for x in between):
                            ok = False
                        break
                if ok:
                    break
            ctx.ob("C19-O1", "R5 PAIRING", f, f"Result#{k}: objective is objective_fn(x) computed next to the x that is returned", ok, detail, node=s.call)
        check_determinism(ctx, f, seeded=False)
    # powell
    p = ctx.func("powell", "powell")
    ls = ctx.func("powell", "_line_search")
    gs = ctx.func("powell", "_golden_section_search")
    rets = [n for n in own_nodes(ls.node) if isinstance(n, ast.Return) and isinstance(n.value, ast.Tuple)]
    ok = len(rets) == 2
    forms = sorted(ast.unparse(r.value) for r in rets)
    ok = ok and "(x, objective_fn(x), 1)" in forms and "(x_new, sign * f_opt, bracket_evals + search_evals)" in forms
    t = ast.unparse(ls.node)
    ok2 = "alpha_opt, f_opt, search_evals = _golden_section_search(f_alpha, a, c)" in t and "x_new = [x[i] + alpha_opt * direction[i] for i in range(n)]" in t and "return sign * objective_fn(x_new)" in ast.unparse(ls.children["f_alpha"].node)
    tg = ast.unparse(gs.node)
    ok3 = "f_min = f(x_min)" in tg and "return (x_min, f_min, evals + 1)" in tg
    ctx.ob("C19-O1", "R5 PAIRING", ls, "summary of _line_search: returns (point, user-sense objective of that point, evals)", ok and ok2 and ok3, f"{forms}", node=ls.node)
    calls = [n for n in own_nodes(p.node) if isinstance(n, ast.Assign) and isinstance(n.value, ast.Call) and ast.unparse(n.value.func) == "_line_search"]
    ctx.floor("line-search calls in powell", len(calls), 2)
    for c in calls:
        ctx.ob("C19-O1", "R5 PAIRING", p, "line-search result updates point and objective together", isinstance(c.targets[0], ast.Tuple) and [ast.unparse(e) for e in c.targets[0].elts[:2]] == ["x", "f_x"], "", node=c)
    other = [n for n in own_nodes(p.node) if isinstance(n, ast.Assign) and ast.unparse(n.targets[0]) in ("x", "f_x") and n not in calls]
    ok = all((ast.unparse(n.targets[0]) == "x" and ast.unparse(n.value) == "list(x0)") or (ast.unparse(n.targets[0]) == "f_x" and ast.unparse(n.value) == "objective_fn(x)") for n in other)
    ctx.ob("C19-O1", "R5 PAIRING", p, "outside the line searches, (x, f_x) is only initialised as (start, objective_fn(start))", ok, f"{[ast.unparse(n) for n in other]}", node=p.node)
    for k, s in enumerate(result_sites(p)):
        ctx.ob("C19-O1", "R5 PAIRING", p, f"Result#{k} publishes (x, f_x)", ast.unparse(s.arg("solution")) == "x" and ast.unparse(s.arg("objective")) == "f_x", "", node=s.call)
    # in-place edits of x between evaluation and publication: only the initial clamp, before f_x is computed
    pcfg = cfg_of(p.node)
    edits = [n for n in own_nodes(p.node) if isinstance(n, ast.Assign) and isinstance(n.targets[0], ast.Subscript) and ast.unparse(n.targets[0].value) == "x"]
    fx0 = [pcfg.node_of(n) for n in other if ast.unparse(n.targets[0]) == "f_x"]
    ctx.ob("C19-O1", "R5 PAIRING", p, "in-place edits of x happen only before its first evaluation", all(fx0 and pcfg.node_of(e).id in pcfg.backward(fx0[0]) and pcfg.node_of(e).id not in pcfg.forward(fx0[0]) for e in edits), "", node=p.node)
    ctx.ob("C19-O6", "R9 SANITISER->SINK", p, "start point is clamped to the bounds; line-search interval is intersected with the bounds", "x[i] = max(bounds_list[i][0], min(bounds_list[i][1], x[i]))" in ast.unparse(p.node) and "a = max(a, alpha_min)" in t and "c = min(c, alpha_max)" in t and "alpha_max = min(alpha_max, (hi - x[i]) / direction[i])" in t, "", node=p.node)
    check_determinism(ctx, p, seeded=False)


def check_bounds(ctx: Ctx):
    CLAMP = ("[max(lo, min(hi, x[i])) for i, (lo, hi) in enumerate(bounds)]", "[max(lo, min(hi, x[j])) for j, (lo, hi) in enumerate(bounds)]", "[max(lo, min(hi, xi)) for xi, (lo, hi) in zip(x, bounds)]")
    UNIFORM = "[rng.uniform(lo, hi) for lo, hi in bounds]"
    # differential evolution
    de = ctx.func("differential_evolution", "differential_evolution")
    t = ast.unparse(de.node)
    clip = de.children.get("clip")
    ctx.require(clip is not None, "clip closure vanished from differential_evolution")
    ctx.ob("C19-O6", "R9 SANITISER->SINK", clip, "clamp is max(lo, min(hi, x)) per coordinate over the bounds", any(c in ast.unparse(clip.node) for c in CLAMP), "", node=clip.node)
    cfg = cfg_of(de.node)
    sinks = [n for n in own_nodes(de.node) if isinstance(n, ast.Call) and ast.unparse(n.func) == "population.append"]
    ok = bool(sinks) and all(ast.unparse(s.args[0]) in ("clip(list(ind))", "individual") for s in sinks) and f"individual = {UNIFORM}" in t
    ctx.ob("C19-O6", "R9 SANITISER->SINK", de, "initial population holds only clamped or uniformly drawn vectors", ok, "", node=de.node)
    ev = [n for n in own_nodes(de.node) if isinstance(n, ast.Call) and ast.unparse(n.func) == "evaluate"]
    for e in ev:
        a = ast.unparse(e.args[0])
        if a == "ind":
            ok = True
        elif a == "trial":
            en = cfg.stmt_node_containing(e)
            cl = [cfg.node_of(n) for n in own_nodes(de.node) if isinstance(n, ast.Assign) and ast.unparse(n) == "mutant = clip(mutant)"]
            tr = [n for n in own_nodes(de.node) if isinstance(n, ast.Assign) and ast.unparse(n.targets[0]) in ("trial", "trial[j]")]
            ok = len(cl) == 1 and cfg.dominates(cl[0], en) and sorted(ast.unparse(n.value) for n in tr) == ["mutant[j]", "population[i][:]"]
        else:
            ok = False
        ctx.ob("C19-O6", "R9 SANITISER->SINK", de, f"evaluate({a}): the vector is inside the bounds", ok, "trial = copy of a population member with components replaced by the clamped mutant" if a == "trial" else "", node=e)
    stores = [n for n in own_nodes(de.node) if isinstance(n, ast.Assign) and ast.unparse(n.targets[0]) in ("population[i]", "best_solution")]
    ok = all(place(n.value) in ("trial", "population[best_idx]") for n in stores)
    ctx.ob("C19-O6", "R9 SANITISER->SINK", de, "population and incumbent only receive evaluated in-bounds vectors", ok, f"{[ast.unparse(n) for n in stores]}", node=de.node)
    # particle swarm
    ps = ctx.func("particle_swarm", "particle_swarm")
    t = ast.unparse(ps.node)
    cfg = cfg_of(ps.node)
    clip = ps.children.get("clip")
    ctx.require(clip is not None, "clip closure vanished from particle_swarm")
    ctx.ob("C19-O6", "R9 SANITISER->SINK", clip, "clamp is max(lo, min(hi, x)) per coordinate over the bounds", any(c in ast.unparse(clip.node) for c in CLAMP), "", node=clip.node)
    sinks = [n for n in own_nodes(ps.node) if isinstance(n, ast.Call) and ast.unparse(n.func) == "positions.append"]
    ok = bool(sinks) and all(ast.unparse(s.args[0]) in ("clip(list(pos))", "pos") for s in sinks) and f"pos = {UNIFORM}" in t
    ctx.ob("C19-O6", "R9 SANITISER->SINK", ps, "initial positions are clamped or uniformly drawn", ok, "", node=ps.node)
    ev = [n for n in own_nodes(ps.node) if isinstance(n, ast.Call) and ast.unparse(n.func) == "evaluate"]
    for e in ev:
        a = ast.unparse(e.args[0])
        if a == "pos":
            ok = True
        elif a == "positions[i]":
            en = cfg.stmt_node_containing(e)
            blk = _enclosing_block(ps.node, en.ast)
            i = blk.index(en.ast)
            prev = [ast.unparse(x) for x in blk[:i]]
            # last edit of positions[i] before the evaluation is the clamp
            edits = [k for k, x in enumerate(blk[:i]) if "positions[i]" in ast.unparse(x) and (isinstance(x, (ast.Assign, ast.AugAssign, ast.For)))]
            ok = bool(edits) and ast.unparse(blk[edits[-1]]) == "positions[i] = clip(positions[i])"
        else:
            ok = False
        ctx.ob("C19-O6", "R9 SANITISER->SINK", ps, f"evaluate({a}): the position is clamped after the last move", ok, "", node=e)
    stores = [n for n in own_nodes(ps.node) if isinstance(n, ast.Assign) and ast.unparse(n.targets[0]) in ("p_best[i]", "best_solution")]
    ok = all(place(n.value) in ("positions[i]", "positions[best_idx]") and strip_copy(n.value)[1] for n in stores)
    ctx.ob("C19-O6", "R9 SANITISER->SINK", ps, "personal and global bests are copies of evaluated (clamped) positions", ok, f"{[ast.unparse(n) for n in stores]}", node=ps.node)
    # bayesian
    bo = ctx.func("bayesian", "bayesian_opt")
    t = ast.unparse(bo.node)
    rp, cb, oa = bo.children.get("random_point"), bo.children.get("clip_to_bounds"), bo.children.get("optimize_acquisition")
    ctx.require(rp is not None and cb is not None and oa is not None, "bayesian_opt helper closures vanished")
    ctx.ob("C19-O6", "R9 SANITISER->SINK", bo, "random_point draws uniformly inside the bounds; clip_to_bounds is the clamp", UNIFORM in ast.unparse(rp.node) and any(c in ast.unparse(cb.node) for c in CLAMP), "", node=bo.node)
    rets = [ast.unparse(n.value) for n in own_nodes(oa.node) if isinstance(n, ast.Return)]
    cands = sorted({ast.unparse(n.value) for n in own_nodes(oa.node) if isinstance(n, ast.Assign) and ast.unparse(n.targets[0]) in ("best_candidate", "candidate") and ast.unparse(n.value) != "None"})
    ctx.ob("C19-O6", "R9 SANITISER->SINK", oa, "acquisition optimiser returns only clamped or uniformly drawn points", rets == ["best_candidate"] and cands == ["candidate", "clip_to_bounds(result.solution)", "random_point()"], f"{cands}", node=oa.node)
    tops = sorted({ast.unparse(n.value) for n in own_nodes(bo.node) if isinstance(n, ast.Assign) and ast.unparse(n.targets[0]) == "top_candidate"})
    ev = [ast.unparse(n.args[0]) for n in own_nodes(bo.node) if isinstance(n, ast.Call) and ast.unparse(n.func) == "evaluate"]
    ok = tops == ["optimize_acquisition(xs, ys, L, best_obj)", "random_point()"] and sorted(ev) == ["top_candidate", "x"] and "xs = [random_point() for _ in range(n_initial)]" in t
    ctx.ob("C19-O6", "R9 SANITISER->SINK", bo, "every evaluated point is an initial uniform sample or the acquisition optimiser's (clamped) proposal", ok, f"evaluated {ev}; proposals {tops}", node=bo.node)
    stores = [n for n in own_nodes(bo.node) if isinstance(n, ast.Assign) and isinstance(n.targets[0], ast.Tuple) and ast.unparse(n.targets[0]) == "(best_solution, best_obj)"]
    ok = all(place(n.value.elts[0]) in ("xs[best_idx]", "top_candidate") for n in stores)
    ctx.ob("C19-O6", "R9 SANITISER->SINK", bo, "the incumbent is a copy of an evaluated point", ok and all(strip_copy(n.value.elts[0])[1] for n in stores), "", node=bo.node)


def check_population_size(ctx: Ctx):
    """The initial incumbent and every generation range over `range(size)`: every evaluated member must have an index
    below `size`, so warm-start members are loaded only while fewer than `size` are present and the rest is filled up
    to exactly `size`."""
    for mod, q, cont, size in (("differential_evolution", "differential_evolution", "population", "pop_size"), ("particle_swarm", "particle_swarm", "positions", "n_particles")):
        f = ctx.func(mod, q)
        cfg = cfg_of(f.node)
        gv = GuardView(cfg)
        apps = [n for n in own_nodes(f.node) if isinstance(n, ast.Call) and ast.unparse(n.func) == f"{cont}.append"]
        ctx.floor(f"{cont} appends in {q}", len(apps), 2)
        ok = True
        why = []
        for a in apps:
            an = cfg.stmt_node_containing(a)
            at = gv.guard_atoms(an, stable_only=False)
            bounded = atom_of(f"len({cont}) < {size}") in at
            if not bounded:
                ok = False
                why.append(f"`{ast.unparse(a)[:40]}` at line {a.lineno} is not under `len({cont}) < {size}`")
        other = [n for n in own_nodes(f.node) if isinstance(n, (ast.Assign, ast.AnnAssign)) and ast.unparse(n.targets[0] if isinstance(n, ast.Assign) else n.target) == cont and n.value is not None and ast.unparse(n.value) != "[]"]
        if other:
            ok = False
            why.append(f"`{cont}` is also built as `{ast.unparse(other[0].value)[:50]}`")
        fill = [n for n in own_nodes(f.node) if isinstance(n, ast.While) and ast.unparse(n.test) == f"len({cont}) < {size}"]
        ctx.ob("C19-O3", "R6 INCUMBENT", f, f"`{cont}` holds exactly `{size}` members when it is evaluated (loads are capped, the rest is filled)", ok and len(fill) == 1, "; ".join(why) + (": members beyond the size are evaluated but never compared with the incumbent" if why else ""), node=apps[0] if apps else f.node)
        t = ast.unparse(f.node)
        ctx.ob("C19-O3", "R6 INCUMBENT", f, "the initial incumbent is the minimum over the same index range as the evaluated members", f"best_idx = min(range({size}), key=lambda i: fitness[i])" in t and f"fitness = [evaluate({'ind' if cont == 'population' else 'pos'}) for {'ind' if cont == 'population' else 'pos'} in {cont}]" in t, "", node=f.node)


def check_evaluator(ctx: Ctx):
    m = ctx.repo.module("utils.helpers")
    init = m.funcs.get("Evaluator.__init__")
    call = m.funcs.get("Evaluator.__call__")
    tu = m.funcs.get("Evaluator.to_user")
    ctx.require(init and call and tu, "Evaluator methods vanished")
    for f in (init, call, tu):
        ctx.touch(f)
    ti, tc, tt = ast.unparse(init.node), ast.unparse(call.node), ast.unparse(tu.node)
    ctx.ob("C19-O2", "R4 SIGN-UNIT", init, "Evaluator.sign is +1 for minimize, -1 for maximize", "self.sign = 1 if minimize else -1" in ti and "self.evals = 0" in ti, "", node=init.node)
    ctx.ob("C19-O2", "R4 SIGN-UNIT", call, "evaluation returns sign * f(x) and counts exactly one call per evaluation", "self.evals += 1" in tc and "return self.sign * self.objective_fn(sol)" in tc and tc.count("self.evals") == 1, "", node=call.node)
    ctx.ob("C19-O2", "R4 SIGN-UNIT", tu, "to_user multiplies by the same sign (an involution) and does not evaluate", "return internal_obj * self.sign" in tt and "objective_fn" not in tt and "evals" not in tt, "", node=tu.node)
    # one count, one call: every return of __call__ hands back a value the user's function was just called for - no path
    # answers from memory - and the evaluator keeps no state besides the function, the sign and the counter
    rets = [n for n in own_nodes(call.node) if isinstance(n, ast.Return)]
    direct = [n for n in rets if n.value is not None and any(isinstance(x, ast.Call) and ast.unparse(x.func) == "self.objective_fn" for x in ast.walk(n.value))]
    ccfg = cfg_of(call.node)
    calls_ = [ccfg.stmt_node_containing(x) for x in own_nodes(call.node) if isinstance(x, ast.Call) and ast.unparse(x.func) == "self.objective_fn"]
    every = bool(rets) and all(n in direct or any(c_.id == ccfg.node_of(n).id or ccfg.dominates(c_, ccfg.node_of(n)) for c_ in calls_) for n in rets)
    slots = [n for n in ast.walk(m.tree) if isinstance(n, ast.ClassDef) and n.name == "Evaluator" for n in n.body if isinstance(n, ast.Assign) and ast.unparse(n.targets[0]) == "__slots__"]
    fields = sorted(e.value for e in slots[0].value.elts) if slots and isinstance(slots[0].value, (ast.Tuple, ast.List)) else None
    stored = sorted({n.attr for f_ in (init, call, tu) for n in own_nodes(f_.node) if isinstance(n, ast.Attribute) and isinstance(n.ctx, ast.Store) and isinstance(n.value, ast.Name) and n.value.id == "self"})
    ctx.ob("C19-O4", "R7 EVALUATOR-EXCLUSIVE", call, "every evaluation calls the user's function (no return of __call__ answers from memory), and the evaluator's state is function, sign and counter", every and fields == ["evals", "objective_fn", "sign"] and stored == ["evals", "objective_fn", "sign"], f"returns without a call: {[ast.unparse(n)[:40] for n in rets if n not in direct][:2]}; slots {fields}; fields written {stored}: a remembered value is counted as an evaluation that never happened (`evaluations` no longer equals the number of objective calls), and a non-deterministic or stateful objective is answered with a stale value", node=call.node)
    # the only writers of .evals are __init__ and __call__
    writers = [q for q, f in m.funcs.items() if q.startswith("Evaluator.") and any(isinstance(n, (ast.Assign, ast.AugAssign)) and "self.evals" in ast.unparse(n.targets[0] if isinstance(n, ast.Assign) else n.target) for n in own_nodes(f.node))]
    ctx.ob("C19-O4", "R27 WRITE-OWNERSHIP", call, "the evaluation counter is written only by __init__ and __call__", sorted(writers) == ["Evaluator.__call__", "Evaluator.__init__"], f"{writers}", node=call.node)
    for mod in ("anneal", "tabu", "lns", "genetic", "differential_evolution", "particle_swarm", "nelder_mead", "bayesian"):
        mm = ctx.repo.module(mod)
        stray = [n for n in ast.walk(mm.tree) if isinstance(n, (ast.Assign, ast.AugAssign)) and ".evals" in ast.unparse(n.targets[0] if isinstance(n, ast.Assign) else n.target)]
        ctx.ob("C19-O4", "R27 WRITE-OWNERSHIP", None, f"{mod}.py never writes the evaluation counter", not stray, "", rel=mm.rel, fname="<module>")


def check_nm_shrink(ctx: Ctx):
    sh = ctx.func("nelder_mead", "_shrink")
    t = ast.unparse(sh.node)
    ok = "values[i] = evaluate(simplex[i])" in t and "for i in range(1, n + 1)" in t
    ctx.ob("C19-O1", "R5 PAIRING", sh, "shrink re-evaluates every vertex it moves and never moves the best vertex", ok, "", node=sh.node)
    nm = ctx.func("nelder_mead", "nelder_mead")
    t = ast.unparse(nm.node)
    ok = "simplex = [simplex[i] for i in order]" in t and "values = [values[i] for i in order]" in t and "order = sorted(range(n + 1), key=lambda i: values[i])" in t
    ctx.ob("C19-O1", "R5 PAIRING", nm, "vertices and values are reordered by the same permutation", ok, "", node=nm.node)
    srt = [x for x in own_nodes(nm.node) if isinstance(x, ast.Assign) and ast.unparse(x.targets[0]) == "order" and ast.unparse(x.value).startswith("sorted(")]
    loops_ = [x for x in own_nodes(nm.node) if isinstance(x, ast.For) and "max_iter" in ast.unparse(x.iter)]
    uncond = len(srt) == 1 and len(loops_) == 1 and any(x is srt[0] for x in loops_[0].body)
    if uncond:
        i_ = loops_[0].body.index(srt[0])
        perm = [ast.unparse(x) for x in loops_[0].body[i_ + 1 : i_ + 3]]
        uncond = perm == ["simplex = [simplex[i] for i in order]", "values = [values[i] for i in order]"] and not any("values[0]" in ast.unparse(x) or "simplex[0]" in ast.unparse(x) for x in loops_[0].body[:i_])
    ctx.ob("C19-O3", "R6 INCUMBENT", nm, "the simplex is re-sorted unconditionally at the top of every iteration (index 0 is the best vertex whenever it is read or shrunk towards)", uncond, "a sort that is skipped leaves a better vertex at an inner index after a shrink; the next shrink contracts towards the stale simplex[0] and overwrites the best point evaluated so far", node=srt[0] if srt else nm.node)
    # every Result site - the normal exit and the stop requested by the progress callback - publishes the vertex that
    # min() selects over the values as they are at that moment: the index is bound in the site's own block, after the
    # last statement that writes a vertex or a value (ledger row 61: the callback exit returned simplex[0] of a simplex
    # whose worst vertex had just been replaced by a better point than the first one)
    sites_ = result_sites(nm)
    ctx.floor("Result sites in nelder_mead", len(sites_), 2)
    for k_, s_ in enumerate(sites_):
        blk = _enclosing_block(nm.node, s_.node.ast if hasattr(s_.node, "ast") else s_.call)
        ret = next((x for x in blk if any(y is s_.call for y in ast.walk(x))), None)
        ok, why = False, "the solution is not `simplex[<index chosen by min over values>]`"
        if ret is not None:
            i_ = blk.index(ret)
            sol = s_.arg("solution")
            defs_ = {ast.unparse(x.targets[0]): x for x in blk[:i_] if isinstance(x, ast.Assign) and len(x.targets) == 1}
            if isinstance(sol, ast.Name) and sol.id in defs_:
                sol = defs_[sol.id].value
            if isinstance(sol, ast.Subscript) and ast.unparse(sol.value) == "simplex" and isinstance(sol.slice, ast.Name) and sol.slice.id in defs_:
                d_ = defs_[sol.slice.id]
                j_ = blk.index(d_)
                between = blk[j_ + 1 : i_]
                dirty = [x for x in between for y in ast.walk(x) if (isinstance(y, ast.Subscript) and isinstance(y.ctx, ast.Store) and ast.unparse(y.value).split("[")[0] in ("simplex", "values")) or (isinstance(y, ast.Call) and ast.unparse(y.func) == "_shrink") or (isinstance(y, ast.Name) and isinstance(y.ctx, ast.Store) and y.id in ("simplex", "values"))]
                ok = ast.unparse(d_.value) == "min(range(n + 1), key=lambda i: values[i])" and not dirty
                why = f"index `{ast.unparse(d_)}`" + ("; a vertex or value is written between the selection and the return" if dirty else "")
        ctx.ob("C19-O3", "R6 INCUMBENT", nm, f"Result#{k_}: the returned vertex is the one with the smallest value among all kept vertices at that moment", ok, why + ": index 0 is the best vertex only right after the sort at the top of an iteration; the iteration's own replacement can be better", node=s_.call)
    # every replacement of the worst vertex stores the evaluated point with its value, adjacent
    cfg = cfg_of(nm.node)
    reps = [n for n in own_nodes(nm.node) if isinstance(n, ast.Assign) and ast.unparse(n.targets[0]) == "simplex[n]"]
    ctx.floor("worst-vertex replacements in nelder_mead", len(reps), 5)
    for r in reps:
        blk = _enclosing_block(nm.node, r)
        i = blk.index(r)
        nxt = blk[i + 1] if i + 1 < len(blk) else None
        v = ast.unparse(r.value)
        ok = isinstance(nxt, ast.Assign) and ast.unparse(nxt.targets[0]) == "values[n]" and ast.unparse(nxt.value) == f"{v}_val"
        dv = [x.value for x in own_nodes(nm.node) if isinstance(x, ast.Assign) and ast.unparse(x.targets[0]) == f"{v}_val"]
        ok = ok and len(dv) >= 1 and all(ast.unparse(d) == f"evaluate({v})" for d in dv)
        ctx.ob("C19-O1", "R5 PAIRING", nm, f"replacement `{ast.unparse(r)}` stores the point with the value evaluated for that point", ok, "", node=r)
    # where one of two evaluated candidates is kept, the test compares their two values with each other
    for n in own_nodes(nm.node):
        if isinstance(n, ast.If) and n.orelse and len(n.body) >= 1 and len(n.orelse) >= 1:
            tb = [x for x in n.body if isinstance(x, ast.Assign) and ast.unparse(x.targets[0]) == "simplex[n]"]
            eb = [x for x in n.orelse if isinstance(x, ast.Assign) and ast.unparse(x.targets[0]) == "simplex[n]"]
            if len(tb) == 1 and len(eb) == 1:
                a_, b_ = ast.unparse(tb[0].value), ast.unparse(eb[0].value)
                t_ = ast.unparse(n.test)
                ok = t_ in (f"{a_}_val < {b_}_val", f"{a_}_val <= {b_}_val", f"{b_}_val > {a_}_val", f"{b_}_val >= {a_}_val")
                ctx.ob("C19-O3", "R6 INCUMBENT", nm, f"choice between the evaluated candidates `{a_}` and `{b_}` keeps the better one", ok, f"test `{t_}`: comparing with anything else can discard the better of the two evaluated points", node=n)


def round14_repairs(ctx: Ctx):
    """The repairs of round 14 (ledger rows 73-78), each as the statement group that carries it."""
    from .sat_common import _need

    ps = ctx.func("particle_swarm", "particle_swarm")
    _need(ctx, "C19-O3", "R6 INCUMBENT", ps, "every start position the caller gives becomes a particle (the swarm grows to hold them)", ["if initial_positions is not None:\n        n_particles = max(n_particles, len(initial_positions))"], "a start point cut off before it is evaluated can be better than everything the swarm finds: the result is then worse than a starting point")
    de = ctx.func("differential_evolution", "differential_evolution")
    _need(ctx, "C19-O3", "R6 INCUMBENT", de, "every start point the caller gives joins the population (which grows to hold them)", ["if initial_population is not None:\n        pop_size = max(pop_size, len(initial_population))"], "a start point cut off before it is evaluated can be better than everything the search finds")
    _need(ctx, "C19-O5", "R18 table", de, "the mutant adds as many difference vectors as index pairs were drawn (one after the rand/1 fallback)", ["for d in range(len(diff_indices) // 2):"], "after the fallback drew two indices the loop over num_diffs reads a third and fourth: IndexError for rand/2, best/2 on small populations")
    an = ctx.func("anneal", "anneal")
    _need(ctx, "C19-O3", "R6 INCUMBENT", an, "the Metropolis test divides by the temperature only when it is positive", ["if delta < 0 or (temperature > 0 and rng.random() < exp(-delta / temperature)):"], "min_temp=0 lets a schedule reach temperature 0 exactly: the first non-improving neighbour raises ZeroDivisionError")
    tb = ctx.func("tabu", "tabu_search")
    _need(ctx, "C19-O5", "R18 table", tb, "tabu memory is kept only for a positive cooldown", ["if cooldown > 0:\n            if len(tabu_list) == cooldown:\n                tabu_set.discard(tabu_list[0])\n            tabu_list.append(best_move)\n            tabu_set.add(best_move)"], "with cooldown 0 the deque is always empty and `len(tabu_list) == cooldown` is true: tabu_list[0] raises IndexError")
    by = ctx.func("bayesian", "bayesian_opt")
    _need(ctx, "C19-O6", "R35 NO-RAISING-FLOAT-OP", by, "the kernel's length scale is positive in every dimension (a fixed one, lo == hi, gets 1.0)", ["length_scales = [(hi - lo) / 2 or 1.0 for lo, hi in bounds]"], "a bound with lo == hi gives length scale 0.0 and the first kernel evaluation divides by it")


def run(ctx: Ctx):
    ctx.step(round14_repairs)
    for name in GROUP_A:
        if name == "nelder_mead":
            continue
        check_group_a(ctx, name)
    # nelder_mead: cell pairs (simplex[*], values[*])
    nm = ctx.func("nelder_mead", "nelder_mead")
    pa = PairAnalysis(nm, {"evaluate"})
    for k, (s, sol, inner, raw) in enumerate(_published(nm)):
        ctx.ob("C19-O2", "R4 SIGN-UNIT", nm, f"Result#{k}: objective is evaluate.to_user(<internal value>)", inner is not None, "", node=s.call)
        if inner is not None:
            sol_e = sol
            if isinstance(sol, ast.Name):
                d = [n.value for n in own_nodes(nm.node) if isinstance(n, ast.Assign) and ast.unparse(n.targets[0]) == sol.id]
                sol_e = d[0] if len(d) == 1 else sol
            ctx.ob("C19-O1", "R5 PAIRING", nm, f"Result#{k}: (`{ast.unparse(sol_e)}`, `{ast.unparse(inner)}`) are the same cell of the vertex / value arrays", pa.is_pair(sol_e, inner), "", node=s.call)
        ctx.ob("C19-O4", "R7 EVALUATOR-EXCLUSIVE", nm, f"Result#{k}: evaluations = evaluate.evals", ast.unparse(s.arg("evaluations")) == "evaluate.evals", "", node=s.call)
    uses = [n for n in own_nodes(nm.node) if isinstance(n, ast.Name) and n.id == "objective_fn" and isinstance(n.ctx, ast.Load)]
    ctx.ob("C19-O4", "R7 EVALUATOR-EXCLUSIVE", nm, "the user objective is used exactly once, inside Evaluator(objective_fn, minimize)", len(uses) == 1, "", node=nm.node)
    ctx.step(check_determinism, nm, seeded=False)
    ctx.step(check_nm_shrink)
    ctx.step(check_group_b)
    ctx.step(check_bounds)
    ctx.step(check_population_size)
    ctx.step(check_evaluator)
    generic_sweeps(ctx)


# ---------------------------------------------------------------------------------------------
from sa import mutate as M  # noqa: E402

AN, TB, LN, GE, DE, PS, NM, BY, PW, BF, HP = ("solvor/anneal.py", "solvor/tabu.py", "solvor/lns.py", "solvor/genetic.py", "solvor/differential_evolution.py", "solvor/particle_swarm.py", "solvor/nelder_mead.py", "solvor/bayesian.py", "solvor/powell.py", "solvor/bfgs.py", "solvor/utils/helpers.py")


def _v_lns_under_accept(tree):
    g = M.find_func(tree, "lns")
    M.replace_stmt(g, lambda s: isinstance(s, ast.If) and M.src_is(s.test, "candidate_obj < best_obj"), [])
    M.replace_stmt(g, lambda s: isinstance(s, ast.If) and M.src_has(s.test, "accept_fn("), lambda s: [ast.If(test=s.test, body=s.body + M.stmts("if current_obj < best_obj:\n    best_solution, best_obj = current, current_obj\n    best_iter = iteration"), orelse=[])])


def _v_anneal_stale_obj(tree):
    g = M.find_func(tree, "anneal")
    M.replace_stmt(g, lambda s: M.src_is(s, "best_solution, best_obj = (solution, obj)") and s.lineno > 100, M.stmts("best_solution = solution"), count=1)


def _v_anneal_best_worse(tree):
    g = M.find_func(tree, "anneal")
    M.replace_stmt(g, lambda s: isinstance(s, ast.If) and M.src_is(s.test, "obj < best_obj"), lambda s: s.body)


def _v_tabu_wrong_sign(tree):
    g = M.find_func(tree, "tabu_search")
    M.replace_expr(g, lambda e: M.src_is(e, "obj < best_obj"), M.expr("obj > best_obj"))


def _v_user_objective_direct(tree):
    g = M.find_func(tree, "alns")
    M.replace_expr(g, lambda e: M.src_is(e, "evaluate(candidate)"), M.expr("objective_fn(candidate)"))


def _v_result_internal(tree):
    g = M.find_func(tree, "evolve")
    M.replace_expr(g, lambda e: M.src_is(e, "evaluate.to_user(best_fitness)"), M.expr("best_fitness"), count=3)


def _v_pso_alias(tree):
    g = M.find_func(tree, "particle_swarm")
    M.replace_stmt(g, lambda s: M.src_is(s, "best_solution = positions[i][:]"), M.stmts("best_solution = positions[i]"))


def _v_de_no_clip(tree):
    g = M.find_func(tree, "differential_evolution")
    M.replace_stmt(g, lambda s: M.src_is(s, "mutant = clip(mutant)"), [])


def _v_pso_eval_before_clip(tree):
    g = M.find_func(tree, "particle_swarm")
    blk = None
    for n in ast.walk(g):
        b = getattr(n, "body", None)
        if isinstance(b, list) and any(M.src_is(s, "positions[i] = clip(positions[i])") for s in b):
            blk = b
    if blk is None:
        raise M.Skip("clip not found")
    i = next(k for k, s in enumerate(blk) if M.src_is(s, "positions[i] = clip(positions[i])"))
    j = next(k for k, s in enumerate(blk) if M.src_is(s, "fitness[i] = evaluate(positions[i])"))
    blk[i], blk[j] = blk[j], blk[i]


def _v_global_random(tree):
    g = M.find_func(tree, "anneal")
    M.replace_expr(g, lambda e: M.src_is(e, "rng.random()"), M.expr("random.random()"))
    tree.body.insert(1, M.stmts("import random")[0])


def _v_second_rng(tree):
    g = M.find_func(tree, "tabu_search")
    M.replace_expr(g, lambda e: M.src_is(e, "Random(seed)"), M.expr("Random()"))


def _v_evals_wrong(tree):
    g = M.find_func(tree, "bayesian_opt")
    M.replace_expr(g, lambda e: M.src_is(e, "evaluate.evals"), M.expr("iteration"), count=1)


def _v_bfgs_stale(tree):
    g = M.find_func(tree, "bfgs")
    blk = None
    for n in ast.walk(g):
        b = getattr(n, "body", None)
        if isinstance(b, list) and any(M.src_is(s, "x = x_new") for s in b):
            blk = b
    i = next(k for k, s in enumerate(blk) if M.src_is(s, "x = x_new"))
    j = next(k for k, s in enumerate(blk) if isinstance(s, ast.Assign) and M.src_has(s, "obj = objective_fn(x)"))
    st = blk.pop(j)
    blk.insert(i, st)


def _v_powell_f_only(tree):
    g = M.find_func(tree, "powell")
    M.replace_stmt(g, lambda s: isinstance(s, ast.Assign) and M.src_has(s, "_line_search(objective_fn, x, displacement"), M.stmts("_x2, f_x, ls_evals = _line_search(objective_fn, x, displacement, sign, bounds_list)"))


def _v_iteration_unbound(tree):
    g = M.find_func(tree, "particle_swarm")
    M.replace_stmt(g, lambda s: M.src_is(s, "iteration = 0"), [])


def _v_evaluator_sign(tree):
    g = M.find_func(tree, "Evaluator.to_user")
    M.replace_expr(g, lambda e: M.src_is(e, "internal_obj * self.sign"), M.expr("internal_obj"))


def _v_nm_wrong_value(tree):
    g = M.find_func(tree, "nelder_mead")
    M.replace_stmt(g, lambda s: M.src_is(s, "values[n] = expanded_val"), M.stmts("values[n] = reflected_val"))


def _v_de_init_max(tree):
    g = M.find_func(tree, "differential_evolution")
    M.replace_expr(g, lambda e: M.src_is(e, "min(range(pop_size), key=lambda i: fitness[i])"), M.expr("max(range(pop_size), key=lambda i: fitness[i])"))


def _v_de_warm_start_uncapped(tree):
    g = M.find_func(tree, "differential_evolution")
    M.replace_stmt(g, lambda s: isinstance(s, ast.If) and M.src_is(s.test, "initial_population is not None"), M.stmts("population = [clip(list(ind)) for ind in initial_population or ()]"))


def _t_reformat(tree):
    pass


def _t_rename_lns(tree):
    g = M.find_func(tree, "lns")
    M.rename_local(g, "candidate", "cand")
    M.rename_local(g, "candidate_obj", "cand_obj")


def _v_tabu_update_after_progress(tree):
    g = M.find_func(tree, "tabu_search")
    holder = {}

    def grab(s):
        holder["s"] = s
        return []

    M.replace_stmt(g, lambda s: isinstance(s, ast.If) and M.src_is(s.test, "obj < best_obj"), grab)
    M.replace_stmt(g, lambda s: isinstance(s, ast.If) and M.src_has(s.test, "report_progress"), lambda s: [s, holder["s"]])


def _v_evolve_unguarded_head(tree):
    g = M.find_func(tree, "evolve")
    M.replace_stmt(g, lambda s: isinstance(s, ast.If) and M.src_has(s.test, "pop[0].fitness < best_fitness"), lambda s: M.stmts("improved = pop[0].fitness < best_fitness\nbest_solution, best_fitness = pop[0]"))


def _v_ucb_sign_by_minimize(tree):
    g = M.find_func(tree, "bayesian_opt")
    fn = [n for n in ast.walk(g) if isinstance(n, ast.FunctionDef) and n.name == "ucb"]
    if not fn:
        raise M.Skip("ucb closure not found")
    rets = [r for r in ast.walk(fn[0]) if isinstance(r, ast.Return) and M.src_has(r.value, "kappa_val * sigma")]
    if not rets:
        raise M.Skip("ucb return not found")
    rets[0].value = M.expr("-mu + kappa_val * sigma if minimize else mu + kappa_val * sigma")


def _v_nm_greedy_expansion(tree):
    g = M.find_func(tree, "nelder_mead")
    M.replace_expr(g, lambda e: M.src_is(e, "expanded_val < reflected_val"), M.expr("expanded_val < best_val"))


from .c18 import _t_alns_hoisted_user_values  # noqa: E402


def _v_stateful_cooling_schedule(tree):
    g = M.find_func(tree, "exponential_cooling")
    inner = [n for n in g.body if isinstance(n, ast.FunctionDef)]
    if not inner:
        raise M.Skip("schedule closure not found")
    inner[0].body = M.stmts("nonlocal temp\ntemp = initial_temp * rate if temp is None else temp * rate\nreturn temp")
    g.body.insert(g.body.index(inner[0]), M.stmts("temp = None")[0])


def _v_alns_weights_aliased(tree):
    g = M.find_func(tree, "alns")
    M.replace_expr(g, lambda e: M.src_is(e, "list(destroy_weights) if destroy_weights else [1.0] * n_destroy"), M.expr("destroy_weights or [1.0] * n_destroy"))


def _t_alns_weights_copied_after_or(tree):
    g = M.find_func(tree, "alns")
    M.replace_expr(g, lambda e: M.src_is(e, "list(destroy_weights) if destroy_weights else [1.0] * n_destroy"), M.expr("list(destroy_weights or [1.0] * n_destroy)"))


def _v_anneal_seed_truthiness(tree):
    g = M.find_func(tree, "anneal")
    M.replace_expr(g, lambda e: M.src_is(e, "Random(seed)"), M.expr("Random(seed) if seed else Random()"))


def _v_nm_lazy_sort(tree):
    g = M.find_func(tree, "nelder_mead")
    loop = [x for x in ast.walk(g) if isinstance(x, ast.For) and "max_iter" in ast.unparse(x.iter)][0]
    k = [i for i, st in enumerate(loop.body) if isinstance(st, ast.Assign) and M.src_is(st.targets[0], "order")]
    if not k:
        raise M.Skip("sort not found")
    blk = loop.body[k[0] : k[0] + 3]
    guard = M.stmts("if iteration == 1 or values[n] < values[n - 1]:\n    pass")[0]
    guard.body = blk
    loop.body[k[0] : k[0] + 3] = [guard]


def _v_nm_callback_returns_first(tree):
    g = M.find_func(tree, "nelder_mead")
    loop = [x for x in ast.walk(g) if isinstance(x, ast.For) and "max_iter" in ast.unparse(x.iter)][0]
    stop = [x for x in loop.body if isinstance(x, ast.If) and "report_progress" in ast.unparse(x.test)]
    if not stop:
        raise M.Skip("progress stop not found")
    stop[0].body = M.stmts("return Result(simplex[0], evaluate.to_user(values[0]), iteration, evaluate.evals, Status.FEASIBLE)")


def _v_nm_select_then_shrink(tree):
    g = M.find_func(tree, "nelder_mead")
    loop = [x for x in ast.walk(g) if isinstance(x, ast.For) and "max_iter" in ast.unparse(x.iter)][0]
    stop = [x for x in loop.body if isinstance(x, ast.If) and "report_progress" in ast.unparse(x.test)]
    if not stop:
        raise M.Skip("progress stop not found")
    sel = [i for i, x in enumerate(stop[0].body) if isinstance(x, ast.Assign) and M.src_is(x.targets[0], "best_idx")]
    if not sel:
        raise M.Skip("selection not found")
    stop[0].body.insert(sel[0] + 1, M.stmts("_shrink(simplex, values, sigma, evaluate)")[0])


def _v_evaluator_memo(tree):
    g = M.find_func(tree, "Evaluator.__call__")
    g.body = M.stmts("self.evals += 1\ntry:\n    key = tuple(sol)\n    if key in self._seen:\n        return self._seen[key]\nexcept TypeError:\n    return self.sign * self.objective_fn(sol)\nvalue = self._seen[key] = self.sign * self.objective_fn(sol)\nreturn value")
    i = M.find_func(tree, "Evaluator.__init__")
    i.body.extend(M.stmts("self._seen = {}"))


def _v_pso_drops_start_points(tree):
    g = M.find_func(tree, "particle_swarm")
    M.replace_stmt(g, lambda s: M.src_is(s, "n_particles = max(n_particles, len(initial_positions))"), [])


def _v_de_drops_start_points(tree):
    g = M.find_func(tree, "differential_evolution")
    M.replace_stmt(g, lambda s: isinstance(s, ast.If) and M.src_is(s.test, "initial_population is not None") and M.src_has(s, "pop_size = max(pop_size"), [])


def _v_de_fallback_indexes_past(tree):
    g = M.find_func(tree, "differential_evolution")
    M.replace_expr(g, lambda e: M.src_is(e, "range(len(diff_indices) // 2)"), M.expr("range(num_diffs)"))


def _v_anneal_divides_by_zero_temperature(tree):
    g = M.find_func(tree, "anneal")
    M.replace_expr(g, lambda e: M.src_is(e, "temperature > 0 and rng.random() < exp(-delta / temperature)"), M.expr("rng.random() < exp(-delta / temperature)"))


def _v_tabu_cooldown_zero(tree):
    g = M.find_func(tree, "tabu_search")
    M.replace_stmt(g, lambda s: isinstance(s, ast.If) and M.src_is(s.test, "cooldown > 0"), lambda s: s.body)


def _v_bayes_zero_length_scale(tree):
    g = M.find_func(tree, "bayesian_opt")
    M.replace_expr(g, lambda e: M.src_is(e, "(hi - lo) / 2 or 1.0"), M.expr("(hi - lo) / 2"))


VARIANTS = [
    M.Variant("particle_swarm cuts the start positions off at n_particles (original defect, ledger row 73)", PS, _v_pso_drops_start_points, "C19-O3"),
    M.Variant("differential_evolution cuts the start points off at the population size (original defect, ledger row 74)", DE, _v_de_drops_start_points, "C19-O3"),
    M.Variant("differential_evolution reads num_diffs index pairs after the rand/1 fallback (original defect, ledger row 75)", DE, _v_de_fallback_indexes_past, "C19-O5"),
    M.Variant("anneal divides by a temperature of 0 (original defect, ledger row 76)", AN, _v_anneal_divides_by_zero_temperature, "C19-O3"),
    M.Variant("tabu_search indexes its empty deque when cooldown is 0 (original defect, ledger row 77)", TB, _v_tabu_cooldown_zero, "C19-O5"),
    M.Variant("bayesian_opt gives a fixed dimension the length scale 0 (original defect, ledger row 78)", BY, _v_bayes_zero_length_scale, "C19-O6"),
    M.Variant("Evaluator answers repeated flat solutions from a memo and still counts them (seed C19-U)", HP, _v_evaluator_memo, "C19-O4"),
    M.Variant("nelder_mead stopped by the callback returns simplex[0] (original defect, ledger row 61)", NM, _v_nm_callback_returns_first, "C19-O3"),
    M.Variant("nelder_mead shrinks once more between choosing the vertex and returning it", NM, _v_nm_select_then_shrink, "C19-O3"),
    M.Variant("nelder_mead re-sorts only when the worst vertex moved up (seed C19-O)", NM, _v_nm_lazy_sort, "C19-O3"),
    M.Variant("alns adapts the caller's weight list in place (seed C19-I)", LN, _v_alns_weights_aliased, "C19-O5"),
    M.Variant("exponential_cooling returns a schedule that remembers its temperature between runs (seed C19-M)", AN, _v_stateful_cooling_schedule, "C19-G3"),
    M.Variant("twin: alns copies its weights after the `or` default", LN, _t_alns_weights_copied_after_or, None),
    M.Variant("anneal treats seed=0 as unseeded (seed C19-J)", AN, _v_anneal_seed_truthiness, "C19-O5"),
    M.Variant("nelder_mead keeps the expansion whenever it beats the best vertex (seed C19-A)", NM, _v_nm_greedy_expansion, "C19-O3"),

    M.Variant("lns best update nested under the acceptance callable (original defect)", LN, _v_lns_under_accept, "C19-O3"),
    M.Variant("anneal updates the best solution without its objective", AN, _v_anneal_stale_obj, "C19-O1"),
    M.Variant("anneal overwrites the best with any accepted move", AN, _v_anneal_best_worse, "C19-O3"),
    M.Variant("tabu keeps the worse of best / current", TB, _v_tabu_wrong_sign, "C19-O3"),
    M.Variant("evolve overwrites the incumbent with the population head (seed C19-G)", "solvor/genetic.py", _v_evolve_unguarded_head, "C19-O3"),
    M.Variant("bayesian UCB switches sign on `minimize` although the model sees internal values (seed C19-H)", "solvor/bayesian.py", _v_ucb_sign_by_minimize, "C19-O2"),
    M.Variant("tabu updates the incumbent after the progress-stop return (seed C19-E)", TB, _v_tabu_update_after_progress, "C19-O3"),
    M.Variant("alns calls the user objective directly", LN, _v_user_objective_direct, "C19-O4"),
    M.Variant("evolve publishes the internal (signed) fitness", GE, _v_result_internal, "C19-O2"),
    M.Variant("particle swarm global best aliases a position edited in place", PS, _v_pso_alias, "C19-O1"),
    M.Variant("differential evolution mutant not clamped", DE, _v_de_no_clip, "C19-O6"),
    M.Variant("particle swarm evaluates before clamping", PS, _v_pso_eval_before_clip, "C19-O6"),
    M.Variant("anneal draws from the global random module", AN, _v_global_random, "C19-O5"),
    M.Variant("tabu builds an unseeded generator", TB, _v_second_rng, "C19-O5"),
    M.Variant("bayesian reports the iteration count as evaluations", BY, _v_evals_wrong, "C19-O4"),
    M.Variant("bfgs computes the objective before moving x", BF, _v_bfgs_stale, "C19-O1"),
    M.Variant("powell keeps the objective of a point it does not keep", PW, _v_powell_f_only, "C19-O1"),
    M.Variant("particle swarm loop variable unbound for max_iter=0 (original defect)", PS, _v_iteration_unbound, "C19-O5"),
    M.Variant("Evaluator.to_user forgets the sign", HP, _v_evaluator_sign, "C19-O2"),
    M.Variant("nelder_mead stores the expanded point with the reflected value", NM, _v_nm_wrong_value, "C19-O1"),
    M.Variant("differential evolution starts from the worst individual", DE, _v_de_init_max, "C19-O3"),
    M.Variant("differential evolution loads more warm-start members than it tracks (seed C19-D)", DE, _v_de_warm_start_uncapped, "C19-O3"),
    M.Variant("twin: alns hoists the user-sense values and publishes the best one", LN, _t_alns_hoisted_user_values, None),
    M.Variant("twin: reformat lns", LN, _t_reformat, None),
    M.Variant("twin: reformat anneal", AN, _t_reformat, None),
    M.Variant("twin: reformat particle_swarm", PS, _t_reformat, None),
    M.Variant("twin: reformat differential_evolution", DE, _t_reformat, None),
    M.Variant("twin: reformat nelder_mead", NM, _t_reformat, None),
    M.Variant("twin: reformat bfgs", BF, _t_reformat, None),
    M.Variant("twin: rename candidate locals in lns", LN, _t_rename_lns, None),
]
