"""C18 - job shop schedules and VRPTW bookkeeping (structural part): job_shop.py, vrp.py."""

from __future__ import annotations

import ast

from sa.cfg import cfg_of
from sa.facts import result_sites
from sa.guards import GuardView, atom_of, names_in
from sa.index import own_nodes
from sa.report import Ctx

from .common import generic_sweeps
from sa.undefined import possibly_undefined

from .sat_common import _enclosing_block

EXPLANATION = (
    "Decides structural necessary conditions of the scheduling / routing bookkeeping: (O1) both schedule writers "
    "(_dispatch, _rebuild_schedule) store (start, end) with start = max(machine clock, job clock), end = start + "
    "duration, set both clocks to end, read (machine, duration) from the job table at the stored key, and schedule an "
    "operation only when it is the job's next one; the published (schedule, makespan) pair is assigned together from "
    "_compute_makespan of that schedule; the local-search loop variable is defined even for zero iterations; (O2) "
    "partition effects of every VRP operator - each operator works on a copy, removal = filter ALL routes by the "
    "removed set and add that same set to `unassigned`, insertion = routes[v].insert(pos, c) paired with "
    "unassigned.remove(c) for the same c, `unassigned` is never overwritten wholesale; (O3) every operator refreshes "
    "the arrival times of every route it changed before it returns; VRPState.copy copies all mutable parts; (O4) "
    "solve_vrptw hands alns an objective closure over vrp_objective with the caller's weights, and vrp_objective is "
    "the documented weighted sum over that state. NOT decided: arrival-time arithmetic, penalty values, quality."
)

REMOVALS = ["random_removal", "worst_removal", "related_removal", "route_removal", "sync_removal"]
INSERTIONS = ["greedy_insertion", "regret_insertion", "sync_aware_insertion"]


def check_writer(ctx: Ctx, f):
    cfg = cfg_of(f.node)
    stores = [n for n in own_nodes(f.node) if isinstance(n, ast.Assign) and isinstance(n.targets[0], ast.Subscript) and isinstance(n.targets[0].slice, ast.Tuple) and isinstance(n.value, ast.Tuple) and len(n.value.elts) == 2]
    ctx.require(len(stores) >= 1, f"schedule store not found in {f.qualname}")
    stores.sort(key=lambda n: n.lineno)
    out = None
    for st in stores:
        j, op = [ast.unparse(e) for e in st.targets[0].slice.elts]
        s_name, e_name = [ast.unparse(e) for e in st.value.elts]
        blk = _enclosing_block(f.node, st)
        # statements executed with the store: its block plus the enclosing blocks' statements before it
        # (a store in a nested `if` still sees the assignments made just above that `if`)
        txt = [ast.unparse(x) for x in blk]
        outer = []
        for n in ast.walk(f.node):
            b = getattr(n, "body", None)
            if isinstance(b, list):
                for k, x in enumerate(b):
                    if isinstance(x, ast.If) and any(y is st for y in ast.walk(x)):
                        outer += [ast.unparse(y) for y in b[:k]]
        seen = outer + txt
        m = "machine"
        ok_src = False
        for x in [y for y in ast.walk(f.node) if isinstance(y, ast.Assign) and isinstance(y.targets[0], ast.Tuple) and "duration" in ast.unparse(y.targets[0])]:
            v = ast.unparse(x.value)
            if v == f"jobs[{j}][{op}]":
                ok_src = True
            elif v == "selected":
                t = ast.unparse(f.node)
                ok_src = "machine, duration = jobs[j][next_op[j]]" in t and "ready.append((j, next_op[j], machine, duration))" in t
        tag = f"store@{'fast-path' if st is not stores[-1] else 'main'}" if len(stores) > 1 else "store"
        ctx.ob("C18-O1", "R28 WRITER-DISCIPLINE", f, f"{tag}: (machine, duration) of the stored operation come from the job table at the stored key", ok_src, "", node=st)
        ok = f"{s_name} = max(machine_free[{m}], job_free[{j}])" in seen and (f"{e_name} = {s_name} + duration" in seen or e_name == s_name and False)
        ctx.ob("C18-O1", "R28 WRITER-DISCIPLINE", f, f"{tag}: start = max(machine clock, job clock); end = start + duration", ok, f"stored ({s_name}, {e_name})", node=st)
        # both clocks advance to the stored end on every path from the store to the next scheduling step
        sn = cfg.node_of(st)
        clock_nodes = [cfg.node_of(x) for x in own_nodes(f.node) if isinstance(x, ast.Assign) and ast.unparse(x) in (f"machine_free[{m}] = {e_name}", f"job_free[{j}] = {e_name}")]
        mfree = [c for c in clock_nodes if ast.unparse(c.ast).startswith("machine_free")]
        jfree = [c for c in clock_nodes if ast.unparse(c.ast).startswith("job_free")]
        head = sn.loop
        escaped = False
        for group in (mfree, jfree):
            reach = cfg.forward(sn, avoid={c.id for c in group})
            if not group or (head is not None and head.id in reach) or any(cfg.nodes[i].kind == "return" for i in reach):
                escaped = True
        ctx.ob("C18-O1", "R28 WRITER-DISCIPLINE", f, f"{tag}: both clocks advance to the operation's end before the next operation is scheduled", not escaped, "a stored operation that leaves the job or machine clock behind lets the next operation start before it ends", node=st)
        out = (st, j, op, txt)
    return out


def _search_result_returned_untouched(ctx: Ctx, sv):
    """Result.objective was computed by alns for the state it returns.  solve_vrptw hands that Result on as it is:
    a state that is edited afterwards (routes re-ordered, rows permuted) is no longer the state that was scored."""
    calls = [n for n in own_nodes(sv.node) if isinstance(n, ast.Call) and isinstance(n.func, ast.Name) and n.func.id == "alns"]
    ctx.require(len(calls) == 1, "solve_vrptw does not call alns exactly once")
    call = calls[0]
    rets = [n for n in own_nodes(sv.node) if isinstance(n, ast.Return)]
    direct = any(r.value is call for r in rets)
    holder = None
    for n in own_nodes(sv.node):
        if isinstance(n, ast.Assign) and n.value is call and isinstance(n.targets[0], ast.Name):
            holder = n.targets[0].id
    if direct:
        ctx.ob("C18-O4", "R5 PAIRING", sv, "the Result of the search is returned as alns built it (state and objective belong together)", True, "", node=call)
        return
    ctx.require(holder is not None, "the Result of alns is neither returned nor kept in a local")
    alias = {holder}
    changed = True
    while changed:
        changed = False
        for n in own_nodes(sv.node):
            if isinstance(n, ast.Assign) and isinstance(n.targets[0], ast.Name) and n.targets[0].id not in alias:
                b_ = n.value
                while isinstance(b_, (ast.Attribute, ast.Subscript)):
                    b_ = b_.value
                if isinstance(b_, ast.Name) and b_.id in alias:
                    alias.add(n.targets[0].id)
                    changed = True
    edits = []
    for n in own_nodes(sv.node):
        tgts = n.targets if isinstance(n, ast.Assign) else ([n.target] if isinstance(n, ast.AugAssign) else [])
        for t_ in tgts:
            if isinstance(t_, (ast.Attribute, ast.Subscript)):
                b_ = t_
                while isinstance(b_, (ast.Attribute, ast.Subscript)):
                    b_ = b_.value
                if isinstance(b_, ast.Name) and b_.id in alias:
                    edits.append(n)
        if isinstance(n, ast.Call) and isinstance(n.func, ast.Attribute) and n.func.attr in ("append", "extend", "insert", "remove", "pop", "clear", "sort", "reverse", "add", "discard", "update"):
            b_ = n.func.value
            while isinstance(b_, (ast.Attribute, ast.Subscript)):
                b_ = b_.value
            if isinstance(b_, ast.Name) and b_.id in alias:
                edits.append(n)
    returned = all(isinstance(r.value, ast.Name) and r.value.id == holder for r in rets if r.value is not None and not (isinstance(r.value, ast.Call) and ast.unparse(r.value.func) == "Result"))
    ctx.ob("C18-O4", "R5 PAIRING", sv, "the Result of the search is returned as alns built it (state and objective belong together)", returned and not edits, f"`{ast.unparse(edits[0])[:70]}` edits the state after it was scored: the reported objective is the score of the state before the edit" if edits else "the value returned is not the search result", node=edits[0] if edits else call)


def run(ctx: Ctx):
    d = ctx.func("job_shop", "_dispatch")
    r = ctx.func("job_shop", "_rebuild_schedule")
    api = ctx.func("job_shop", "solve_job_shop")
    st, j, op, txt = check_writer(ctx, d)
    ctx.ob("C18-O1", "R29 EXACTLY-ONCE", d, "dispatch schedules a job's next operation and advances its pointer in the same block", f"next_op[{j}] += 1" in txt and "if next_op[j] < len(jobs[j])" in ast.unparse(d.node), "", node=st)
    td = ast.unparse(d.node)
    ctx.ob("C18-O1", "R29 EXACTLY-ONCE", d, "dispatch runs once per operation of the instance", "total_ops = sum((len(job) for job in jobs))" in td and "for _ in range(total_ops)" in td, "", node=d.node)
    ctx.ob("C18-O1", "R10 TAG-EXHAUSTIVE", d, "an unknown dispatch rule is rejected, not silently replaced", "raise ValueError(f'Unknown dispatching rule: {rule}')" in td, "", node=d.node)
    st, j, op, txt = check_writer(ctx, r)
    tr = ast.unparse(r.node)
    ctx.ob("C18-O1", "R29 EXACTLY-ONCE", r, "rebuild schedules an operation only after its job predecessor, once (scheduled set), until all are placed", f"scheduled.add(({j}, {op}))" in txt and "if op_idx > 0 and (j, op_idx - 1) not in scheduled" in tr and "if (j, op_idx) in scheduled:\n                continue" in tr and "while len(scheduled) < len(all_ops)" in tr, "", node=st)
    # readiness depends on the job order only: any further condition can leave a round without a ready operation, and the
    # rebuild then leaves through `if not ready: break` with a partial schedule (smaller makespan, accepted as better)
    rcfg = cfg_of(r.node)
    rgv = GuardView(rcfg)
    rapp = [n for n in own_nodes(r.node) if isinstance(n, ast.Call) and ast.unparse(n.func) == "ready.append"]
    ctx.floor("readiness sites in _rebuild_schedule", len(rapp), 1)
    for ra in rapp:
        at = {a for a in rgv.guard_atoms(rcfg.stmt_node_containing(ra), stable_only=False, after_loops=False) if not a.startswith("IN-LOOP:")}
        allowed = {atom_of("len(scheduled) < len(all_ops)"), atom_of("(j, op_idx) not in scheduled")}
        extra = sorted(a for a in at if a not in allowed and not (a.startswith("NAND(") and "(j, op_idx - 1) in scheduled" in a and "op_idx" in a and a.count("|") == 1))
        ctx.ob("C18-O1", "R29 EXACTLY-ONCE", r, "an operation is ready as soon as it is unscheduled and its job predecessor is scheduled (nothing else)", not extra, f"also requires {extra}: together with the job order this can form a cycle, no operation is ready and the schedule is returned incomplete", node=ra)
    mk = ctx.func("job_shop", "_compute_makespan")
    ctx.ob("C18-O1", "R5 PAIRING", mk, "makespan = latest end time of the schedule", "max((end for _, end in schedule.values())) if schedule else 0" in ast.unparse(mk.node), "", node=mk.node)
    # pairing of schedule/makespan and best pair
    cfg = cfg_of(api.node)
    pairs = 0
    for n in own_nodes(api.node):
        if isinstance(n, ast.Assign) and ast.unparse(n.targets[0]) in ("makespan", "new_makespan"):
            pairs += 1
            arg = "schedule" if ast.unparse(n.targets[0]) == "makespan" else "new_schedule"
            v = ast.unparse(n.value)
            ok = v == f"_compute_makespan(jobs, {arg})" or v == "new_makespan"
            if v == "new_makespan":
                blk = [ast.unparse(x) for x in _enclosing_block(api.node, n)]
                ok = "schedule = new_schedule" in blk
            ctx.ob("C18-O1", "R5 PAIRING", api, f"`{ast.unparse(n)}`: the makespan variable holds the makespan of its schedule variable", ok, "", node=n)
        if isinstance(n, ast.Assign) and ast.unparse(n.targets[0]) == "best_makespan":
            blk = [ast.unparse(x) for x in _enclosing_block(api.node, n)]
            ctx.ob("C18-O1", "R5 PAIRING", api, "best schedule and best makespan are updated together from the current pair", "best_schedule = schedule" in blk and ast.unparse(n.value) == "makespan", "", node=n)
    ctx.floor("makespan assignments", pairs, 3)
    # ... and the other way round: a schedule variable never changes without its makespan variable
    for n in own_nodes(api.node):
        if isinstance(n, ast.Assign) and ast.unparse(n.targets[0]) in ("schedule", "best_schedule"):
            tv = ast.unparse(n.targets[0])
            mate = "makespan" if tv == "schedule" else "best_makespan"
            blk = _enclosing_block(api.node, n)
            ctx.ob("C18-O1", "R5 PAIRING", api, f"`{ast.unparse(n)}` comes with an assignment of `{mate}` in the same block", any(isinstance(x, ast.Assign) and ast.unparse(x.targets[0]) == mate for x in blk), f"a schedule replaced without its makespan leaves the pair inconsistent: the reported objective is then the makespan of another schedule", node=n)
    for s in result_sites(api):
        sol = ast.unparse(s.arg("solution"))
        if sol == "{}":
            continue
        ctx.ob("C18-O1", "R5 PAIRING", api, "published objective is the makespan of the published schedule", sol == "best_schedule" and ast.unparse(s.arg("objective")) in ("float(best_makespan)", "obj"), "", node=s.call)
    pu = possibly_undefined(api)
    ctx.ob("C18-O1", "R31 DEFINED-ON-ALL-PATHS", api, "every local read in solve_job_shop is bound on all paths (zero local-search iterations included)", not pu, "; ".join(f"`{nm}` at line {rd.lineno} may be unbound" for nm, rd in pu), node=api.node)

    # ---- O2 / O3 VRP
    n_ops = 0
    for name in REMOVALS + INSERTIONS:
        f = ctx.func("vrp", name)
        n_ops += 1
        cfg = cfg_of(f.node)
        gv = GuardView(cfg)
        first = f.node.body[1] if isinstance(f.node.body[0], ast.Expr) else f.node.body[0]
        ctx.ob("C18-O2", "R17 PARAM-IMMUTABLE", f, "operator works on a copy of the state it was given", ast.unparse(first) == "state = state.copy()", "ALNS keeps references to the current and best states: an operator that edits its argument corrupts them", node=first)
        overw = [n for n in own_nodes(f.node) if isinstance(n, ast.Assign) and ast.unparse(n.targets[0]) == "state.unassigned"]
        ctx.ob("C18-O2", "R16 PAIRED-EFFECTS", f, "`unassigned` is only ever updated element-wise, never overwritten", not overw, "a wholesale overwrite drops customers that are on no route", node=overw[0] if overw else f.node)
        if name in REMOVALS:
            ups = [n for n in own_nodes(f.node) if isinstance(n, ast.Call) and ast.unparse(n.func) == "state.unassigned.update"]
            ctx.ob("C18-O2", "R16 PAIRED-EFFECTS", f, "removal adds the removed set to `unassigned` exactly once", len(ups) == 1, "", node=f.node)
            if len(ups) == 1:
                S = ast.unparse(ups[0].args[0])
                filt = [n for n in own_nodes(f.node) if isinstance(n, ast.Assign) and ast.unparse(n.targets[0]) == "state.routes[v]" and isinstance(n.value, ast.ListComp)]
                ok = len(filt) == 1 and ast.unparse(filt[0].value) == f"[c for c in state.routes[v] if c not in {S}]"
                if ok:
                    lp = cfg.node_of(filt[0]).loop
                    ok = lp is not None and lp.kind == "for" and ast.unparse(lp.ast.iter) == "range(len(state.routes))"
                ctx.ob("C18-O2", "R16 PAIRED-EFFECTS", f, "removal filters ALL routes by the very set it marks unassigned", ok, f"set `{S}`; a customer that several vehicles visit must leave every route, otherwise it is routed and unassigned at once", node=ups[0])
                clears = [n for n in own_nodes(f.node) if isinstance(n, ast.Assign) and ast.unparse(n.targets[0]).startswith("state.routes[") and ast.unparse(n.value) == "[]"]
                ctx.ob("C18-O2", "R16 PAIRED-EFFECTS", f, "no route is emptied wholesale (only the filter removes customers)", not clears, "", node=clears[0] if clears else f.node)
        else:
            ins = [n for n in own_nodes(f.node) if isinstance(n, ast.Call) and isinstance(n.func, ast.Attribute) and n.func.attr == "insert" and ast.unparse(n.func.value).startswith("state.routes[")]
            ctx.ob("C18-O2", "R16 PAIRED-EFFECTS", f, "insertion operator inserts into routes", len(ins) >= 1, "", node=f.node)
            for i in ins:
                c = ast.unparse(i.args[1])
                sn = cfg.stmt_node_containing(i)
                blk = _enclosing_block(f.node, sn.ast)
                host = sn.ast
                rest = [ast.unparse(x) for x in blk[blk.index(host) + 1 :]]
                ok = f"state.unassigned.remove({c})" in rest
                if not ok and sn.loop is not None and sn.loop.kind == "for":
                    outer = _enclosing_block(f.node, sn.loop.ast)
                    rest = [ast.unparse(x) for x in outer[outer.index(sn.loop.ast) + 1 :]]
                    ok = f"state.unassigned.remove({c})" in rest[:1]
                ctx.ob("C18-O2", "R16 PAIRED-EFFECTS", f, f"inserting `{c}` on a route is paired with removing that customer from `unassigned`", ok, "", node=i)
        # O3 arrival times clean at every return that follows a route mutation
        muts = [cfg.stmt_node_containing(n) for n in own_nodes(f.node) if (isinstance(n, ast.Assign) and ast.unparse(n.targets[0]).startswith("state.routes[")) or (isinstance(n, ast.Call) and isinstance(n.func, ast.Attribute) and n.func.attr == "insert" and ast.unparse(n.func.value).startswith("state.routes["))]
        refresh_all = [cfg.stmt_node_containing(n) for n in own_nodes(f.node) if isinstance(n, ast.Call) and ast.unparse(n.func) == "state.update_arrival_times"]
        refresh_one = [cfg.stmt_node_containing(n) for n in own_nodes(f.node) if isinstance(n, ast.Assign) and ast.unparse(n.targets[0]) == "state.arrival_times[v]" and ast.unparse(n.value) == "state.compute_arrival_times(v)"]
        rets = [n for n in cfg.nodes if n.kind == "return"]
        dirty = False
        for mnode in muts:
            avoid = {x.id for x in refresh_all}
            # a per-route refresh in the same block as the mutation cleans that mutation
            blk = _enclosing_block(f.node, mnode.ast)
            local = [x for x in refresh_one if x.ast in blk and blk.index(x.ast) > blk.index(mnode.ast)]
            if local:
                continue
            reach = cfg.forward(mnode, avoid=avoid)
            if any(r_.id in reach for r_ in rets):
                dirty = True
        ctx.ob("C18-O3", "R16 dirty->clean", f, "every route change is followed by an arrival-time refresh before the operator returns", not dirty, "", node=f.node)
    ctx.floor("VRP operators", n_ops, 8)
    cp = ctx.func("vrp", "VRPState.copy")
    tcp = ast.unparse(cp.node)
    ctx.ob("C18-O3", "R17 PARAM-IMMUTABLE", cp, "state copy duplicates routes, arrival times, unassigned and sync assignments", all(x in tcp for x in ("routes=[list(r) for r in self.routes]", "arrival_times=[list(a) for a in self.arrival_times]", "unassigned=set(self.unassigned)", "sync_assignments={k: set(v) for k, v in self.sync_assignments.items()}")), "", node=cp.node)
    fp = ctx.func("vrp", "VRPState.from_problem")
    ctx.ob("C18-O2", "R16 PAIRED-EFFECTS", fp, "initially every customer except the depot is unassigned and every route is empty", "unassigned = {c.id for c in customers if c.id != 0}" in ast.unparse(fp.node) and "routes=[[] for _ in range(n_vehicles)]" in ast.unparse(fp.node), "", node=fp.node)

    ua = ctx.func("vrp", "VRPState.update_arrival_times")
    ucfg = cfg_of(ua.node)
    ust = [n for n in own_nodes(ua.node) if isinstance(n, ast.Assign) and ast.unparse(n.targets[0]).startswith("self.arrival_times[")]
    oku = len(ust) == 1
    if oku:
        un = ucfg.node_of(ust[0])
        lp = un.loop
        oku = lp is not None and lp.kind == "for" and ast.unparse(lp.ast.iter) in ("range(len(self.vehicles))", "range(len(self.routes))", "enumerate(self.routes)") and not [b for b in ucfg.guards(un) if b.test.kind == "test"] and "self.compute_arrival_times(" in ast.unparse(ust[0].value)
    ctx.ob("C18-O3", "R12 NO-CARDINALITY-CUTOFF", ua, "the refresh recomputes the arrival row of every vehicle, unconditionally", bool(oku), "a vehicle whose route was just emptied keeps its old row if empty routes are skipped: len(arrival_times[v]) != len(routes[v]), and the stored times are not the times of the state", node=ust[0] if ust else ua.node)
    # ---- O4 objective
    sv = ctx.func("vrp", "solve_vrptw")
    # the objective handed to alns: a closure `def objective(s): return vrp_objective(s, w=w, ...)`, or the same thing as
    # functools.partial(vrp_objective, w=w, ...) - either way every weight goes to the parameter of its own name
    ob = sv.children.get("objective")
    wcall = None
    if ob is not None:
        rets = [r for r in own_nodes(ob.node) if isinstance(r, ast.Return) and isinstance(r.value, ast.Call) and ast.unparse(r.value.func) == "vrp_objective"]
        wcall = rets[0].value if len(rets) == 1 and len(rets[0].value.args) == 1 and ast.unparse(rets[0].value.args[0]) == ob.params[0] else None
    else:
        pd = [n.value for n in own_nodes(sv.node) if isinstance(n, ast.Assign) and ast.unparse(n.targets[0]) == "objective" and isinstance(n.value, ast.Call) and ast.unparse(n.value.func) in ("partial", "functools.partial")]
        wcall = pd[0] if len(pd) == 1 and len(pd[0].args) == 1 and ast.unparse(pd[0].args[0]) == "vrp_objective" else None
    ctx.require(wcall is not None, "objective handed to alns not found in solve_vrptw (neither a closure over vrp_objective nor a partial of it)")
    kw = {k.arg: ast.unparse(k.value) for k in wcall.keywords}
    WEIGHTS = ("distance_weight", "vehicle_weight", "tw_penalty", "capacity_penalty", "sync_penalty")
    crossed = {w: kw.get(w) for w in WEIGHTS if kw.get(w) != w}
    ctx.ob("C18-O4", "R7 EVALUATOR-EXCLUSIVE", sv, "alns receives vrp_objective with each of the caller's weights bound to the parameter of the same name", not crossed and "alns(initial, objective, destroy_ops, repair_ops" in ast.unparse(sv.node).replace("\n", "").replace("        ", ""), f"{crossed}: a weight bound to another term's parameter scores that term with the wrong penalty, and the reported objective is not the documented sum for the caller's weights", node=wcall)
    ctx.step(_search_result_returned_untouched, sv)
    from .sat_common import _need as _need_j

    ctx.step(_need_j, "C18-O1", "R29 EXACTLY-ONCE", ctx.func("job_shop", "_rebuild_schedule"), "the rebuilt schedule places every operation of every job: the work list holds each (job, operation) once and the loop runs until all of them are scheduled", ["all_ops = []\n    for j, job in enumerate(jobs):\n        for op_idx in range(len(job)):\n            all_ops.append((j, op_idx))", "scheduled = set()\n    while len(scheduled) < len(all_ops):", "new_schedule[j, op_idx] = (start, end)\n        machine_free[machine] = end\n        job_free[j] = end\n        scheduled.add((j, op_idx))", "return new_schedule"], "a rebuilt schedule that lacks operations has a smaller makespan and is accepted as an improvement")
    from .sat_common import _need as _need_d

    ctx.step(_need_d, "C18-O4", "R16 PAIRED-EFFECTS", ctx.func("vrp", "VRPState.from_problem"), "the cached distance table holds the Euclidean distance of every pair, in both orientations", ["dist = [[0.0] * n for _ in range(n)]\n        for i in range(n):\n            for j in range(i + 1, n):\n                d = hypot(customers[i].x - customers[j].x, customers[i].y - customers[j].y)\n                dist[i][j] = d\n                dist[j][i] = d"], "the distance term of the objective and the arrival times read this table")
    ctx.step(_need_d, "C18-O4", "R16 PAIRED-EFFECTS", ctx.func("vrp", "VRPState.dist"), "dist() answers from the cached table when there is one and with the Euclidean distance otherwise", ["if self._dist is not None:\n            return self._dist[i][j]\n        ci, cj = (self.customers[i], self.customers[j])\n        return hypot(ci.x - cj.x, ci.y - cj.y)"])
    vo = ctx.func("vrp", "vrp_objective")
    tv = ast.unparse(vo.node)
    terms = ["distance_weight * state.total_distance()", "vehicle_weight * state.vehicles_used()", "tw_penalty * state.time_window_violation()", "capacity_penalty * state.capacity_violation()", "sync_penalty * state.sync_violation()", "unassigned_penalty * len(state.unassigned)"]
    ctx.ob("C18-O4", "R18 table", vo, "objective is the documented weighted sum of distance, vehicles, time-window, capacity, sync and unassigned terms of that state", all(f"obj += {t}" in tv for t in terms) and "obj = 0.0" in tv and tv.rstrip().endswith("return obj"), "", node=vo.node)
    # the scorers read the primary state only (routes, arrival times, unassigned, problem data): bookkeeping that only
    # some operators maintain (sync_assignments) is not what the documented sum is defined over
    PRIMARY = {"customers", "vehicles", "routes", "arrival_times", "unassigned", "_dist"}
    scorers = ["total_distance", "vehicles_used", "time_window_violation", "capacity_violation", "sync_violation"]
    seen_m, work, reads = set(), list(scorers), {}
    while work:
        mname = work.pop()
        if mname in seen_m or not ctx.repo.has_func("vrp", f"VRPState.{mname}"):
            continue
        seen_m.add(mname)
        mf = ctx.func("vrp", f"VRPState.{mname}")
        for n in ast.walk(mf.node):
            if isinstance(n, ast.Attribute) and isinstance(n.value, ast.Name) and n.value.id == "self":
                if ctx.repo.has_func("vrp", f"VRPState.{n.attr}"):
                    work.append(n.attr)
                else:
                    reads.setdefault(n.attr, (mf, n))
    ctx.floor("VRP scorer methods", len(seen_m), 5)
    foreign = sorted(set(reads) - PRIMARY)
    ctx.ob("C18-O4", "R7 EVALUATOR-EXCLUSIVE", reads[foreign[0]][0] if foreign else vo, "the terms of the objective are computed from routes, arrival times, unassigned set and problem data only", not foreign, f"reads self.{foreign[0]}: operators that do not maintain it (random/worst/related removal, greedy/regret insertion) leave it stale, and the score is then not the documented sum of the state" if foreign else "", node=reads[foreign[0]][1] if foreign else vo.node)
    SCORERS = {
        "route_distance": ["total = self.dist(0, route[0])", "for i in range(len(route) - 1):\n        total += self.dist(route[i], route[i + 1])", "total += self.dist(route[-1], 0)", "if not route:\n        return 0.0"],
        "total_distance": ["return sum((self.route_distance(v) for v in range(len(self.vehicles))))"],
        "route_load": ["return sum((self.customers[c].demand for c in self.routes[v]))"],
        "vehicles_used": ["return sum((1 for r in self.routes if r))"],
        "capacity_violation": ["load = self.route_load(v)", "if load > vehicle.capacity:\n            violation += load - vehicle.capacity", "for v, vehicle in enumerate(self.vehicles):"],
        "time_window_violation": ["arrival = self.arrival_times[v][i]", "if arrival > c.tw_end:\n                    violation += arrival - c.tw_end", "for v, route in enumerate(self.routes):"],
        "sync_violation": ["if c.required_vehicles <= 1:\n            continue", "for v, route in enumerate(self.routes):", "if len(visiting_vehicles) < c.required_vehicles:\n            violation += (c.required_vehicles - len(visiting_vehicles)) * 1000.0", "violation += max(times) - min(times)"],
        "compute_arrival_times": ["t = self.dist(0, route[0])", "t = max(t, c.tw_start)", "times.append(t)", "t += c.service_time", "if i < len(route) - 1:\n            t += self.dist(cid, route[i + 1])"],
    }
    for mname, frags in SCORERS.items():
        mf = ctx.func("vrp", f"VRPState.{mname}")
        tm = ast.unparse(mf.node)
        ctx.ob("C18-O4", "R18 table", mf, f"VRPState.{mname} computes the documented quantity of the state (term by term)", all(fr in tm for fr in frags), "", node=mf.node)
        # every route, stop and customer the documented sum ranges over takes part: the loops have no way round a term
        # except the ones listed with the method (sync_violation skips single-vehicle customers)
        jumps = [x for x in own_nodes(mf.node) if isinstance(x, (ast.Continue, ast.Break))]
        listed = sum(fr.count("continue") + fr.count("break") for fr in frags)
        ctx.ob("C18-O4", "R12 NO-CARDINALITY-CUTOFF", mf, f"VRPState.{mname} skips no route, stop or customer beyond the documented exceptions", len(jumps) == listed, f"`{ast.unparse(jumps[-1])}` at line {jumps[-1].lineno} ({len(jumps)} jump(s), {listed} documented): a route that is passed over contributes nothing - 'the last stop is on time' does not make the earlier stops on time - and the objective of the returned state is below the documented sum" if jumps else "", node=jumps[-1] if jumps else mf.node)
        # no return bypasses the term-by-term computation: the accumulator (or the one summing expression) is returned,
        # or the empty value for an empty route
        mcfg = cfg_of(mf.node)
        mgv = GuardView(mcfg)
        for r in own_nodes(mf.node):
            if not isinstance(r, ast.Return) or r.value is None:
                continue
            v = r.value
            okr = isinstance(v, ast.Name) or (isinstance(v, ast.Call) and ast.unparse(v.func) == "sum")
            if not okr and ast.unparse(v) in ("[]", "0.0", "0"):
                okr = "F:route" in mgv.guard_atoms(mcfg.node_of(r), stable_only=False)
            ctx.ob("C18-O4", "R14 GATE", mf, f"VRPState.{mname}: `{ast.unparse(r)[:60]}` is the accumulated quantity (or the empty value of an empty route)", okr, "a special-case return skips the rules the general computation applies to every stop (waiting for the window to open, service time, the leg back to the depot), so the quantity of such a route is not the documented one", node=r)
    # solve_vrptw hands back what alns publishes: the best state with the objective of that state
    al = ctx.func("lns", "alns")
    a_sites = result_sites(al)
    ctx.floor("Result sites in alns", len(a_sites), 2)
    for k_, s_ in enumerate(a_sites):
        o = s_.arg("objective")
        ot = ast.unparse(o)
        if isinstance(o, ast.Name):
            ds = [ast.unparse(d.value) for d in own_nodes(al.node) if isinstance(d, ast.Assign) and any(ast.unparse(t) == o.id for t in d.targets)]
            for d in own_nodes(al.node):
                if isinstance(d, ast.Assign) and isinstance(d.targets[0], ast.Tuple) and isinstance(d.value, ast.Tuple) and len(d.targets[0].elts) == len(d.value.elts):
                    ds += [ast.unparse(v) for t, v in zip(d.targets[0].elts, d.value.elts) if ast.unparse(t) == o.id]
            ot = ds[0] if len(set(ds)) == 1 else f"{o.id} <- {sorted(set(ds))}"
        ctx.ob("C18-O4", "R5 PAIRING", al, f"alns Result#{k_} publishes the best state with the objective of that state", ast.unparse(s_.arg("solution")) == "best_solution" and ot == "evaluate.to_user(best_obj)", f"solution `{ast.unparse(s_.arg('solution'))}`, objective `{ot}`", node=s_.call)
    ops_d = [n for n in own_nodes(sv.node) if isinstance(n, (ast.Assign, ast.AnnAssign)) and ast.unparse(n.targets[0] if isinstance(n, ast.Assign) else n.target) == "destroy_ops"]
    used = ast.unparse(ops_d[0].value) if ops_d else ""
    ctx.ob("C18-O4", "R18 table", sv, "the search uses the exported removal and insertion operators", all(x in ast.unparse(sv.node) for x in REMOVALS + INSERTIONS), "", node=sv.node)
    fp = ctx.func("vrp", "VRPState.from_problem")
    from .sat_common import _need as _need2

    _need2(ctx, "C18-O3", "R14 GATE", fp, "customer ids are checked to be the customers' positions before anything is built from them (routes, distances and arrival times go by position, the unassigned set by id)", ["if [c.id for c in customers] != list(range(n)):\n        raise ValueError", "unassigned = {c.id for c in customers if c.id != 0}"], "with ids that are not 1..n in input order a customer is in the unassigned set under one number and routed under another: it ends up on no route and not unassigned, and no penalty is charged for it")
    generic_sweeps(ctx)


# ---------------------------------------------------------------------------------------------
from sa import mutate as M  # noqa: E402

JS, VR = "solvor/job_shop.py", "solvor/vrp.py"


def _v_single_stop_arrival_shortcut(tree):
    g = M.find_func(tree, "VRPState.compute_arrival_times")
    M.replace_stmt(g, lambda s: isinstance(s, ast.Assign) and M.src_is(s.targets[0], "times"), lambda s: M.stmts("if len(route) == 1:\n    return [self.dist(0, route[0])]") + [s])


_PARTIAL = "objective = partial(vrp_objective, distance_weight=distance_weight, vehicle_weight=vehicle_weight, tw_penalty=%s, capacity_penalty=%s, sync_penalty=sync_penalty)"


def _objective_as_partial(tree, a, b):
    g = M.find_func(tree, "solve_vrptw")
    idx = [i for i, st_ in enumerate(g.body) if isinstance(st_, ast.FunctionDef) and st_.name == "objective"]
    if not idx:
        raise M.Skip("objective closure not found")
    g.body[idx[0]] = M.stmts(_PARTIAL % (a, b))[0]
    tree.body.insert(0, M.stmts("from functools import partial")[0])


def _v_partial_crossed_penalties(tree):
    _objective_as_partial(tree, "capacity_penalty", "tw_penalty")


def _t_objective_partial(tree):
    _objective_as_partial(tree, "tw_penalty", "capacity_penalty")


def _v_refresh_skips_empty_routes(tree):
    g = M.find_func(tree, "VRPState.update_arrival_times")
    M.replace_stmt(g, lambda s: isinstance(s, ast.Assign) and M.src_has(s.targets[0], "self.arrival_times["), lambda s: M.stmts("if self.routes[v]:\n    self.arrival_times[v] = self.compute_arrival_times(v)"))


def _v_ids_unchecked(tree):
    g = M.find_func(tree, "VRPState.from_problem")
    M.replace_stmt(g, lambda s: isinstance(s, ast.If) and M.src_has(s.test, "c.id for c in customers"), [])


def _v_route_removal_original(tree):
    g = M.find_func(tree, "route_removal")
    keep = []
    for s in g.body:
        if isinstance(s, ast.AnnAssign) and M.src_has(s.target, "to_remove"):
            break
        keep.append(s)
    g.body = keep + M.stmts("for v in to_remove_vehicles:\n    state.unassigned.update(state.routes[v])\n    state.routes[v] = []\n    state.arrival_times[v] = []\nreturn state")


def _v_sync_overwrite(tree):
    g = M.find_func(tree, "sync_aware_insertion")
    M.replace_stmt(g, lambda s: isinstance(s, ast.AugAssign) and M.src_is(s.target, "state.unassigned") and isinstance(s.op, ast.Sub), M.stmts("state.unassigned = set(single)"))


def _v_sync_scan_recorded(tree):
    g = M.find_func(tree, "VRPState.sync_violation")
    M.replace_stmt(g, lambda s: isinstance(s, ast.For) and M.src_is(s.iter, "enumerate(self.routes)"), lambda s: M.stmts("recorded = self.sync_assignments.get(cid)\ncandidates = range(len(self.routes)) if recorded is None else sorted(recorded)") + [s])
    M.replace_expr(g, lambda e: M.src_is(e, "enumerate(self.routes)"), M.expr("((v, self.routes[v]) for v in candidates)"))


def _v_alns_reports_current(tree):
    g = M.find_func(tree, "alns")
    rets = [n for n in ast.walk(g) if isinstance(n, ast.Return) and isinstance(n.value, ast.Call) and M.src_has(n.value, "evaluate.to_user(best_obj)")]
    if not rets:
        raise M.Skip("early return not found")
    rets[0].value.args[1] = M.expr("evaluate.to_user(current_obj)")


def _t_alns_hoisted_user_values(tree):
    """equally valid: user-sense values hoisted into locals, the best one is published"""
    g = M.find_func(tree, "alns")
    rets = [n for n in ast.walk(g) if isinstance(n, ast.Return) and isinstance(n.value, ast.Call) and M.src_has(n.value, "evaluate.to_user(best_obj)")]
    if not rets:
        raise M.Skip("early return not found")
    rets[0].value.args[1] = M.expr("best_user")
    M.replace_stmt(g, lambda s: isinstance(s, ast.If) and any(r in ast.walk(s) for r in rets[:1]), lambda s: M.stmts("cur_user, best_user = (evaluate.to_user(current_obj), evaluate.to_user(best_obj))") + [s])


def _v_machine_order_binding(tree):
    g = M.find_func(tree, "_rebuild_schedule")
    M.replace_stmt(g, lambda s: isinstance(s, ast.Expr) and M.src_is(s.value, "ready.append((j, op_idx))"), lambda s: M.stmts("pos = machine_order_map.get((j, op_idx), 0)\nif pos > 0 and machine_order[pos - 1][:2] not in scheduled:\n    continue") + [s])


def _v_route_distance_no_return_leg(tree):
    g = M.find_func(tree, "VRPState.route_distance")
    M.replace_stmt(g, lambda s: isinstance(s, ast.AugAssign) and M.src_has(s.value, "route[-1], 0"), [])


def _v_no_copy(tree):
    g = M.find_func(tree, "worst_removal")
    M.replace_stmt(g, lambda s: M.src_is(s, "state = state.copy()"), [])


def _v_insert_without_remove(tree):
    g = M.find_func(tree, "greedy_insertion")
    M.replace_stmt(g, lambda s: M.src_is(s, "state.unassigned.remove(cid)"), [])


def _v_stale_arrivals(tree):
    g = M.find_func(tree, "related_removal")
    M.replace_stmt(g, lambda s: M.src_is(s, "state.update_arrival_times()"), [])


def _v_filter_other_set(tree):
    g = M.find_func(tree, "random_removal")
    M.replace_expr(g, lambda e: M.src_is(e, "state.unassigned.update(to_remove)"), M.expr("state.unassigned.update(assigned[:n_remove])"))


def _v_dispatch_clock(tree):
    g = M.find_func(tree, "_dispatch")
    M.replace_stmt(g, lambda s: M.src_is(s, "job_free[j] = end"), [])


def _v_rebuild_start(tree):
    g = M.find_func(tree, "_rebuild_schedule")
    M.replace_expr(g, lambda e: M.src_is(e, "max(machine_free[machine], job_free[j])"), M.expr("machine_free[machine]"))


def _v_best_stale(tree):
    g = M.find_func(tree, "solve_job_shop")
    M.replace_stmt(g, lambda s: M.src_is(s, "best_schedule = schedule") and True, [], count=1)
    M.replace_stmt(g, lambda s: isinstance(s, ast.If) and M.src_is(s.test, "makespan < best_makespan"), M.stmts("if makespan < best_makespan:\n    best_makespan = makespan"))


def _v_iteration_unbound(tree):
    g = M.find_func(tree, "solve_job_shop")
    M.replace_stmt(g, lambda s: M.src_is(s, "iteration = 0"), [])


def _v_objective_weights(tree):
    g = M.find_func(tree, "solve_vrptw.objective")
    M.replace_expr(g, lambda e: isinstance(e, ast.Call) and M.src_has(e.func, "vrp_objective"), lambda e: M.expr("vrp_objective(s, distance_weight=distance_weight)"))


def _t_reformat(tree):
    pass


def _v_zero_duration_fast_path(tree):
    g = M.find_func(tree, "_dispatch")
    M.replace_stmt(g, lambda s: M.src_is(s, "end = start + duration"), M.stmts("if duration == 0:\n    schedule[j, op_idx] = (start, start)\n    next_op[j] += 1\n    continue\nend = start + duration"))


def _hold_alns_result(tree, extra):
    g = M.find_func(tree, "solve_vrptw")
    for i, st in enumerate(g.body):
        if isinstance(st, ast.Return) and isinstance(st.value, ast.Call) and M.src_is(st.value.func, "alns"):
            keep = ast.Assign(targets=[ast.Name(id="result", ctx=ast.Store())], value=st.value)
            g.body[i : i + 1] = [keep] + M.stmts(extra + "return result")
            ast.fix_missing_locations(g)
            return
    raise M.Skip("return alns(..) not found")


def _v_routes_reordered_after_search(tree):
    _hold_alns_result(tree, "best = result.solution\norder = sorted(range(len(best.routes)), key=lambda v: not best.routes[v])\nbest.routes = [best.routes[v] for v in order]\n")


def _t_result_held_in_a_local(tree):
    _hold_alns_result(tree, "")


def _v_lateness_skips_punctual_routes(tree):
    g = M.find_func(tree, "VRPState.time_window_violation")
    loop = [x for x in g.body if isinstance(x, ast.For)]
    if not loop:
        raise M.Skip("route loop not found")
    loop[0].body[0:0] = M.stmts("if route and len(self.arrival_times[v]) == len(route) and self.arrival_times[v][-1] <= self.customers[route[-1]].tw_end:\n    continue")


VARIANTS = [
    M.Variant("time_window_violation passes over a route whose last stop is on time (seed C18-U)", VR, _v_lateness_skips_punctual_routes, "C18-O4"),
    M.Variant("routes of the best state re-ordered after the search scored it (seed C18-O)", VR, _v_routes_reordered_after_search, "C18-O4"),
    M.Variant("twin: the alns Result is kept in a local and returned unchanged", VR, _t_result_held_in_a_local, None),
    M.Variant("zero-duration fast path skips the clock updates (seed C18-A)", JS, _v_zero_duration_fast_path, "C18-O1"),

    M.Variant("compute_arrival_times answers a one-stop route without the waiting rule (seed C18-J)", VR, _v_single_stop_arrival_shortcut, "C18-O4"),
    M.Variant("customer ids are used without checking that they are the positions (original defect)", VR, _v_ids_unchecked, "C18-O3"),
    M.Variant("objective built with functools.partial, time-window and capacity penalties crossed (seed C18-M)", VR, _v_partial_crossed_penalties, "C18-"),
    M.Variant("twin: objective built with functools.partial, every weight to its own parameter", VR, _t_objective_partial, None),
    M.Variant("update_arrival_times skips empty routes: an emptied route keeps its old row (seed C18-N)", VR, _v_refresh_skips_empty_routes, "C18-O3"),
    M.Variant("route_removal clears one route only (original defect)", VR, _v_route_removal_original, "C18-O2"),
    M.Variant("sync_aware_insertion overwrites unassigned (original defect)", VR, _v_sync_overwrite, "C18-O2"),
    M.Variant("worst_removal edits its argument", VR, _v_no_copy, "C18-O2"),
    M.Variant("greedy_insertion leaves inserted customers unassigned", VR, _v_insert_without_remove, "C18-O2"),
    M.Variant("related_removal returns stale arrival times", VR, _v_stale_arrivals, "C18-O3"),
    M.Variant("random_removal marks a different set unassigned than it removed", VR, _v_filter_other_set, "C18-O2"),
    M.Variant("dispatch does not advance the job clock", JS, _v_dispatch_clock, "C18-O1"),
    M.Variant("rebuild ignores the job clock", JS, _v_rebuild_start, "C18-O1"),
    M.Variant("best makespan updated without its schedule", JS, _v_best_stale, "C18-O1"),
    M.Variant("loop variable unbound for zero iterations (original defect)", JS, _v_iteration_unbound, "C18-O1"),
    M.Variant("objective closure drops the caller's penalties", VR, _v_objective_weights, "C18-O4"),
    M.Variant("sync_violation scans only the vehicles recorded in sync_assignments (seed C18-D)", VR, _v_sync_scan_recorded, "C18-O4"),
    M.Variant("alns early stop reports the current objective with the best state (seed C18-C)", "solvor/lns.py", _v_alns_reports_current, "C18-O4"),
    M.Variant("twin: alns hoists the user-sense values and publishes the best one", "solvor/lns.py", _t_alns_hoisted_user_values, None),
    M.Variant("rebuild makes the requested machine order binding (seed C18-E)", JS, _v_machine_order_binding, "C18-O1"),
    M.Variant("route distance forgets the leg back to the depot", VR, _v_route_distance_no_return_leg, "C18-O4"),
    M.Variant("twin: reformat job_shop", JS, _t_reformat, None),
    M.Variant("twin: reformat vrp", VR, _t_reformat, None),
]
