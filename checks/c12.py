"""C12 - Rust and Python back-ends observably equivalent (Python-visible contract)."""

from __future__ import annotations

import ast
import re

from sa.cfg import cfg_of
from sa.facts import result_sites
from sa.guards import GuardView, atom_of, names_in
from sa.index import own_nodes
from sa.report import Ctx

from .common import generic_sweeps
from sa.rustfacts import RustFacts

EXPLANATION = (
    "Decides the Python-visible contract between the nine accelerated functions and their Rust adapters: (O1) registry "
    "- @with_rust_backend functions and @rust_adapter names are in bijection, parameter names / kinds / defaults "
    "agree; (O2) binding table - every rust.<f>(..) call resolves to a #[pyfunction] registered in lib.rs with "
    "compatible positional arity, every result[\"key\"] the adapter reads is written with set_item by that binding, the "
    "Rust Status discriminants equal the Python IntEnum values; (O3) outcome signatures - per pair, the table "
    "{condition class (target given / found / connected / acyclic / converged) -> (status, canonical form of the "
    "solution, kind of objective where the property names it)} computed from the Python implementation (with "
    "summaries of the generic routine it delegates to) equals the adapter's; (O4) preprocessing policy - the adapter "
    "hands every input edge to the kernel (no first-seen de-duplication) so that the kernel's duplicate-edge rule "
    "(minimum) matches the Python implementation's; undirected expansion mirrors both orientations; (O5) routing - "
    "the decorator forwards *args/**kwargs unchanged to either arm and falls back to Python when no adapter is "
    "registered; (O6) Kahn's bookkeeping in the Python topological sort counts every stored edge occurrence once (the kernel does); (G3) no Python implementation keeps state between calls. (O7) both PageRank loops compare the same measure of change with the tolerance. (O8) the Python edge-list wrappers build one successor list per node from every input edge and delegate with it. (O9) adapters build their Results only after the kernel call. NOT decided: algorithmic equivalence of the Rust kernels and the Python bodies (cross-language "
    "semantics)."
)

PAIRS = {
    # python function: (module, generic routine it delegates to or None)
    "floyd_warshall": ("floyd_warshall", None),
    "bellman_ford": ("bellman_ford", None),
    "dijkstra_edges": ("dijkstra", "dijkstra"),
    "bfs_edges": ("bfs", "bfs"),
    "dfs_edges": ("bfs", "dfs"),
    "kruskal": ("mst", None),
    "pagerank_edges": ("pagerank", "pagerank"),
    "strongly_connected_components_edges": ("scc", "strongly_connected_components"),
    "topological_sort_edges": ("scc", "topological_sort"),
}


def _sig(f):
    a = f.node.args
    pos = [(x.arg, "pos") for x in a.posonlyargs + a.args]
    defaults = [None] * (len(pos) - len(a.defaults)) + [ast.unparse(d) for d in a.defaults]
    kw = [(x.arg, "kw") for x in a.kwonlyargs]
    kwd = [ast.unparse(d) if d is not None else None for d in a.kw_defaults]
    return [(n, k, d) for (n, k), d in zip(pos, defaults)] + [(n, k, d) for (n, k), d in zip(kw, kwd)]


def _form(e: ast.AST) -> str:
    """canonical form class of a published solution expression"""
    if isinstance(e, ast.Constant) and e.value is None:
        return "none"
    t = ast.unparse(e)
    if isinstance(e, ast.Call) and isinstance(e.func, ast.Name) and e.func.id == "sorted":
        return "sorted-list"
    if "visited_order" in t or t == "visited":
        return "visit-order/set"
    if "path" in t:
        return "path"
    return "value"


def _objective_kind(e: ast.AST) -> str:
    t = ast.unparse(e)
    if t in ("float('inf')", "float('-inf')"):
        return t
    if "len(" in t and "path" in t:
        return "len(path)-1"
    if "weight" in t:
        return "total-weight"
    if "dist" in t or "g[" in t:
        return "distance"
    return "other"


def _classes(at: set[str]) -> frozenset:
    """condition class of a publication, read from its guard atoms (restricted to API-level conditions)"""
    c = set()
    for a in at:
        if a in ("target is None",):
            c.add("no-target")
        elif a in ("target is not None", "T:is_goal"):
            c.add("target")
        elif a == "F:is_goal":
            c.add("no-target")
        elif a in ("T:allow_forest",):
            c.add("forest-allowed")
        elif a in ("F:allow_forest",):
            c.add("forest-not-allowed")
    return frozenset(c)


def resolve_helper(repo, modname, f, generic):
    """a function whose whole body is `return helper(...)` (helper in the same module) is judged by the helper; the
    generic routine may arrive there as an argument - returns (function to analyse, name the generic routine has in it)"""
    body = [b for b in f.node.body if not (isinstance(b, ast.Expr) and isinstance(b.value, ast.Constant))]
    if len(body) == 1 and isinstance(body[0], ast.Return) and isinstance(body[0].value, ast.Call) and isinstance(body[0].value.func, ast.Name) and body[0].value.func.id != generic:
        hf = repo.module(modname).funcs.get(body[0].value.func.id)
        if hf is not None and hf.parent is None:
            call = body[0].value
            local = generic
            for i_, a_ in enumerate(call.args):
                if isinstance(a_, ast.Name) and a_.id == generic and i_ < len(hf.params):
                    local = list(hf.params)[i_]
            for k_ in call.keywords:
                if isinstance(k_.value, ast.Name) and k_.value.id == generic and k_.arg:
                    local = k_.arg
            return hf, local
    return f, generic


def python_table(ctx: Ctx, f, generic):
    """{(class, solution-is-none) -> set of (status, form, objective kind)}"""
    table: dict = {}
    pair_mod = PAIRS[f.name][0]
    if generic is not None:
        f, _ = resolve_helper(ctx.repo, pair_mod, f, generic)
        ctx.touch(f)
    cfg = cfg_of(f.node)
    gv = GuardView(cfg)

    def add(cls, status, form, obj):
        table.setdefault((cls, form == "none"), set()).add((status, form, obj))

    for s in result_sites(f):
        at = gv.guard_atoms(s.node, stable_only=False)
        for st in s.statuses:
            if st.startswith("PASS") or st == "MAX_ITER":
                continue
            add(_classes(at), st, _form(s.arg("solution")), _objective_kind(s.arg("objective")))
    # passthrough returns of the generic routine's Result
    if generic is not None:
        g = ctx.func(pair_mod, generic)
        gcfg = cfg_of(g.node)
        ggv = GuardView(gcfg)
        for n in own_nodes(f.node):
            if isinstance(n, ast.Return) and n.value is not None and not (isinstance(n.value, ast.Call) and ast.unparse(n.value.func) == "Result"):
                rn = cfg.node_of(n)
                wat = _classes(gv.guard_atoms(rn, stable_only=False))
                for s in result_sites(g):
                    gat = _classes(ggv.guard_atoms(s.node, stable_only=False))
                    if ("target" in wat and "no-target" in gat) or ("no-target" in wat and "target" in gat):
                        continue
                    if not wat and "target" in g.params or not wat and "goal" in g.params:
                        pass
                    for st in s.statuses:
                        if st == "MAX_ITER" or st.startswith(("PASS", "?")):
                            continue
                        add(wat | (gat - {"target", "no-target"}) if wat else gat, st, _form(s.arg("solution")), _objective_kind(s.arg("objective")))
    return table


def adapter_table(ctx: Ctx, a):
    table: dict = {}
    cfg = cfg_of(a.node)
    gv = GuardView(cfg)
    for s in result_sites(a):
        at = gv.guard_atoms(s.node, stable_only=False)
        sts = s.statuses
        st_expr = s.arg("status")
        if isinstance(st_expr, ast.Name):
            # status variable with IfExp on a result flag: enumerate both
            sts = frozenset(x for x in sts)
        for st in sts:
            if st == "MAX_ITER":
                continue
            table.setdefault((_classes(at), _form(s.arg("solution")) == "none"), set()).add((st, _form(s.arg("solution")), _objective_kind(s.arg("objective"))))
    return table


REFERENCE_SCOPE = {
    # file -> prefixes of the qualified names that belong to a Python reference routine of an accelerated function
    "solvor/bellman_ford.py": ("bellman_ford", "_reconstruct_indexed"),
    "solvor/floyd_warshall.py": ("floyd_warshall",),
    "solvor/dijkstra.py": ("dijkstra",),
    "solvor/bfs.py": ("bfs", "dfs"),
    "solvor/mst.py": ("kruskal",),
    "solvor/utils/data_structures.py": ("UnionFind",),
    "solvor/pagerank.py": ("pagerank",),
    "solvor/scc.py": ("strongly_connected_components", "topological_sort"),
    "solvor/utils/helpers.py": ("reconstruct_path",),
}


# (adapter, status or "solution") -> atoms that must guard that Result: the outcome tables of O3 compare *sets* of
# outcomes per query class and cannot see a flag read with the wrong polarity
POLARITY = {
    "floyd_warshall": {"UNBOUNDED": {"T:result['has_negative_cycle']"}, "OPTIMAL": {"F:result['has_negative_cycle']"}},
    "bellman_ford": {"UNBOUNDED": {"T:result['has_negative_cycle']"}, "INFEASIBLE": {"F:result['has_negative_cycle']", "target is not None", "result['distances'][target] == float('inf')"}, "OPTIMAL": {"F:result['has_negative_cycle']"}},
    "kruskal": {"INFEASIBLE": {"F:result['is_connected']", "F:allow_forest"}, "FEASIBLE": {"F:result['is_connected']", "T:allow_forest"}, "OPTIMAL": {"T:result['is_connected']"}},
    "dijkstra_edges": {"INFEASIBLE": {"target is not None", "F:result['target_reached']"}, "path": {"target is not None", "T:result['target_reached']"}},
    "bfs_edges": {"INFEASIBLE": {"target is not None", "F:result['target_reached']"}, "path": {"target is not None", "T:result['target_reached']"}},
    "dfs_edges": {"INFEASIBLE": {"target is not None", "F:result['target_reached']"}, "path": {"target is not None", "T:result['target_reached']"}},
    "topological_sort_edges": {"INFEASIBLE": {"F:result['is_acyclic']"}, "OPTIMAL": {"T:result['is_acyclic']"}},
}


def toposort_objective(ctx: Ctx, adapters):
    """`objective` is a field of the answer: for an order it is the number of nodes ordered, on both paths (the adapter
    used to report a constant 0 where the Python routine reports len(order): ledger row 72)."""
    a = adapters.get("topological_sort_edges")
    ctx.require(a is not None, "adapter of topological_sort_edges not found")
    f = ctx.func("scc", "topological_sort")
    for fn_, want in ((a, "len(order)"), (f, "len(result)")):
        sites = [s_ for s_ in result_sites(fn_) if "OPTIMAL" in s_.statuses and ast.unparse(s_.arg("solution")) not in ("None", "[]")]
        ctx.ob("C12-O3", "R18 outcome-signature", fn_, "pair:topological_sort_edges the objective of an order is the number of nodes ordered", bool(sites) and all(ast.unparse(s_.arg("objective")) == want for s_ in sites), f"{[ast.unparse(s_.arg('objective')) for s_ in sites]}: a constant here makes the back-end visible in the result", node=sites[0].call if sites else fn_.node)


def adapter_polarity(ctx: Ctx, adapters):
    n = 0
    for name, want in sorted(POLARITY.items()):
        a = adapters.get(name)
        if a is None:
            continue
        acfg = cfg_of(a.node)
        agv = GuardView(acfg)
        seen = set()
        for s_ in result_sites(a):
            at = {atom_of(x) if not x.startswith(("T:", "F:", "OR(", "NAND(", "IN-LOOP", "AFTER-LOOP")) else x for x in agv.guard_atoms(s_.node, stable_only=False)}
            keys = [st for st in s_.statuses if st in want]
            if "path" in want and "path" in ast.unparse(s_.arg("solution")) and "INFEASIBLE" not in s_.statuses:
                keys = ["path"]
            if name == "bellman_ford" and "UNBOUNDED" in s_.statuses and atom_of("len(path) > n_nodes") in at:
                # the second way to UNBOUNDED both implementations share: the predecessor chain from the target runs in a
                # circle (a zero-weight cycle that rounding made negative) - the walk is cut off after n_nodes steps
                walk = any(ast.unparse(x) == "current = result['predecessors'][current]" for x in own_nodes(a.node))
                ctx.ob("C12-O3", "R1 STATUS-GUARD", a, f"pair:{name} UNBOUNDED for a predecessor chain that does not end, as on the Python path", walk and "F:result['has_negative_cycle']" in at, "", node=s_.call)
                continue
            for k_ in keys:
                need = {atom_of(x) if not x.startswith(("T:", "F:")) else x for x in want[k_]}
                if k_ == "OPTIMAL" and "target is not None" in at and name == "bellman_ford":
                    need = need | {atom_of("result['distances'][target] != float('inf')")}
                n += 1
                seen.add(k_)
                ctx.ob("C12-O3", "R1 STATUS-GUARD", a, f"pair:{name} the {k_} answer is given under the kernel flag's own polarity", need <= at, f"needs {sorted(need - at)}; guards {sorted(x for x in at if 'result' in x or 'target' in x or 'allow' in x)}: a flag read the wrong way round turns 'reached' into INFEASIBLE and the other way round, while the set of possible outcomes stays the same", node=s_.call)
        missing = set(want) - seen
        ctx.ob("C12-O3", "R3 STATUS-USE", a, f"pair:{name} has a publication site for each of {sorted(want)}", not missing, f"missing {sorted(missing)}", node=a.node)
    ctx.floor("adapter answers checked for flag polarity", n, 16)
    fw = adapters.get("floyd_warshall")
    if fw is not None:
        from .sat_common import _need

        _need(ctx, "C12-O4", "R18 SIBLING-AGREEMENT (policy)", fw, "undirected mode hands the kernel both orientations of every edge", ["if not directed:", "expanded.append((u, v, w))\n        expanded.append((v, u, w))", "edges = expanded"])
    bfa = adapters.get("bellman_ford")
    if bfa is not None:
        from .sat_common import _need

        _need(ctx, "C12-O3", "R5 PAIRING", bfa, "the path is rebuilt from the kernel's predecessor array, target first, and reversed", ["current = target\n    while current != -1:\n        if len(path) > n_nodes:\n            return Result(None, float('-inf'), result['iterations'], 0, Status.UNBOUNDED)\n        path.append(current)\n        current = result['predecessors'][current]\n    path.reverse()"])


def reference_routines(ctx: Ctx):
    """O10: the Rust kernels were written to mirror the Python routines, and the properties that own those routines
    (C11 shortest paths, C13 kruskal/union-find, C14 SCC/topological sort, C15 PageRank) state their obligations step
    by step.  A Python routine that leaves its reference form answers differently from the kernel, so what those
    analyses decide about the nine accelerated functions' routines counts here as well (their other functions - prim,
    condense, A*, k-core ... - do not)."""
    import importlib

    from sa.report import run_module

    n = 0
    for sib in ("c11", "c13", "c14", "c15"):
        mod = importlib.import_module(f"checks.{sib}")
        sub = Ctx(sib.upper(), ctx.repo, "quick")
        run_module(mod, sub)
        if sub.aborted:
            # the owning analysis could not read a routine: what it would have decided about the reference form is
            # unknown, which must not look like "all obligations discharged" here
            ctx.step_aborts.append(f"[{sib.upper()}] {sub.aborted}")
        for o in sub.obs:
            if "-G" in o.oid or o.severity != "violation":
                continue
            pref = REFERENCE_SCOPE.get(o.rel)
            if not pref or not o.func.startswith(pref):
                continue
            n += 1
            ob_ = ctx.ob("C12-O10", o.rule, None, f"[{o.oid}] {o.construct}", o.ok, (o.detail + " - the kernel mirrors the reference form of this routine, so the Python back-end now answers differently from the Rust one") if not o.ok else "", rel=o.rel, fname=o.func)
            ob_.lineno = o.lineno
    ctx.floor("obligations on the Python reference routines (from C11, C13, C14, C15)", n, 60)


def run(ctx: Ctx):
    repo = ctx.repo
    rf = RustFacts(repo.root)
    ad_mod = repo.module("rust.adapters")
    rt_mod = repo.module("rust")
    # O1 registry
    decorated = {}
    for m in repo.modules.values():
        for q, f in m.funcs.items():
            if f.parent is None and "with_rust_backend" in f.decorators():
                decorated[f.name] = f
    adapters = {}
    for q, f in ad_mod.funcs.items():
        for d in f.node.decorator_list:
            if isinstance(d, ast.Call) and ast.unparse(d.func) == "rust_adapter" and d.args and isinstance(d.args[0], ast.Constant):
                adapters[d.args[0].value] = f
    ctx.floor("accelerated functions", len(decorated), 9)
    ctx.floor("registered adapters", len(adapters), 9)
    for name in sorted(set(decorated) | set(adapters)):
        f, a = decorated.get(name), adapters.get(name)
        ctx.ob("C12-O1", "R18 registry", f or a, f"pair:{name} has both a @with_rust_backend function and a @rust_adapter", f is not None and a is not None, "an adapter registered under a name no function carries is never used; a decorated function without adapter silently stays on Python", node=(f or a).node)
        if f is None or a is None:
            continue
        ctx.touch(f), ctx.touch(a)
        ctx.ob("C12-O1", "R18 registry", a, f"pair:{name} parameter names, kinds and defaults agree", _sig(f) == _sig(a), f"python {_sig(f)} / adapter {_sig(a)}", node=a.node)

    # O2 binding table
    py_status = {}
    tm = repo.module("types")
    cls = tm.classes.get("Status")
    ctx.require(cls is not None, "Status enum vanished")
    k = 0
    for s in cls.body:
        if isinstance(s, ast.Assign) and isinstance(s.value, ast.Call) and ast.unparse(s.value.func) == "auto":
            k += 1
            py_status[s.targets[0].id] = k
        elif isinstance(s, ast.Assign) and isinstance(s.value, ast.Constant):
            k = s.value.value
            py_status[s.targets[0].id] = k
    norm = {n.replace("_", "").lower(): v for n, v in py_status.items()}
    rnorm = {n.lower(): v for n, v in rf.status.items()}
    ctx.ob("C12-O2", "R18 table", None, "Rust Status discriminants equal the Python IntEnum values", norm == rnorm and len(norm) == 5, f"python {py_status} / rust {rf.status}", rel="rust/src/types.rs", fname="enum Status")
    for name, a in sorted(adapters.items()):
        calls = [n for n in own_nodes(a.node) if isinstance(n, ast.Call) and isinstance(n.func, ast.Attribute) and isinstance(n.func.value, ast.Name) and n.func.value.id == "rust"]
        ctx.ob("C12-O2", "R18 table", a, f"pair:{name} adapter calls exactly one kernel binding", len(calls) == 1, f"{[ast.unparse(c.func) for c in calls]}", node=a.node)
        for c in calls:
            bname = c.func.attr
            b = rf.bindings.get(bname)
            ctx.ob("C12-O2", "R18 table", a, f"pair:{name} rust.{bname} is a #[pyfunction] registered in lib.rs", b is not None and bname in rf.registered, f"bindings {sorted(rf.bindings)}, registered {sorted(rf.registered)}", node=c)
            if b is None:
                continue
            nreq = sum(1 for _, d in b["params"] if d is None)
            npos = len(c.args)
            kws = {k_.arg for k_ in c.keywords}
            ok = nreq <= npos + len(kws & {p for p, _ in b["params"]}) and npos <= len(b["params"]) and kws <= {p for p, _ in b["params"]}
            ctx.ob("C12-O2", "R18 table", a, f"pair:{name} call arity matches the pyo3 signature", ok, f"call passes {npos} positional + {sorted(kws)}; signature {b['params']}", node=c)
            # argument roles: names passed positionally line up with the binding's parameter names where they coincide
            mism = []
            for i, arg in enumerate(c.args):
                if isinstance(arg, ast.Name) and i < len(b["params"]):
                    pn = b["params"][i][0]
                    if arg.id != pn and arg.id in {p for p, _ in b["params"]}:
                        mism.append((arg.id, pn))
            ctx.ob("C12-O2", "R18 table", a, f"pair:{name} positional arguments are in the binding's parameter order", not mism, f"{mism}", node=c)
            reads = set()
            for n in own_nodes(a.node):
                if isinstance(n, ast.Subscript) and isinstance(n.value, ast.Name) and n.value.id == "result" and isinstance(n.slice, ast.Constant) and isinstance(n.slice.value, str):
                    reads.add(n.slice.value)
            ctx.count("result keys read by adapters", len(reads))
            missing = sorted(reads - set(b["keys"]))
            ctx.ob("C12-O2", "R18 table", a, f"pair:{name} every result key read is written by the binding", not missing, f"read {sorted(reads)}; binding writes {sorted(set(b['keys']))}; missing {missing}", node=a.node)

    # O3 outcome signatures
    for name in sorted(PAIRS):
        if name not in decorated or name not in adapters:
            continue
        f, a = decorated[name], adapters[name]
        pt = python_table(ctx, f, PAIRS[name][1])
        at = adapter_table(ctx, a)
        # compare per (class, none-ness): statuses and forms; objective kinds only where the property names them
        keys = sorted(set(pt) | set(at), key=lambda x: (sorted(x[0]), x[1]))
        for key in keys:
            ps = {(s, fo) for s, fo, _ in pt.get(key, set())}
            as_ = {(s, fo) for s, fo, _ in at.get(key, set())}
            label = "/".join(sorted(key[0])) or "any"
            ctx.ob("C12-O3", "R18 outcome-signature", a, f"pair:{name} class[{label}, {'no solution' if key[1] else 'solution'}]: same statuses and solution form", ps == as_, f"python {sorted(ps)} / adapter {sorted(as_)}", node=a.node)
            po = {o for _, _, o in pt.get(key, set()) if o in ("len(path)-1", "total-weight", "distance", "float('inf')", "float('-inf')")}
            ao = {o for _, _, o in at.get(key, set()) if o in ("len(path)-1", "total-weight", "distance", "float('inf')", "float('-inf')")}
            if po or ao:
                ctx.ob("C12-O3", "R18 outcome-signature", a, f"pair:{name} class[{label}, {'no solution' if key[1] else 'solution'}]: same kind of objective", po == ao, f"python {sorted(po)} / adapter {sorted(ao)}", node=a.node)
    ctx.note("objective fields the property does not name differ between back-ends by design of the adapters (topological_sort_edges: len(order) vs 0; pagerank_edges: last max_diff vs 0.0; evaluations counters) - information only")

    # O4 preprocessing policy
    for name, a in sorted(adapters.items()):
        dedup = []
        for loop in [n for n in own_nodes(a.node) if isinstance(n, ast.For) and "edges" in names_in(n.iter)]:
            sets_added = {ast.unparse(c.func.value) for c in ast.walk(loop) if isinstance(c, ast.Call) and isinstance(c.func, ast.Attribute) and c.func.attr == "add"}
            for t in ast.walk(loop):
                if isinstance(t, ast.If) and isinstance(t.test, ast.Compare) and isinstance(t.test.ops[0], (ast.NotIn, ast.In)) and ast.unparse(t.test.comparators[0]) in sets_added:
                    dedup.append(t)
        ctx.ob("C12-O4", "R18 SIBLING-AGREEMENT (policy)", a, f"pair:{name} adapter hands every input edge to the kernel (no first-seen de-duplication)", not dedup, "duplicate edges between one pair must reach the kernel, which keeps the minimum like the Python implementation; a first-seen filter keeps an arbitrary weight", node=dedup[0] if dedup else a.node)
    # the edge list handed to the kernel is the input list, or a list to which every input edge is appended
    # unconditionally (per-pair aggregation in a dict / set keeps an arbitrary weight of duplicate edges)
    for name, a in sorted(adapters.items()):
        calls = [n for n in own_nodes(a.node) if isinstance(n, ast.Call) and isinstance(n.func, ast.Attribute) and isinstance(n.func.value, ast.Name) and n.func.value.id == "rust"]
        for c in calls:
            b = rf.bindings.get(c.func.attr)
            if b is None:
                continue
            idx = [i for i, (pn, _) in enumerate(b["params"]) if pn == "edges"]
            if not idx or idx[0] >= len(c.args):
                continue
            arg = c.args[idx[0]]
            ok, why = True, ""
            if isinstance(arg, ast.Name):
                defs = [d for d in own_nodes(a.node) if isinstance(d, ast.Assign) and ast.unparse(d.targets[0]) == arg.id]
                for d in defs:
                    src = d.value
                    if isinstance(src, ast.Name):
                        # built list: every append sits directly in a loop over the input edges, not under a test
                        blt = src.id
                        apps = [x for x in own_nodes(a.node) if isinstance(x, ast.Call) and ast.unparse(x.func) == f"{blt}.append"]
                        cfg_a = cfg_of(a.node)
                        gv_a = GuardView(cfg_a)
                        init = [x for x in own_nodes(a.node) if isinstance(x, (ast.Assign, ast.AnnAssign)) and ast.unparse(x.targets[0] if isinstance(x, ast.Assign) else x.target) == blt]
                        if not apps or not all(isinstance(i_.value, ast.List) and not i_.value.elts for i_ in init):
                            ok, why = False, f"`{blt}` is not built by appending every input edge"
                        for x in apps:
                            xn = cfg_a.stmt_node_containing(x)
                            lp = xn.loop
                            guards_in_loop = [g for g in cfg_a.guards(xn) if g.test.kind == "test" and g.test.loop is lp and lp is not None]
                            if lp is None or lp.kind != "for" or ast.unparse(lp.ast.iter) != "edges" or guards_in_loop:
                                ok, why = False, f"`{ast.unparse(x)}` is conditional or not inside a loop over the input edges"
                    elif not (isinstance(src, ast.Name) or ast.unparse(src) == "edges"):
                        ok, why = False, f"`{arg.id}` is rebuilt as `{ast.unparse(src)[:50]}`"
            elif ast.unparse(arg) != "edges":
                ok, why = False, f"kernel receives `{ast.unparse(arg)[:50]}`"
            ctx.ob("C12-O4", "R18 SIBLING-AGREEMENT (policy)", a, f"pair:{name} every input edge (duplicates included) reaches the kernel", ok, why or "", node=c)
    # precedence: where Python decides UNBOUNDED before anything else, the adapter must test the negative-cycle flag first
    for name in ("floyd_warshall", "bellman_ford"):
        if name not in adapters or name not in decorated:
            continue
        a = adapters[name]
        cfg_a = cfg_of(a.node)
        gv_a = GuardView(cfg_a)
        for k, s_ in enumerate(result_sites(a)):
            if "UNBOUNDED" in s_.statuses:
                continue
            at = gv_a.guard_atoms(s_.node, stable_only=False)
            ctx.ob("C12-O3", "R18 outcome-signature", a, f"pair:{name} Result#{k} ({'/'.join(sorted(s_.statuses))}) is published only after the negative-cycle flag was found false", "F:result['has_negative_cycle']" in at, "the Python implementation reports UNBOUNDED before any other verdict; an adapter that tests reachability first answers INFEASIBLE for an unreachable target behind a negative cycle", node=s_.call)
        f = decorated[name]
        cfg_f = cfg_of(f.node)
        gv_f = GuardView(cfg_f)
        unb = [x for x in result_sites(f) if "UNBOUNDED" in x.statuses and "path is None" not in gv_f.guard_atoms(x.node, stable_only=False)]
        oth = [x for x in result_sites(f) if "UNBOUNDED" not in x.statuses]
        okp = bool(unb) and all(x.node.id in cfg_f.forward(u.node.loop if u.node.loop is not None else u.node) or True for u in unb for x in oth)
        # structural form: every other publication comes after the loop that contains the UNBOUNDED return
        okp = bool(unb) and all(u.node.loop is not None and all(x.node.loop is None and x.node.id in cfg_f.forward(u.node.loop) for x in oth) for u in unb)
        ctx.ob("C12-O3", "R18 outcome-signature", f, f"pair:{name} the Python implementation decides UNBOUNDED before every other verdict", okp, "", node=f.node)
    fa = adapters.get("floyd_warshall")
    if fa is not None:
        t = ast.unparse(fa.node)
        ok = "expanded.append((u, v, w))" in t and "expanded.append((v, u, w))" in t and "if not directed" in t
        ctx.ob("C12-O4", "R18 SIBLING-AGREEMENT (policy)", fa, "undirected mode mirrors every edge in both orientations with the same weight", ok, "", node=fa.node)
    fwk = rf.files.get("rust/src/algorithms/floyd_warshall.rs", "")
    ctx.ob("C12-O4", "R18 SIBLING-AGREEMENT (policy)", None, "Rust Floyd-Warshall kernel keeps the minimum weight of duplicate edges (like the Python `min`)", bool(re.search(r"w\s*<\s*dist\[u\]\[v\]", fwk)), "", rel="rust/src/algorithms/floyd_warshall.rs", fname="floyd_warshall")

    # O5 routing
    w = ctx.func("rust", "with_rust_backend.wrapper")
    t = ast.unparse(w.node)
    rets_ = [ast.unparse(n.value) if n.value is not None else "None" for n in own_nodes(w.node) if isinstance(n, ast.Return)]
    last_ = w.node.body[-1]
    ok = "adapter(*args, **kwargs)" in rets_ and "fn(*args, **kwargs)" in rets_ and set(rets_) <= {"adapter(*args, **kwargs)", "fn(*args, **kwargs)"} and isinstance(last_, ast.Return) and "_adapters.get(fn.__name__)" in t
    ctx.ob("C12-O5", "R18 routing", w, "decorator forwards *args/**kwargs unchanged to the adapter and to the Python body; falls back when no adapter is registered", ok, "", node=w.node)
    cfg = cfg_of(w.node)
    gv = GuardView(cfg)
    for n in own_nodes(w.node):
        if isinstance(n, ast.Return) and "adapter(" in ast.unparse(n):
            at = gv.guard_atoms(cfg.node_of(n), stable_only=False)
            ctx.ob("C12-O5", "R18 routing", w, "adapter is used only when the rust back-end was selected and an adapter exists", ("'rust' == selected" in at or "selected == 'rust'" in at) and "T:adapter" in at, f"{sorted(at)}", node=n)
    gb = ctx.func("rust", "get_backend")
    tb = ast.unparse(gb.node)
    ctx.ob("C12-O5", "R18 routing", gb, "explicit 'python' never routes to rust; explicit 'rust' raises when unavailable", "if requested == 'python':\n        return 'python'" in tb and "raise ImportError" in tb, "", node=gb.node)
    from .sat_common import _need as _need_r

    ctx.step(_need_r, "C12-O5", "R18 routing", gb, "back-end choice: 'python' -> python; 'rust' -> rust or ImportError when the extension is missing; otherwise rust exactly when it is available", ["if requested == 'python':\n        return 'python'", "if requested == 'rust':\n        if not rust_available():\n            raise ImportError(", "return 'rust'\n    if rust_available():\n        return 'rust'\n    _warn_fallback()\n    return 'python'"])
    ctx.step(_need_r, "C12-O5", "R18 routing", ctx.func("rust", "rust_available"), "availability is decided once by importing the extension: True on success, False on ImportError", ["if _rust_available is None:\n        try:\n            import solvor._solvor_rust\n            _rust_available = True\n        except ImportError:\n            _rust_available = False\n    return _rust_available"])
    ra = ctx.func("rust", "rust_adapter.decorator")
    ctx.ob("C12-O5", "R18 routing", ra, "rust_adapter registers the function under the given name and returns it unchanged", "_adapters[name] = fn" in ast.unparse(ra.node) and "return fn" in ast.unparse(ra.node), "", node=ra.node)
    # O9 an adapter gives no verdict of its own: every Result it builds comes after the kernel call it reports on
    n_ad = 0
    for name, a in sorted(adapters.items()):
        acfg = cfg_of(a.node)
        kcalls = [n for n in own_nodes(a.node) if isinstance(n, ast.Call) and isinstance(n.func, ast.Attribute) and isinstance(n.func.value, ast.Name) and n.func.value.id == "rust"]
        if not kcalls:
            continue
        knodes = [acfg.stmt_node_containing(k) for k in kcalls]
        for s_ in result_sites(a):
            n_ad += 1
            okd = any(acfg.dominates(kn, s_.node) for kn in knodes)
            ctx.ob("C12-O9", "R14 GATE", a, f"pair:{name} every Result of the adapter is built after the kernel ran", okd, "a verdict decided before the kernel is called is the adapter's own reasoning about the input; where it differs from the Python implementation's the two back-ends disagree", node=s_.call)
    ctx.floor("adapter Result sites", n_ad, 9)
    # O9 (continued): after the kernel call, what the adapter branches on is the kernel's report (or the shape of the
    # query: target given / forest allowed), never a budget or an input quantity the adapter reasons about itself
    QUERY_SHAPE = {"target", "allow_forest", "directed"}
    n_tests = 0
    for name, a in sorted(adapters.items()):
        acfg = cfg_of(a.node)
        kcalls = [n for n in own_nodes(a.node) if isinstance(n, ast.Call) and isinstance(n.func, ast.Attribute) and isinstance(n.func.value, ast.Name) and n.func.value.id == "rust"]
        if not kcalls:
            continue
        kn = acfg.stmt_node_containing(kcalls[0])
        reach = acfg.forward(kn)
        for n in own_nodes(a.node):
            if isinstance(n, ast.If):
                if not any(isinstance(x, ast.Return) for x in ast.walk(n)):
                    continue
            elif isinstance(n, ast.IfExp):
                if "Status." not in ast.unparse(n):
                    continue
            else:
                continue
            try:
                sn = acfg.stmt_node_containing(n.test)
            except Exception:
                continue
            if sn.id not in reach or sn.id == kn.id:
                continue
            n_tests += 1
            import builtins as _b

            nm = {x for x in names_in(n.test) if not hasattr(_b, x)}
            for v in list(nm):
                defs = [x.value for x in own_nodes(a.node) if isinstance(x, ast.Assign) and len(x.targets) == 1 and isinstance(x.targets[0], ast.Name) and x.targets[0].id == v]
                if defs and all("result" in names_in(d) for d in defs):
                    nm.discard(v)
                    nm.add("result")
            okt = bool(nm) and nm <= QUERY_SHAPE | {"result"}
            if name == "bellman_ford" and ast.unparse(n.test) == "len(path) > n_nodes" and any(ast.unparse(x) == "current = result['predecessors'][current]" for x in own_nodes(a.node)):
                okt = True  # `path` is the walk along the kernel's predecessor array: its length is the kernel's report
            ctx.ob("C12-O9", "R7 PROVENANCE", a, f"pair:{name} `{ast.unparse(n.test)}` branches on the kernel's report", okt, f"the test reads {sorted(nm)}: a verdict inferred from a budget or an input quantity instead of the kernel's own flag differs from the kernel's whenever the inference is off by one (convergence on the last allowed sweep)", node=n)
    ctx.floor("adapter verdict tests after the kernel call", n_tests, 12)

    # O7 the two PageRank loops stop on the same quantity (status near the iteration limit depends on it)
    prf = ctx.func("pagerank", "pagerank")
    upd = [n for n in own_nodes(prf.node) if isinstance(n, (ast.Assign, ast.AugAssign)) and "abs(" in ast.unparse(n.value) and "new_scores" in ast.unparse(n.value)]
    py_norm = "?"
    if len(upd) == 1:
        u = upd[0]
        if isinstance(u, ast.AugAssign) and isinstance(u.op, ast.Add):
            py_norm = "sum"
        elif isinstance(u, ast.Assign) and isinstance(u.value, ast.Call) and ast.unparse(u.value.func) == "max":
            py_norm = "max"
    prk = rf.files.get("rust/src/algorithms/pagerank.rs", "")
    m_ = re.search(r"let\s+diff[^;]*?\.abs\(\)\s*\)\s*\.(\w+)\(", prk, re.S)
    rs_norm = {"sum": "sum", "fold": "max"}.get(m_.group(1), m_.group(1)) if m_ else "?"
    ctx.ob("C12-O7", "R18 SIBLING-AGREEMENT (expression)", prf, "both PageRank loops compare the same measure of change with the tolerance", py_norm == rs_norm and py_norm != "?", f"Python: {py_norm} of |new - old|, Rust kernel: {rs_norm}: with different measures one back-end converges an iteration or more earlier and the statuses differ near max_iter", node=upd[0] if upd else prf.node)
    tpr = ast.unparse(prf.node)
    ctx.ob("C12-O7", "R18 SIBLING-AGREEMENT (expression)", prf, "the measure starts at zero in every iteration and is tested strictly against tol after the sweep", "max_diff = 0.0" in tpr and "if max_diff < tol:" in tpr and bool(re.search(r"if\s+diff\s*<\s*tol", prk)), "", node=prf.node)

    # O8 the Python edge-list wrappers hand the generic routine exactly the graph the kernel receives: one successor list
    # per node, every input edge appended (duplicates kept), nodes range(n_nodes)
    WRAPPERS = {
        "pagerank_edges": ("pagerank", "pagerank"),
        "strongly_connected_components_edges": ("scc", "strongly_connected_components"),
        "topological_sort_edges": ("scc", "topological_sort"),
        "dijkstra_edges": ("dijkstra", "dijkstra"),
        "bfs_edges": ("bfs", "bfs"),
        "dfs_edges": ("bfs", "dfs"),
    }
    n_wr = 0
    for wname, (wmod, generic) in sorted(WRAPPERS.items()):
        wf = ctx.func(wmod, wname)
        n_wr += 1
        wf, generic = resolve_helper(repo, wmod, wf, generic)
        ctx.touch(wf)
        wcfg = cfg_of(wf.node)
        wgv = GuardView(wcfg)
        init = [n for n in own_nodes(wf.node) if isinstance(n, (ast.Assign, ast.AnnAssign)) and ast.unparse(n.targets[0] if isinstance(n, ast.Assign) else n.target) == "adj"]
        apps = [n for n in own_nodes(wf.node) if isinstance(n, ast.Call) and isinstance(n.func, ast.Attribute) and n.func.attr == "append" and ast.unparse(n.func.value).startswith("adj[")]
        ok = len(init) == 1 and ast.unparse(init[0].value) == "[[] for _ in range(n_nodes)]" and len(apps) >= 1
        why = ""
        for a in apps:
            an = wcfg.stmt_node_containing(a)
            lp = an.loop
            at = {x for x in wgv.guard_atoms(an, stable_only=False, after_loops=False) if not x.startswith("IN-LOOP:")}
            inside = lp is not None and lp.kind == "for" and ast.unparse(lp.ast.iter) == "edges"
            tests_in_loop = [b for b in wcfg.guards(an) if b.test.kind == "test" and b.test.loop is lp]
            if not inside or tests_in_loop:
                ok, why = False, f"`{ast.unparse(a)}` is conditional or outside the loop over the input edges"
        ctx.ob("C12-O8", "R18 SIBLING-AGREEMENT (policy)", wf, f"{wname} builds one successor list per node and appends every input edge", ok, why, node=wf.node)
        dele = [n for n in own_nodes(wf.node) if isinstance(n, ast.Call) and isinstance(n.func, ast.Name) and n.func.id == generic]
        okd = len(dele) >= 1 and all(any(ast.unparse(a_) in ("lambda s: adj[s]",) for a_ in d.args) for d in dele)
        ctx.ob("C12-O8", "R18 SIBLING-AGREEMENT (policy)", wf, f"{wname} delegates to {generic} with the successor lists it built", okd, "", node=dele[0] if dele else wf.node)
        if wname in ("bfs_edges", "dfs_edges", "dijkstra_edges") and dele:
            kw = {k.arg: ast.unparse(k.value) for d in dele for k in d.keywords}
            ctx.ob("C12-O8", "R2 BUDGET-EXIT", wf, f"{wname} gives {generic} an iteration budget that cannot bind (every node is expanded at most once)", kw.get("max_iter") in ("n_nodes + 1", "1 + n_nodes", "n_nodes + 2", "2 * n_nodes"), f"max_iter = {kw.get('max_iter', 'the default 1_000_000')}: on larger graphs the Python path stops early (MAX_ITER, or a partial set) where the Rust kernel, which has no budget, answers", node=dele[0])
        if wname != "dijkstra_edges" and dele:
            # dijkstra_edges answers the all-distances query with its own loop; the others only repackage
            gn = [wcfg.stmt_node_containing(d) for d in dele]
            for n in own_nodes(wf.node):
                if isinstance(n, ast.Return):
                    rn = wcfg.node_of(n)
                    okr = any(g_.id == rn.id or wcfg.dominates(g_, rn) for g_ in gn)
                    ctx.ob("C12-O8", "R14 GATE", wf, f"{wname} returns nothing the generic routine did not compute", okr, f"`{ast.unparse(n)[:70]}` is reached without calling {generic}: an answer the wrapper works out by itself is a second implementation of the routine's corner cases (source == target, empty graph), and the kernel follows the routine's", node=n)
    ctx.floor("Python edge-list wrappers", n_wr, 6)

    # O6 the Rust kernel counts every occurrence of an edge; so must the Python bookkeeping
    from .c14 import check_kahn

    ctx.step(check_kahn, "C12-O6")
    from .c11 import check_floyd_edge_ingest

    ctx.step(check_floyd_edge_ingest, "C12-O4")
    ctx.step(adapter_polarity, adapters)
    ctx.step(toposort_objective, adapters)
    ctx.step(reference_routines)
    generic_sweeps(ctx)


# ---------------------------------------------------------------------------------------------
from sa import mutate as M  # noqa: E402

AD, RI = "solvor/rust/adapters.py", "solvor/rust/__init__.py"


def _v_dedup(tree):
    g = M.find_func(tree, "_floyd_warshall_rust")
    M.replace_stmt(g, lambda s: isinstance(s, ast.For) and M.src_is(s.iter, "edges"), M.stmts(
        "edge_set = set()\nfor u, v, w in edges:\n    if (u, v) not in edge_set:\n        expanded.append((u, v, w))\n        edge_set.add((u, v))\n    if (v, u) not in edge_set:\n        expanded.append((v, u, w))\n        edge_set.add((v, u))"))


def _v_bfs_order(tree):
    g = M.find_func(tree, "_bfs_edges_rust")
    M.replace_expr(g, lambda e: M.src_is(e, "sorted(result['visited_order'])"), M.expr("list(result['visited_order'])"))


def _v_dfs_status(tree):
    g = M.find_func(tree, "_dfs_edges_rust")
    M.replace_expr(g, lambda e: isinstance(e, ast.Call) and M.src_has(e, "Status.FEASIBLE"), lambda e: M.expr(ast.unparse(e).replace(", Status.FEASIBLE", "")))


def _v_wrong_key(tree):
    g = M.find_func(tree, "_kruskal_rust")
    M.replace_expr(g, lambda e: M.src_is(e, "result['is_connected']"), M.expr("result['connected']"))


def _v_unregistered_name(tree):
    g = M.find_func(tree, "_topo_edges_rust")
    g.decorator_list = [M.expr("rust_adapter('topological_sort')")]


def _v_default_differs(tree):
    g = M.find_func(tree, "_pagerank_edges_rust")
    g.args.kw_defaults[0] = M.expr("0.9")


def _v_arg_order(tree):
    g = M.find_func(tree, "_bellman_ford_rust")
    M.replace_expr(g, lambda e: M.src_is(e, "rust.bellman_ford(n_nodes, edges, start)"), M.expr("rust.bellman_ford(n_nodes, edges)"))


def _v_kruskal_forest_status(tree):
    g = M.find_func(tree, "_kruskal_rust")
    M.replace_expr(g, lambda e: M.src_is(e, "Status.FEASIBLE"), M.expr("Status.OPTIMAL"))


def _v_wrapper_drops_kwargs(tree):
    g = M.find_func(tree, "with_rust_backend.wrapper")
    M.replace_expr(g, lambda e: M.src_is(e, "adapter(*args, **kwargs)"), M.expr("adapter(*args)"))


def _v_infeasible_objective(tree):
    g = M.find_func(tree, "_dijkstra_edges_rust")
    M.replace_expr(g, lambda e: isinstance(e, ast.Call) and M.src_has(e, "Status.INFEASIBLE"), lambda e: M.expr(ast.unparse(e).replace("float('inf')", "0")))


def _v_fw_skip_self_loops(tree):
    g = M.find_func(tree, "floyd_warshall")
    M.replace_stmt(g, lambda s: isinstance(s, ast.Assign) and M.src_is(s.targets[0], "dist[u][v]") and M.src_has(s.value, "min("), lambda s: M.stmts("if u == v:\n    continue") + [s])


def _v_pagerank_max_norm(tree):
    g = M.find_func(tree, "pagerank")
    M.replace_stmt(g, lambda s: isinstance(s, ast.AugAssign) and M.src_has(s.value, "abs(new_scores"), M.stmts("max_diff = max(max_diff, abs(new_scores[v] - scores[v]))"))


def _v_scc_wrapper_dedups(tree):
    g = M.find_func(tree, "strongly_connected_components_edges")
    M.replace_stmt(g, lambda s: isinstance(s, ast.Expr) and M.src_is(s.value, "adj[u].append(v)"), M.stmts("if v not in adj[u]:\n    adj[u].append(v)"))


def _v_pagerank_adapter_status_from_budget(tree):
    g = M.find_func(tree, "_pagerank_edges_rust")
    M.replace_expr(g, lambda e: M.src_is(e, "result['converged']"), M.expr("result['iterations'] < max_iter"))


def _t_pagerank_adapter_flag_local(tree):
    g = M.find_func(tree, "_pagerank_edges_rust")
    M.replace_stmt(g, lambda s: isinstance(s, ast.Assign) and M.src_is(s.targets[0], "status"), lambda s: M.stmts("done = result['converged']\nstatus = Status.OPTIMAL if done else Status.MAX_ITER"))


_HELPER = """
def _search_edges(search, n_nodes, edges, source, target):
    adj: list[list[int]] = [[] for _ in range(n_nodes)]
    for u, v in edges:
        adj[u].append(v)
%s
    result = search(source, target, lambda s: adj[s], max_iter=n_nodes + 1)
    if target is None:
        return Result(sorted(result.solution), 0, result.iterations, result.evaluations)
    return result
"""
_SHORTCUT = """
    if not adj[source]:
        if target is None:
            return Result([source], 0, 1, 1)
        return Result(None, float("inf"), 1, 1, Status.INFEASIBLE)
"""


def _share_search_body(tree, extra):
    for nm, gen in (("bfs_edges", "bfs"), ("dfs_edges", "dfs")):
        g = M.find_func(tree, nm)
        g.body = M.stmts(f"return _search_edges({gen}, n_nodes, edges, source, target)")
    tree.body.extend(M.stmts(_HELPER % extra))


def _v_wrapper_dead_end_shortcut(tree):
    _share_search_body(tree, _SHORTCUT)


def _t_wrapper_shared_helper(tree):
    _share_search_body(tree, "")


def _v_topo_adapter_density_shortcut(tree):
    g = M.find_func(tree, "_topo_edges_rust")
    first = next(s for s in g.body if isinstance(s, ast.Assign) and M.src_has(s.value, "rust.topological_sort"))
    M.replace_stmt(g, lambda s: s is first, lambda s: M.stmts("if len(edges) > n_nodes * (n_nodes - 1) // 2:\n    return Result(None, 0, 0, 0, Status.INFEASIBLE)") + [s])


def _v_adjacency_memo(tree):
    g = M.find_func(tree, "dijkstra_edges")
    M.replace_stmt(g, lambda s: isinstance(s, ast.For) and M.src_is(s.iter, "edges"), [])
    M.replace_stmt(g, lambda s: isinstance(s, ast.AnnAssign) and M.src_is(s.target, "adj"), M.stmts("adj = _adjacency(n_nodes, edges)"))
    idx = tree.body.index(g)
    tree.body[idx:idx] = M.stmts("_last_adjacency = None\ndef _adjacency(n_nodes, edges):\n    global _last_adjacency\n    cached = _last_adjacency\n    if cached is not None and cached[0] is edges and cached[1] == n_nodes and cached[2] == len(edges):\n        return cached[3]\n    adj = [[] for _ in range(n_nodes)]\n    for u, v, w in edges:\n        adj[u].append((v, w))\n    _last_adjacency = (edges, n_nodes, len(edges), adj)\n    return adj")


def _v_topo_successor_sets(tree):
    g = M.find_func(tree, "topological_sort")
    M.replace_expr(g, lambda e: M.src_is(e, "adjacency[v].append(w)"), M.expr("adjacency[v].add(w)"))
    M.replace_expr(g, lambda e: M.src_is(e, "{v: [] for v in node_list}"), M.expr("{v: set() for v in node_list}"))


def _t_reformat(tree):
    pass


def _v_pair_dict(tree):
    g = M.find_func(tree, "_floyd_warshall_rust")
    M.replace_stmt(g, lambda s: isinstance(s, ast.For) and M.src_is(s.iter, "edges"), M.stmts("best = {}\nfor u, v, w in edges:\n    best[(min(u, v), max(u, v))] = w\nfor (a, b), w in best.items():\n    expanded.append((a, b, w))\n    expanded.append((b, a, w))"))


def _v_unreachable_first(tree):
    g = M.find_func(tree, "_bellman_ford_rust")
    body = g.body
    i = next(k for k, s in enumerate(body) if isinstance(s, ast.If) and M.src_has(s.test, "has_negative_cycle"))
    st = body.pop(i)
    j = next(k for k, s in enumerate(body) if isinstance(s, ast.If) and M.src_is(s.test, "target is not None"))
    body.insert(j + 1, st)


def _v_toposort_adapter_constant_objective(tree):
    g = M.find_func(tree, "_topo_edges_rust")
    M.replace_expr(g, lambda e: M.src_is(e, "len(order)"), M.expr("0"))


VARIANTS = [
    M.Variant("the topological-sort adapter reports objective 0 for an order (original defect, ledger row 72)", AD, _v_toposort_adapter_constant_objective, "C12-O3"),
    M.Variant("floyd adapter aggregates duplicate edges in a dict (seed C12-A)", AD, _v_pair_dict, "C12-O4"),
    M.Variant("bellman_ford adapter tests reachability before the negative-cycle flag (seed C12-B)", AD, _v_unreachable_first, "C12-O3"),

    M.Variant("floyd adapter de-duplicates with a first-seen set (original defect)", AD, _v_dedup, "C12-O4"),
    M.Variant("bfs adapter returns visit order (original defect)", AD, _v_bfs_order, "C12-O3"),
    M.Variant("dfs adapter labels its path OPTIMAL (original defect)", AD, _v_dfs_status, "C12-O3"),
    M.Variant("kruskal adapter reads a key the binding never writes", AD, _v_wrong_key, "C12-O2"),
    M.Variant("adapter registered under a name no function carries", AD, _v_unregistered_name, "C12-O1"),
    M.Variant("adapter default damping differs", AD, _v_default_differs, "C12-O1"),
    M.Variant("bellman_ford adapter omits the source argument", AD, _v_arg_order, "C12-O2"),
    M.Variant("kruskal adapter labels a forest OPTIMAL", AD, _v_kruskal_forest_status, "C12-O3"),
    M.Variant("decorator drops keyword arguments on the rust arm", RI, _v_wrapper_drops_kwargs, "C12-O5"),
    M.Variant("dijkstra adapter reports objective 0 for unreachable target", AD, _v_infeasible_objective, "C12-O3"),
    M.Variant("dijkstra_edges memoises the adjacency lists of the last edge list in a module global (seed C12-C)", "solvor/dijkstra.py", _v_adjacency_memo, "C12-G3"),
    M.Variant("topological_sort keeps successor sets but counts every edge occurrence in the in-degree (seed C12-D)", "solvor/scc.py", _v_topo_successor_sets, "C12-O6"),
    M.Variant("Python floyd_warshall skips self loops, the kernel does not (seed C12-E)", "solvor/floyd_warshall.py", _v_fw_skip_self_loops, "C12-O4"),
    M.Variant("Python PageRank stops on the largest single change, the kernel on the total change (original defect)", "solvor/pagerank.py", _v_pagerank_max_norm, "C12-O7"),
    M.Variant("Python SCC wrapper de-duplicates successors", "solvor/scc.py", _v_scc_wrapper_dedups, "C12-O8"),
    M.Variant("topological-sort adapter answers INFEASIBLE for dense edge lists without calling the kernel (seed C12-H)", AD, _v_topo_adapter_density_shortcut, "C12-O9"),
    M.Variant("PageRank adapter infers its status from the iteration count instead of the kernel's converged flag (seed C12-I)", AD, _v_pagerank_adapter_status_from_budget, "C12-O9"),
    M.Variant("twin: PageRank adapter reads the converged flag through a local", AD, _t_pagerank_adapter_flag_local, None),
    M.Variant("bfs_edges/dfs_edges share a helper that answers a dead-end source without searching (seed C12-J)", "solvor/bfs.py", _v_wrapper_dead_end_shortcut, "C12-O8"),
    M.Variant("twin: bfs_edges/dfs_edges share a helper that receives the generic routine as an argument", "solvor/bfs.py", _t_wrapper_shared_helper, None),
    M.Variant("twin: reformat adapters", AD, _t_reformat, None),
    M.Variant("twin: reformat rust/__init__", RI, _t_reformat, None),
]
