"""C08 - max_flow (structural part): solvor/flow.py::max_flow."""

from __future__ import annotations

import ast

from sa.cfg import cfg_of
from sa.facts import canon, result_sites
from sa.guards import names_in
from sa.index import own_nodes
from sa.report import Ctx

from .common import generic_sweeps

EXPLANATION = (
    "Decides structural necessary conditions of 'feasible flow of maximum value' on flow.py::max_flow: (O1) residual "
    "symmetry - the adjacency container whose keys the augmenting-path search iterates is written with both "
    "orientations of every input arc (otherwise reverse residual arcs are explored only when the input happens to "
    "contain the opposite arc and flow can never be cancelled); (O2) the residual expression cap - flow + reverse flow "
    "has the same canonical form in the search and in the bottleneck loop; (O3) bottleneck and augmentation iterate "
    "the same consecutive-pair sequence of the found path, the bottleneck starts at +inf and is a running min of "
    "residuals, the augmenting amount is not changed inside the augmentation loop, cancellation plus forward push add "
    "up to the augmenting amount, and the flow value grows by it exactly once per augmentation; (O4) the returned "
    "dictionary holds exactly the positive entries of the flow map the loops wrote and the objective is the "
    "accumulated value; parallel arcs are pooled on input; (O5) the only state the path search reads that changes between searches is the flow map, it enqueues under exactly `unvisited and residual > 0`, and every input arc enters the residual network. (O6) the degenerate query source == sink is rejected before the loop. NOT decided: conservation/capacity as numeric facts, "
    "max-flow = min-cut."
)


def residual_exprs(fn_node, rename_pairs):
    out = []
    for n in ast.walk(fn_node):
        if isinstance(n, ast.Assign) and isinstance(n.targets[0], ast.Name) and n.targets[0].id == "residual":
            out.append(n)
    return out


def adjacency_symmetry(ctx: Ctx, f, search, oid: str, build_scope=None):
    """container iterated by the path search is keyed both ways in the construction loop"""
    it = None
    for n in own_nodes(search.node):
        if isinstance(n, ast.For) and isinstance(n.iter, ast.Subscript) and isinstance(n.iter.value, ast.Name):
            it = n
    ctx.require(it is not None, f"neighbour iteration `for x in <container>[node]` not found in {search.qualname}")
    cont = it.iter.value.id
    # construction: loops over the input graph storing into cont
    loops = [n for n in own_nodes(f.node) if isinstance(n, ast.For) and isinstance(n.iter, ast.Name) and n.iter.id == "graph"]
    ctx.require(len(loops) >= 1, "construction loop over `graph` not found")
    outer = loops[0]
    uvar = outer.target.id
    inner = [n for n in ast.walk(outer) if isinstance(n, ast.For) and n is not outer]
    ctx.require(len(inner) >= 1, "inner arc loop not found")
    tgt = inner[0].target
    vvar = tgt.elts[0].id if isinstance(tgt, ast.Tuple) else tgt.id
    fwd = rev = False
    for s in ast.walk(outer):
        key = None
        if isinstance(s, (ast.Assign, ast.AugAssign)):
            t = s.targets[0] if isinstance(s, ast.Assign) else s.target
            if isinstance(t, ast.Subscript) and isinstance(t.value, ast.Subscript) and isinstance(t.value.value, ast.Name) and t.value.value.id == cont:
                key = (ast.unparse(t.value.slice), ast.unparse(t.slice))
        elif isinstance(s, ast.Call) and isinstance(s.func, ast.Attribute) and s.func.attr in ("add", "append", "setdefault") and isinstance(s.func.value, ast.Subscript) and isinstance(s.func.value.value, ast.Name) and s.func.value.value.id == cont and s.args:
            key = (ast.unparse(s.func.value.slice), ast.unparse(s.args[0]))
        if key == (uvar, vvar):
            fwd = True
        if key == (vvar, uvar):
            rev = True
    # the reverse key is materialised for every arc: unconditionally, or only skipping arcs whose reverse key exists
    from sa.guards import GuardView, atom_of

    fcfg_ = cfg_of(f.node)
    fgv_ = GuardView(fcfg_)
    for s_ in ast.walk(outer):
        t_ = None
        if isinstance(s_, (ast.Assign, ast.AugAssign)):
            t_ = s_.targets[0] if isinstance(s_, ast.Assign) else s_.target
        if t_ is not None and isinstance(t_, ast.Subscript) and isinstance(t_.value, ast.Subscript) and isinstance(t_.value.value, ast.Name) and t_.value.value.id == cont and (ast.unparse(t_.value.slice), ast.unparse(t_.slice)) == (vvar, uvar):
            at_ = {a for a in fgv_.guard_atoms(fcfg_.node_of(s_), stable_only=False, after_loops=False) if not a.startswith("IN-LOOP:")}
            okr = at_ <= {atom_of(f"{uvar} not in {cont}[{vvar}]")}
            ctx.ob(oid, "R18 SIBLING-AGREEMENT (policy)", f, f"the reverse key `{cont}[{vvar}][{uvar}]` is written for every input arc", okr, f"only under {sorted(at_)}: an arc whose reverse key is skipped can never be cancelled", node=s_)
    ctx.ob(oid, "R18 SIBLING-AGREEMENT (policy)", f, f"search adjacency `{cont}` is keyed with the forward orientation of every arc", fwd, "", node=outer)
    ctx.ob(oid, "R18 SIBLING-AGREEMENT (policy)", f, f"search adjacency `{cont}` is keyed with the reverse orientation of every arc", rev, f"the path search iterates the keys of `{cont}[node]`: without `{cont}[{vvar}][{uvar}]` a reverse residual arc exists only if the input contains the opposite arc, so flow cannot be cancelled and the value can stay below the maximum", node=outer)
    return cont


def _zero_filled(d) -> bool:
    """a comprehension whose innermost element is the constant 0"""
    e = d.value if isinstance(d, ast.DictComp) else d.elt
    while isinstance(e, (ast.DictComp, ast.ListComp)):
        e = e.value if isinstance(e, ast.DictComp) else e.elt
    return isinstance(e, ast.Constant) and e.value == 0 and not isinstance(e.value, bool)


def flow_table_starts_at_zero(ctx: Ctx, f):
    """O4 (shape-independent part): whatever table the returned dictionary reads its values from as they are, that
    table starts empty / at zero - the flow on an arc is what the augmentations put there and nothing else."""
    n_bare = 0
    for s in result_sites(f):
        sol = s.arg("solution")
        if isinstance(sol, ast.Name):
            ds = [d.value for d in own_nodes(f.node) if isinstance(d, ast.Assign) and ast.unparse(d.targets[0]) == sol.id]
            sol = ds[0] if len(ds) == 1 else sol
        if not isinstance(sol, ast.DictComp):
            continue
        v = sol.value
        if not (isinstance(v, ast.Subscript) and isinstance(v.value, ast.Subscript) and isinstance(v.value.value, ast.Name)):
            continue
        n_bare += 1
        tname = v.value.value.id
        defs = [d.value for d in own_nodes(f.node) if isinstance(d, (ast.Assign, ast.AnnAssign)) and ast.unparse(d.targets[0] if isinstance(d, ast.Assign) else d.target) == tname]
        zero = bool(defs) and all(ast.unparse(d) in ("defaultdict(lambda: defaultdict(int))", "defaultdict(lambda: defaultdict(float))") or (isinstance(d, (ast.DictComp, ast.ListComp)) and _zero_filled(d)) for d in defs)
        ctx.ob("C08-O4", "R5 PAIRING", f, f"the table `{tname}` whose entries are returned as flow values starts at zero", zero, f"`{tname} = {ast.unparse(defs[0])[:60] if defs else '?'}`: entries of a table that starts from the capacities are residual room, not flow - returned as they are, an arc with an anti-parallel partner reports that partner's capacity on top of its flow", node=s.call)
    ctx.count("result dictionaries read straight from a table", n_bare)


def _flow_written_only_while_augmenting(ctx: Ctx, f):
    """Every unit of flow is pushed along a path the search found in the current residual network, with that path's
    bottleneck: the flow table and the total are written inside the augmenting loop only (a warm start that fills
    routes by hand has no bottleneck over arcs shared between routes)."""
    loops = [n for n in own_nodes(f.node) if isinstance(n, ast.While) and any(isinstance(c, ast.Call) and ast.unparse(c.func) == "bfs" for c in ast.walk(n.test))]
    ctx.require(len(loops) == 1, "the augmenting loop `while path := bfs()` is not found once")
    inside = {id(x) for x in ast.walk(loops[0])}
    late = []
    for n in own_nodes(f.node):
        if isinstance(n, ast.AugAssign) and id(n) not in inside:
            t_ = n.target
            b_ = t_
            while isinstance(b_, ast.Subscript):
                b_ = b_.value
            if isinstance(b_, ast.Name) and b_.id in ("flow", "total_flow") and (isinstance(t_, ast.Subscript) or b_.id == "total_flow"):
                late.append(n)
    ctx.ob("C08-O3", "R27 WRITE-OWNERSHIP", f, "flow entries and the total are increased only inside the augmenting loop", not late, f"`{ast.unparse(late[0])[:60]}` runs outside the loop: flow that is not the bottleneck of a path found in the residual network can exceed a capacity shared by several routes (parallel arcs into one node, a self loop)" if late else "", node=late[0] if late else f.node)



def _arc_names(f):
    """(tail, head) as the construction loop over `graph` names them: `for T in graph: for H, cap, *_ in graph[T]`"""
    for lp in own_nodes(f.node):
        if isinstance(lp, ast.For) and isinstance(lp.iter, ast.Name) and lp.iter.id == "graph" and isinstance(lp.target, ast.Name):
            for inner in ast.walk(lp):
                if isinstance(inner, ast.For) and inner is not lp and isinstance(inner.target, ast.Tuple) and inner.target.elts and isinstance(inner.target.elts[0], ast.Name):
                    return lp.target.id, inner.target.elts[0].id
    return "u", "v"


def run(ctx: Ctx):
    f = ctx.func("flow", "max_flow")
    tail_, head_ = _arc_names(f)
    ctx.step(flow_table_starts_at_zero, f)
    ctx.step(_flow_written_only_while_augmenting, f)
    ctx.assume("node labels are equal to themselves (x == x): a NaN label is never recognised as the sink by `node == sink`")
    bfs = ctx.func("flow", "max_flow.bfs")
    ctx.step(adjacency_symmetry, f, bfs, "C08-O1")

    # O2 residual formula agreement
    fors = [n for n in own_nodes(bfs.node) if isinstance(n, ast.For)]
    its = [n for n in fors if isinstance(n.iter, ast.Subscript)]
    ctx.ob("C08-O5", "R21 search discipline", bfs, "the search scans the row of the node it left in a table built arc by arc (`for x in <table>[node]`; C08-O1 checks that the table is keyed both ways)", len(its) == 1, f"`for {ast.unparse(fors[0].target)} in {ast.unparse(fors[0].iter)}`: " + "rows copied while the table is still being built lack the reverse arcs of tails that are read later (`capacity[v][u] += 0` runs when v's tail is processed), so the search cannot cancel flow along them and stops below the minimum cut" if fors else "no neighbour loop", node=(its or fors or [bfs.node])[0])
    if not its:
        return  # the remaining obligations are about that loop
    it = its[0]
    a, b = ast.unparse(it.iter.slice), it.target.id

    def residual_of(scope_nodes, names):
        """[(expression, {name: A/B}, node)]: the residual of an arc, wherever the scope computes it - `residual = <expr>`,
        or the arithmetic expression over `capacity[..][..]` written in place (a helper the baseline does not know has
        been inlined by then)"""
        out = []
        seen = set()
        for n in scope_nodes:
            if isinstance(n, ast.Assign) and isinstance(n.targets[0], ast.Name) and n.targets[0].id == "residual":
                out.append((n.value, names, n))
                seen |= {id(x) for x in ast.walk(n.value)}
        for n in scope_nodes:
            if isinstance(n, ast.BinOp) and id(n) not in seen and all(any(isinstance(x, ast.Subscript) and isinstance(x.value, ast.Subscript) and ast.unparse(x.value.value) == tbl for x in ast.walk(n)) for tbl in ("capacity", "flow")):
                out.append((n, names, n))
                seen |= {id(x) for x in ast.walk(n)}
        return out

    rs = residual_of(list(own_nodes(bfs.node)), {a: "A", b: "B"})
    rm = residual_of(list(own_nodes(f.node)), {"u": "A", "v": "B"})
    def _depth(node, target, d=0):
        for ch in ast.iter_child_nodes(node):
            if isinstance(ch, (ast.FunctionDef, ast.Lambda)):
                continue
            if ch is target:
                return d
            r_ = _depth(ch, target, d + (1 if isinstance(ch, (ast.For, ast.While)) else 0))
            if r_ is not None:
                return r_
        return None

    fl_upd = [n for n in own_nodes(f.node) if isinstance(n, ast.AugAssign) and isinstance(n.target, ast.Subscript) and isinstance(n.target.value, ast.Subscript)]
    several_paths_per_search = any((_depth(f.node, n) or 0) >= 3 for n in fl_upd)
    if len(rs) >= 1 and not rm and several_paths_per_search:
        ctx.ob("C08-O2", "R18 SIBLING-AGREEMENT (expression)", f, "the bottleneck of an augmentation is the minimum residual along the path, read from the tables when the path is applied (in the augmenting loop)", False, "one search result is applied as several paths and the augmenting loop computes no residual: a bottleneck measured during the search is stale as soon as another path found by the same search has been applied - paths that share an arc overfill it", node=f.node)
    ctx.require(len(rs) >= 1 and len(rm) >= 1, "residual computation not found in bfs or in the augmentation")
    if len(rs) != 1 or len(rm) != 1 or any(isinstance(n_, ast.AugAssign) and isinstance(n_.target, ast.Name) and n_.target.id == "residual" for n_ in own_nodes(bfs.node)):
        extra_ = (rm[1:] or rs[1:] or rs)[0]
        ctx.ob("C08-O2", "R18 SIBLING-AGREEMENT (expression)", f, "the residual of an arc is computed in one expression, once in the search and once for the bottleneck", False, f"{len(rs)} form(s) in the search, {len(rm)} in the augmentation (e.g. `{ast.unparse(extra_[0])[:60]}`), or a residual assembled in steps: search, bottleneck and update each need the same `capacity - flow + reverse flow`; a second notion of room (the arc's own spare capacity first, the reverse flow only sometimes) lets the update leave flow on both arcs of a pair that the search then cannot cancel", node=extra_[2])
    c1 = canon(rs[0][0], rs[0][1])
    c2 = canon(rm[0][0], rm[0][1])
    want = canon(ast.parse("capacity[A][B] - flow[A][B] + flow[B][A]", mode="eval").body)
    ctx.ob("C08-O2", "R18 SIBLING-AGREEMENT (expression)", f, "residual = capacity - flow + reverse flow, same form in search and bottleneck", c1 == c2 == want, f"search `{ast.unparse(rs[0][0])}` / bottleneck `{ast.unparse(rm[0][0])}`: flow on the opposite arc is room that can be cancelled; with any other sign the search cannot undo an earlier choice and stops below the maximum", node=rm[0][2])
    # search only follows positive residual, unvisited; marks on enqueue; FIFO
    import re as _re

    t = ast.unparse(bfs.node)
    ctx.ob("C08-O2", "R21 search discipline", bfs, "search follows only arcs with positive residual to unvisited nodes, marks on enqueue, FIFO", (bool(_re.search(r"residual(\([^()]*\))? > 0", t)) or any(isinstance(c_, ast.Compare) and c_.left is rs[0][2] and isinstance(c_.ops[0], ast.Gt) and ast.unparse(c_.comparators[0]) == "0" for c_ in own_nodes(bfs.node))) and "not in visited" in t and "visited.add(" in t and "popleft()" in t, "", node=bfs.node)

    # max-flow = min-cut is certified by the failing search and by nothing else: the loop runs until bfs() finds no path
    mloops = [n for n in own_nodes(f.node) if isinstance(n, ast.While) and any(isinstance(c, ast.Call) and ast.unparse(c.func) == "bfs" for c in ast.walk(n.test))]
    for ml in mloops:
        ctx.ob("C08-O3", "R2 BUDGET-EXIT", f, "the augmenting loop ends only when the search finds no path", ast.unparse(ml.test) in ("(path := bfs())", "path := bfs()"), f"`while {ast.unparse(ml.test)}`: any other way out of the loop leaves an augmenting path in the residual network whenever the extra condition is wrong (a bound computed from net capacities, a counter ...)", node=ml)
    # the degenerate query source == sink is rejected (the search would return the one-node path for ever)
    fcfg0 = cfg_of(f.node)
    guard0 = [n for n in own_nodes(f.node) if isinstance(n, ast.If) and ast.unparse(n.test) in ("source == sink", "sink == source") and any(isinstance(x, ast.Raise) for x in n.body)]
    loop0 = [n for n in own_nodes(f.node) if isinstance(n, ast.While) and any(isinstance(c, ast.Call) and ast.unparse(c.func) == "bfs" for c in ast.walk(n.test))]
    ok0 = len(guard0) == 1 and bool(loop0) and fcfg0.dominates(fcfg0.stmt_node_containing(guard0[0].test), fcfg0.stmt_node_containing(loop0[0].test))
    ctx.ob("C08-O6", "R22 STUTTER-FREE", f, "source == sink is rejected before the augmenting loop", ok0, "with source == sink the search finds the path [source] each time, the bottleneck stays infinite and nothing changes: the loop never ends", node=guard0[0] if guard0 else f.node)
    # O5 the search is a function of the current residual network only; every input arc enters that network
    from sa.guards import GuardView

    bound = {a.arg for a in bfs.node.args.args} | {n.id for n in ast.walk(bfs.node) if isinstance(n, ast.Name) and isinstance(n.ctx, ast.Store)}
    free = {n.id for n in ast.walk(bfs.node) if isinstance(n, ast.Name) and isinstance(n.ctx, ast.Load)} - bound
    outer_locals = {n.id for n in own_nodes(f.node) if isinstance(n, ast.Name) and isinstance(n.ctx, ast.Store)} | set(f.params)

    def base(e):
        while isinstance(e, (ast.Subscript, ast.Attribute)):
            e = e.value
        return e.id if isinstance(e, ast.Name) else None

    def mutated(nodes):
        out = set()
        for n in nodes:
            if isinstance(n, (ast.Assign, ast.AugAssign, ast.AnnAssign)):
                for t in n.targets if isinstance(n, ast.Assign) else [n.target]:
                    for e in t.elts if isinstance(t, ast.Tuple) else [t]:
                        out.add(base(e))
            elif isinstance(n, ast.Call) and isinstance(n.func, ast.Attribute) and n.func.attr in ("add", "append", "update", "pop", "remove", "discard", "clear", "extend", "insert", "setdefault", "popleft", "appendleft"):
                out.add(base(n.func.value))
        return out - {None}

    loopw = [n for n in own_nodes(f.node) if isinstance(n, ast.While) and any(isinstance(c, ast.Call) and ast.unparse(c.func) == "bfs" for c in ast.walk(n.test))]
    changing = mutated(ast.walk(bfs.node)) | (mutated(ast.walk(loopw[0])) if loopw else set())
    state = sorted(((free & outer_locals) & changing) - {"flow"})
    ctx.ob("C08-O5", "R27 WRITE-OWNERSHIP", bfs, "the only thing the path search reads that changes between searches is the flow map", not state, f"also depends on {state}, which is updated during the searches: state carried from one search to the next can hide an augmenting path of the current residual network, and 'no path found' is what certifies the maximum", node=bfs.node)
    bcfg = cfg_of(bfs.node)
    bgv = GuardView(bcfg)
    enq = [n for n in own_nodes(bfs.node) if isinstance(n, ast.Call) and ast.unparse(n.func) == "queue.append"]
    ctx.floor("enqueue sites in max_flow.bfs", len(enq), 1)
    for e in enq:
        at = {a for a in bgv.guard_atoms(bcfg.stmt_node_containing(e), stable_only=False, after_loops=False)}
        from sa.guards import atom_of

        res_txt = "residual" if isinstance(rs[0][2], ast.Assign) else ast.unparse(rs[0][2])
        res_txt = res_txt if isinstance(rs[0][2], (ast.Assign, ast.Call)) else f"({res_txt})"
        want_at = {atom_of(f"{b} not in visited"), atom_of(f"{res_txt} > 0")}
        extra = sorted(a for a in at if a not in want_at and not a.startswith("IN-LOOP:") and a not in ("T:queue", atom_of("node != sink")))
        ctx.ob("C08-O5", "R21 search discipline", bfs, "a neighbour is enqueued under exactly `unvisited and residual > 0`", want_at <= at and not extra, f"guards {sorted(at)}", node=e)
    capw = [n for n in own_nodes(f.node) if isinstance(n, ast.AugAssign) and ast.unparse(n.target) == f"capacity[{tail_}][{head_}]"]
    fcfg = cfg_of(f.node)
    fgv = GuardView(fcfg)
    for cw in capw:
        at = {a for a in fgv.guard_atoms(fcfg.node_of(cw), stable_only=False, after_loops=False) if not a.startswith("IN-LOOP:")}
        ctx.ob("C08-O5", "R12 NO-CARDINALITY-CUTOFF", f, "every input arc enters the residual network (the construction loop is unconditional)", not at, f"arcs are filtered under {sorted(at)}", node=cw)

    # the rows of the residual table come from the defaultdict factory only: a row assigned wholesale throws away the
    # cells written before (the reverse arcs `capacity[v][u] += 0` of tails read earlier), and the search loses the
    # arcs it needs to cancel flow
    rows = [n for n in own_nodes(f.node) if isinstance(n, (ast.Assign, ast.AugAssign, ast.Delete)) for t in (n.targets if isinstance(n, (ast.Assign, ast.Delete)) else [n.target]) if isinstance(t, ast.Subscript) and isinstance(t.value, ast.Name) and t.value.id == "capacity"]
    calls_ = [n for n in own_nodes(f.node) if isinstance(n, ast.Call) and isinstance(n.func, ast.Attribute) and n.func.attr in ("pop", "clear", "popitem", "update", "setdefault") and ast.unparse(n.func.value).split("[")[0] == "capacity"]
    bad_ = rows + calls_
    ctx.ob("C08-O5", "R27 WRITE-OWNERSHIP", f, "rows of the residual capacity table are never assigned, replaced or removed as a whole (cells are accumulated with +=)", not bad_, f"`{ast.unparse(bad_[0])[:50]}`: the row may already hold reverse arcs of tails that were read earlier; without them the search cannot take flow back and stops below the maximum" if bad_ else "", node=bad_[0] if bad_ else f.node)
    cells_ = [n for n in own_nodes(f.node) if isinstance(n, (ast.Assign, ast.Delete)) or (isinstance(n, ast.AugAssign) and not isinstance(n.op, ast.Add)) for t in (n.targets if isinstance(n, (ast.Assign, ast.Delete)) else [n.target]) if isinstance(t, ast.Subscript) and isinstance(t.value, ast.Subscript) and isinstance(t.value.value, ast.Name) and t.value.value.id == "capacity"]
    ctx.ob("C08-O5", "R27 WRITE-OWNERSHIP", f, "cells of the residual capacity table are only ever added to (`+=`): parallel arcs pool, and materialising a reverse arc (`+= 0`) leaves what an arc in that direction brought", not cells_, f"`{ast.unparse(cells_[0])[:50]}`: a plain store throws away the capacity an anti-parallel (or parallel) arc read earlier had put into the cell, and the flow found is not maximum" if cells_ else "", node=cells_[0] if cells_ else f.node)

    # O3 loops
    main = [n for n in own_nodes(f.node) if isinstance(n, ast.While) and any(isinstance(c, ast.Call) and ast.unparse(c.func) == "bfs" for c in ast.walk(n.test))]
    ctx.require(len(main) == 1, "augmentation loop `while ... bfs()` not found")
    w = main[0]
    pair_loops = [n for n in w.body if isinstance(n, ast.For)]
    ctx.ob("C08-O3", "R30 ACCUMULATOR-PAIRING", f, "bottleneck loop and augmentation loop iterate the same pair sequence of the path", len(pair_loops) == 2 and ast.unparse(pair_loops[0].iter) == ast.unparse(pair_loops[1].iter) == "zip(path, path[1:])" and ast.unparse(pair_loops[0].target) == ast.unparse(pair_loops[1].target), "", node=w)
    if len(pair_loops) == 2:
        bl, al = pair_loops
        pf = None
        for s in bl.body:
            if isinstance(s, ast.Assign) and isinstance(s.value, ast.Call) and isinstance(s.value.func, ast.Name) and s.value.func.id == "min":
                pf = s.targets[0].id
                ok = {ast.unparse(x) for x in s.value.args} == {pf, "residual" if isinstance(rm[0][2], ast.Assign) else ast.unparse(rm[0][2])}
                ctx.ob("C08-O3", "R30 ACCUMULATOR-PAIRING", f, "bottleneck is the running minimum of the path residuals", ok, ast.unparse(s), node=s)
        ctx.require(pf is not None, "bottleneck accumulator not found")
        init = [s for s in w.body if isinstance(s, ast.Assign) and ast.unparse(s.targets[0]) == pf]
        ctx.ob("C08-O3", "R30 ACCUMULATOR-PAIRING", f, "bottleneck starts at +infinity for each path", len(init) == 1 and ast.unparse(init[0].value) in ("float('inf')", "inf", "math.inf"), "", node=w)
        stores = [s for s in ast.walk(al) if isinstance(s, (ast.Assign, ast.AugAssign)) and pf in {x.id for x in ast.walk(s.targets[0] if isinstance(s, ast.Assign) else s.target) if isinstance(x, ast.Name) and isinstance(x.ctx, ast.Store)}]
        ctx.ob("C08-O3", "R30 ACCUMULATOR-PAIRING", f, "augmenting amount is loop-invariant in the augmentation loop", not stores, "", node=al)
        # augmentation arms
        ifs = [s for s in al.body if isinstance(s, ast.If)]
        ok = False
        if len(ifs) == 1:
            i0 = ifs[0]
            tb, eb = "; ".join(ast.unparse(s) for s in i0.body), "; ".join(ast.unparse(s) for s in i0.orelse)
            ok = ast.unparse(i0.test) == "flow[v][u] > 0" and f"reduce = min({pf}, flow[v][u])" in tb and "flow[v][u] -= reduce" in tb and (f"flow[u][v] += {pf} - reduce" in tb or (f"= {pf} - reduce" in tb and "flow[u][v] += " in tb)) and eb == f"flow[u][v] += {pf}"
        ctx.ob("C08-O3", "R30 ACCUMULATOR-PAIRING", f, "augmentation cancels reverse flow first and pushes the rest forward (amounts add up to the bottleneck)", ok, "", node=al)
        acc = [s for s in w.body if isinstance(s, ast.AugAssign) and isinstance(s.op, ast.Add) and ast.unparse(s.value) == pf]
        ctx.ob("C08-O3", "R30 ACCUMULATOR-PAIRING", f, "flow value grows by the bottleneck exactly once per augmentation", len(acc) == 1 and w.body.index(acc[0]) > w.body.index(al), "", node=w)
        tot = acc[0].target.id if acc else "?"
        # O4
        sites = result_sites(f)
        ctx.floor("Result sites in max_flow", len(sites), 1)
        for s in sites:
            ctx.ob("C08-O4", "R5 PAIRING", f, "objective is the accumulated flow value", ast.unparse(s.arg("objective")) == tot, "", node=s.call)
            sol = s.arg("solution")
            defs = [d.value for d in own_nodes(f.node) if isinstance(d, ast.Assign) and isinstance(sol, ast.Name) and ast.unparse(d.targets[0]) == sol.id]
            ok = len(defs) == 1 and isinstance(defs[0], ast.DictComp) and ast.unparse(defs[0].key) == "(u, v)" and ast.unparse(defs[0].value) == "flow[u][v]" and any(ast.unparse(i) == "flow[u][v] > 0" for g in defs[0].generators for i in g.ifs) and [ast.unparse(g.iter) for g in defs[0].generators] == ["flow", "flow[u]"]
            ctx.ob("C08-O4", "R5 PAIRING", f, "solution = exactly the positive entries of the flow map", ok, "", node=s.call)
    pooled = any(isinstance(s, ast.AugAssign) and isinstance(s.op, ast.Add) and ast.unparse(s.target) == f"capacity[{tail_}][{head_}]" for s in own_nodes(f.node))
    ctx.ob("C08-O4", "R18 SIBLING-AGREEMENT (policy)", f, "parallel arcs are pooled on input (capacity accumulates)", pooled, "", node=f.node)
    generic_sweeps(ctx)


# ---------------------------------------------------------------------------------------------
from sa import mutate as M  # noqa: E402

FL = "solvor/flow.py"


def _v_no_reverse(tree):
    g = M.find_func(tree, "max_flow")
    M.replace_stmt(g, lambda s: M.src_is(s, "capacity[v][u] += 0"), [])


def _v_residual_differs(tree):
    g = M.find_func(tree, "max_flow.bfs")
    M.replace_expr(g, lambda e: M.src_is(e, "capacity[node][neighbor] - flow[node][neighbor] + flow[neighbor][node]"), M.expr("capacity[node][neighbor] - flow[node][neighbor]"))


def _v_total_in_loop(tree):
    g = M.find_func(tree, "max_flow")
    w = [n for n in ast.walk(g) if isinstance(n, ast.While)][0]
    acc = [s for s in w.body if M.src_is(s, "total_flow += path_flow")][0]
    w.body.remove(acc)
    w.body[-1].body.append(acc)


def _v_capacity_overwrite(tree):
    g = M.find_func(tree, "max_flow")
    M.replace_stmt(g, lambda s: M.src_is(s, "capacity[u][v] += cap"), M.stmts("capacity[u][v] = cap"))


def _v_keep_zero(tree):
    g = M.find_func(tree, "max_flow")
    M.replace_expr(g, lambda e: isinstance(e, ast.DictComp), lambda e: M.expr("{(u, v): flow[u][v] for u in flow for v in flow[u]}"))


def _v_no_cancel(tree):
    g = M.find_func(tree, "max_flow")
    M.replace_stmt(g, lambda s: isinstance(s, ast.If) and M.src_is(s.test, "flow[v][u] > 0"), M.stmts("flow[u][v] += path_flow"))


def _v_same_terminals_accepted(tree):
    g = M.find_func(tree, "max_flow")
    M.replace_stmt(g, lambda s: isinstance(s, ast.If) and M.src_is(s.test, "source == sink"), [])


def _v_stop_at_net_capacity(tree):
    g = M.find_func(tree, "max_flow")
    w = [n for n in ast.walk(g) if isinstance(n, ast.While) and M.src_has(n.test, "bfs()")]
    if not w:
        raise M.Skip("augmenting loop not found")
    w[0].test = M.expr("total_flow < flow_bound and (path := bfs())")
    M.replace_stmt(g, lambda s: isinstance(s, ast.Assign) and M.src_is(s.targets[0], "total_flow"), lambda s: M.stmts("flow_bound = sum(capacity[source].values()) - sum(capacity[v][source] for v in capacity)") + [s])


def _v_dead_end_memory(tree):
    g = M.find_func(tree, "max_flow")
    M.replace_stmt(g, lambda s: isinstance(s, ast.FunctionDef) and s.name == "bfs", lambda s: M.stmts("dead_ends = set()") + [s])
    b = M.find_func(tree, "max_flow.bfs")
    M.replace_stmt(b, lambda s: isinstance(s, ast.Assign) and M.src_has(s.targets[0], "residual"), lambda s: M.stmts("if neighbor in dead_ends or neighbor in path:\n    continue") + [s])


def _v_prune_unreachable(tree):
    g = M.find_func(tree, "max_flow")
    M.replace_stmt(g, lambda s: isinstance(s, ast.For) and M.src_is(s.iter, "graph"), lambda s: M.stmts("reachable = {source}\nstack = [source]\nwhile stack:\n    u = stack.pop()\n    for v, cap, *_ in graph.get(u, ()):\n        if v in reachable:\n            continue\n        reachable.add(v)\n        if cap > 0:\n            stack.append(v)") + [s])
    M.replace_stmt(g, lambda s: isinstance(s, ast.For) and M.src_is(s.iter, "graph[u]"), lambda s: M.stmts("if u not in reachable:\n    continue") + [s])


def _v_reverse_key_first_time_only(tree):
    g = M.find_func(tree, "max_flow")
    M.replace_stmt(g, lambda s: M.src_is(s, "capacity[v][u] += 0"), M.stmts("if v not in capacity:\n    capacity[v][u] = 0"))


def _t_reformat(tree):
    pass


def _v_frozen_rows(tree):
    g = M.find_func(tree, "max_flow")
    M.replace_stmt(g, lambda s: isinstance(s, ast.For) and M.src_is(s.iter, "graph"), lambda s: M.stmts("rows = {}") + [s] + M.stmts("for u in graph:\n    rows[u] = tuple(capacity[u])"))
    for lp in [n for n in ast.walk(g) if isinstance(n, ast.For) and M.src_is(n.iter, "graph")][:1]:
        lp.body.append(M.stmts("rows[u] = tuple(capacity[u])")[0])
    b = M.find_func(tree, "max_flow.bfs")
    M.replace_expr(b, lambda e: M.src_is(e, "capacity[node]"), M.expr("rows.get(node, ())"), count=1)


def _t_adj_sets(tree):
    """equally valid: explicit symmetric adjacency sets iterated by the search"""
    g = M.find_func(tree, "max_flow")
    M.replace_stmt(g, lambda s: M.src_is(s, "capacity[v][u] += 0"), M.stmts("adj[u].add(v)\nadj[v].add(u)"))
    M.replace_stmt(g, lambda s: isinstance(s, ast.For) and M.src_is(s.iter, "graph"), lambda s: M.stmts("adj = defaultdict(set)") + [s])
    b = M.find_func(tree, "max_flow.bfs")
    M.replace_expr(b, lambda e: M.src_is(e, "capacity[node]") and True, M.expr("adj[node]"), count=1)


def _residual_helper(tree, expr):
    g = M.find_func(tree, "max_flow")
    b = M.find_func(tree, "max_flow.bfs")
    g.body.insert(g.body.index(b), M.stmts(f"def residual(u, v):\n    return {expr}")[0])
    M.replace_stmt(b, lambda s: isinstance(s, ast.Assign) and M.src_is(s.targets[0], "residual"), [])
    M.replace_expr(b, lambda e: M.src_is(e, "residual > 0"), M.expr("residual(node, neighbor) > 0"))
    M.replace_stmt(g, lambda s: isinstance(s, ast.Assign) and M.src_is(s.targets[0], "residual"), [])
    M.replace_expr(g, lambda e: M.src_is(e, "min(path_flow, residual)"), M.expr("min(path_flow, residual(u, v))"))


def _v_residual_helper_wrong_sign(tree):
    _residual_helper(tree, "capacity[u][v] - (flow[u][v] + flow[v][u])")


def _t_residual_helper(tree):
    _residual_helper(tree, "capacity[u][v] - flow[u][v] + flow[v][u]")


def _v_flow_table_from_capacities(tree):
    g = M.find_func(tree, "max_flow")
    if not M.replace_stmt(g, lambda s: isinstance(s, ast.Assign) and M.src_is(s.targets[0], "flow") and M.src_has(s.value, "defaultdict"), M.stmts("flow = {u: dict(arcs) for u, arcs in capacity.items()}")):
        raise M.Skip("flow table definition not found")


def _v_warm_start_two_hop_routes(tree):
    g = M.find_func(tree, "max_flow")
    k = [i for i, st in enumerate(g.body) if isinstance(st, ast.FunctionDef) and st.name == "bfs"]
    if not k:
        raise M.Skip("bfs closure not found")
    g.body[k[0]:k[0]] = M.stmts("for m, cap, *_ in graph.get(source, ()):\n    push = min(cap, capacity[m].get(sink, 0))\n    if push > 0:\n        flow[source][m] += push\n        flow[m][sink] += push\n        total_flow += push")


def _v_row_assigned_wholesale(tree):
    g = M.find_func(tree, "max_flow")
    loop = [x for x in ast.walk(g) if isinstance(x, ast.For) and M.src_is(x.iter, "graph")]
    if not loop:
        raise M.Skip("table build loop not found")
    loop[0].body[0:0] = M.stmts("capacity[u] = defaultdict(int)")


def _v_two_notions_of_room(tree):
    g = M.find_func(tree, "max_flow.bfs")
    M.replace_stmt(g, lambda s: isinstance(s, ast.Assign) and M.src_is(s.targets[0], "residual"), M.stmts("residual = capacity[node][neighbor] - flow[node][neighbor]\nif residual == capacity[node][neighbor]:\n    residual += flow[neighbor][node]"))


def _v_reverse_cell_stored(tree):
    g = M.find_func(tree, "max_flow")
    M.replace_stmt(g, lambda s: M.src_is(s, "capacity[v][u] += 0"), M.stmts("capacity[v][u] = 0"))

VARIANTS = [
    M.Variant("materialising the reverse arc stores 0 instead of adding 0: an anti-parallel arc read earlier loses its capacity (seed C08-Y)", FL, _v_reverse_cell_stored, "C08-O5"),
    M.Variant("the search counts reverse flow as room only on arcs without forward flow (half of seed C08-V)", FL, _v_two_notions_of_room, "C08-O2"),
    M.Variant("the build loop gives every listed node a fresh row, dropping reverse arcs entered earlier (seed C08-S)", FL, _v_row_assigned_wholesale, "C08-O5"),
    M.Variant("warm start fills two-hop routes by hand before the first search (seed C08-Q)", FL, _v_warm_start_two_hop_routes, "C08-O3"),

    M.Variant("the table returned as flow values starts as a copy of the capacities (seed C08-K)", FL, _v_flow_table_from_capacities, "C08-O4"),
    M.Variant("residual moved into a helper and parenthesised: reverse flow subtracted instead of added (seed C08-L)", FL, _v_residual_helper_wrong_sign, "C08-O2"),
    M.Variant("twin: residual moved into a one-expression helper", FL, _t_residual_helper, None),
    M.Variant("reverse residual arcs not materialised (original defect)", FL, _v_no_reverse, "C08-O1"),
    M.Variant("search ignores cancellable reverse flow", FL, _v_residual_differs, "C08-O2"),
    M.Variant("flow value accumulated per arc instead of per path", FL, _v_total_in_loop, "C08-O3"),
    M.Variant("parallel arcs overwrite instead of pooling", FL, _v_capacity_overwrite, "C08-O4"),
    M.Variant("zero entries kept in the flow dictionary", FL, _v_keep_zero, "C08-O4"),
    M.Variant("augmentation never cancels reverse flow", FL, _v_no_cancel, "C08-O3"),
    M.Variant("dead-end set remembered from one search to the next (seed C08-D)", FL, _v_dead_end_memory, "C08-O5"),
    M.Variant("arcs pruned by a source-reachability pre-pass that stops at zero-capacity arcs (seed C08-C)", FL, _v_prune_unreachable, "C08-O5"),
    M.Variant("reverse residual key created only the first time a node is seen (seed C08-E)", FL, _v_reverse_key_first_time_only, "C08-O1"),
    M.Variant("source == sink is not rejected (original defect: the call never returns)", FL, _v_same_terminals_accepted, "C08-O6"),
    M.Variant("augmentation stops once a bound computed from net capacities is reached (seed C08-I)", FL, _v_stop_at_net_capacity, "C08-O3"),
    M.Variant("the search scans rows frozen while the table was still being built: reverse arcs of tails read later are missing (seed C08-X)", FL, _v_frozen_rows, "C08-O5"),
    M.Variant("twin: reformat", FL, _t_reformat, None),
    M.Variant("twin: explicit symmetric adjacency sets iterated by the search", FL, _t_adj_sets, None),
]
