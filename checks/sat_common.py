"""Role resolution and shared obligations for solvor/sat.py (C01, C02)."""

from __future__ import annotations

import ast

from sa.cfg import cfg_of
from sa.facts import assignments_to, base_name, is_status, result_sites
from sa.guards import GuardView, atom_of, closure_nonlocal_writes, names_in
from sa.index import AnalysisError, Func, own_nodes
from sa.report import Ctx


class SatRoles:
    """Finds the program elements of solve_sat by what they do."""

    def __init__(self, ctx: Ctx):
        self.ctx = ctx
        self.f = ctx.func("sat", "solve_sat")
        ch = self.f.children
        # shared-state anchors: a renamed container ends the run as ANALYSIS-ERROR, never as a violation
        bound = {n.id for n in own_nodes(self.f.node) if isinstance(n, ast.Name) and isinstance(n.ctx, ast.Store)}
        for nm in ("vals", "trail", "trail_lim", "learned", "lbd_scores", "var_heap", "in_heap", "clauses", "all_solutions", "n_vars", "levels", "activity"):
            ctx.require(nm in bound, f"state anchor `{nm}` is no longer a local of solve_sat")
        # backtrack routine: nested function that pops two different closure lists
        self.backtrack = None
        for g in ch.values():
            popped = set()
            for n in own_nodes(g.node):
                if isinstance(n, ast.Call) and isinstance(n.func, ast.Attribute) and n.func.attr == "pop" and isinstance(n.func.value, ast.Name):
                    popped.add(n.func.value.id)
                if isinstance(n, ast.Delete):
                    for t in n.targets:
                        b = base_name(t)
                        if b:
                            popped.add(b)
            if len(popped) >= 2 and g.params and len(g.params) == 1:
                self.backtrack = g
                self.bt_lists = popped
        ctx.require(self.backtrack is not None, "backtrack routine (nested function shrinking trail and level-boundary list) not found in solve_sat")
        ctx.touch(self.backtrack)
        # the level-boundary list is the one appended with len(<other list>) at the decision site
        self.lim = self.trail = None
        for n in own_nodes(self.f.node):
            if isinstance(n, ast.Call) and isinstance(n.func, ast.Attribute) and n.func.attr == "append" and isinstance(n.func.value, ast.Name) and n.args:
                a = n.args[0]
                if isinstance(a, ast.Call) and isinstance(a.func, ast.Name) and a.func.id == "len" and a.args and isinstance(a.args[0], ast.Name):
                    if n.func.value.id in self.bt_lists and a.args[0].id in self.bt_lists:
                        self.lim, self.trail = n.func.value.id, a.args[0].id
                        self.decision_append = n
        ctx.require(self.lim is not None, "decision site `<lim>.append(len(<trail>))` not found in solve_sat")
        self.propagate = self._child_by(lambda g: any(isinstance(n, ast.While) for n in own_nodes(g.node)) and any(isinstance(n, ast.Return) and isinstance(n.value, ast.UnaryOp) for n in own_nodes(g.node)) and not g.params, "propagate")
        self.analyze = ch.get("analyze")
        self.reduce_db = ch.get("reduce_db")
        self.assign = ch.get("assign")
        self.pure = ch.get("find_pure_literals")
        for nm in ("analyze", "reduce_db", "assign"):
            ctx.require(getattr(self, nm) is not None, f"nested function {nm} vanished from solve_sat")
            ctx.touch(getattr(self, nm))
        self.cfg = cfg_of(self.f.node)
        self.gv = GuardView(self.cfg, closure_nonlocal_writes(self.f.node))
        # main loop = the while loop containing the decision append
        dn = self.cfg.stmt_node_containing(self.decision_append)
        ctx.require(dn is not None and dn.loop is not None, "decision site is not inside a loop")
        self.main = dn.loop
        self.decision_node = dn
        # conflict variable: target of `X = propagate()` inside main loop
        self.conflict_var = None
        for n in own_nodes(self.f.node):
            if isinstance(n, ast.Assign) and isinstance(n.value, ast.Call) and isinstance(n.value.func, ast.Name) and n.value.func.id == self.propagate.name and isinstance(n.targets[0], ast.Name):
                self.conflict_var = n.targets[0].id
        ctx.require(self.conflict_var is not None, "no `X = propagate()` assignment in solve_sat")
        # learned-clause container: list appended next to a score list, read by get_clause
        self.learned = "learned"
        ctx.require(any(isinstance(n, ast.Name) and n.id == "learned" for n in ast.walk(self.f.node)), "clause database `learned` vanished")
        self.params = self.f.params

    def _child_by(self, pred, fallback_name):
        c = [g for g in self.f.children.values() if pred(g)]
        if len(c) == 1:
            self.ctx.touch(c[0])
            return c[0]
        g = self.f.children.get(fallback_name)
        self.ctx.require(g is not None, f"nested function {fallback_name} vanished from solve_sat")
        self.ctx.touch(g)
        return g


# ---------------------------------------------------------------------------------------------
# R24 STACK-DEPTH: abstract interpretation of the backtrack routine
# ---------------------------------------------------------------------------------------------


def check_backtrack(ctx: Ctx, roles: SatRoles, oid: str):
    """Boundary list [m0..m(D-1)], argument L < D.  On exit: depth(lim) == L and trail cut at m_L.

    Abstract values for integers: ('m', k) with k in {'L', 'L-1', 'D-1'} meaning lim0[k]; ('zero',); ('len', list).
    Abstract depth of lim: 'D' | 'L'.
    """
    g = roles.backtrack
    lim, trail = roles.lim, roles.trail
    L = g.params[0]
    depth = "D"
    env: dict[str, tuple] = {}
    cut = None  # abstract value the trail was cut to
    shape_err = None

    def aval(e: ast.AST):
        # <lim>[-1] / <lim>[L] / <lim>.pop() / name / IfExp(<lim>[-1] if <lim> else 0)
        if isinstance(e, ast.IfExp):
            t = e.test
            if isinstance(t, ast.Name) and t.id == lim:
                return aval(e.body)  # D > L >= 0 and depth>0 assumed unless depth is L (then L may be 0)
            return None
        if isinstance(e, ast.Subscript) and isinstance(e.value, ast.Name) and e.value.id == lim:
            s = e.slice
            if isinstance(s, ast.UnaryOp) and isinstance(s.op, ast.USub) and isinstance(s.operand, ast.Constant) and s.operand.value == 1:
                return ("m", "D-1") if depth == "D" else ("m", "L-1")
            if isinstance(s, ast.Name) and s.id == L:
                return ("m", "L") if depth == "D" else ("oob",)
            if isinstance(s, ast.BinOp) and isinstance(s.op, ast.Sub) and isinstance(s.left, ast.Name) and s.left.id == L and isinstance(s.right, ast.Constant) and s.right.value == 1:
                return ("m", "L-1")
            return None
        if isinstance(e, ast.Name):
            return env.get(e.id)
        if isinstance(e, ast.Constant) and e.value == 0:
            return ("zero",)
        return None

    def is_len_gt(test: ast.AST, lst: str):
        """`len(lst) > e` -> e"""
        if isinstance(test, ast.Compare) and len(test.ops) == 1:
            l, r = test.left, test.comparators[0]
            if isinstance(test.ops[0], ast.Gt) and isinstance(l, ast.Call) and isinstance(l.func, ast.Name) and l.func.id == "len" and l.args and isinstance(l.args[0], ast.Name) and l.args[0].id == lst:
                return r
            if isinstance(test.ops[0], ast.Lt) and isinstance(r, ast.Call) and isinstance(r.func, ast.Name) and r.func.id == "len" and r.args and isinstance(r.args[0], ast.Name) and r.args[0].id == lst:
                return l
        return None

    def pops_in(body, lst):
        out = []
        for s in body:
            for n in ast.walk(s):
                if isinstance(n, ast.Call) and isinstance(n.func, ast.Attribute) and n.func.attr == "pop" and isinstance(n.func.value, ast.Name) and n.func.value.id == lst:
                    out.append((s, n))
        return out

    def run(stmts):
        nonlocal depth, cut, shape_err
        for s in stmts:
            if isinstance(s, (ast.Nonlocal, ast.Pass, ast.Expr)) and not any(isinstance(n, ast.Name) and n.id in (lim, trail) for n in ast.walk(s)):
                continue
            touches = {n.id for n in ast.walk(s) if isinstance(n, ast.Name) and n.id in (lim, trail)}
            if isinstance(s, ast.While):
                e = is_len_gt(s.test, lim)
                if e is not None and isinstance(e, ast.Name) and e.id == L:
                    ps = pops_in(s.body, lim)
                    if len(ps) != 1:
                        shape_err = "boundary-shrink loop does not pop exactly once per iteration"
                        return
                    # value of the last pop is m_L
                    st, call = ps[0]
                    if isinstance(st, ast.Assign) and st.value is call and isinstance(st.targets[0], ast.Name):
                        env[st.targets[0].id] = ("m", "L")
                    # nested trail-cut inside the shrink loop: `while len(trail) > t: trail.pop()`
                    for inner in s.body:
                        if isinstance(inner, ast.While):
                            e2 = is_len_gt(inner.test, trail)
                            if e2 is not None:
                                cut = aval(e2)
                    depth = "L"
                    continue
                e = is_len_gt(s.test, trail)
                if e is not None:
                    if len(pops_in(s.body, trail)) != 1:
                        shape_err = "trail-cut loop does not pop exactly once per iteration"
                        return
                    cut = aval(e)
                    if cut is None:
                        shape_err = f"trail cut bound `{ast.unparse(e)}` not understood"
                        return
                    continue
                if touches:
                    shape_err = f"unrecognised loop over {sorted(touches)}: `{ast.unparse(s.test)}`"
                    return
                continue
            if isinstance(s, ast.If):
                # guard `if len(lim) > L:` / `if len(lim) <= L: return`
                e = is_len_gt(s.test, lim)
                if e is not None and isinstance(e, ast.Name) and e.id == L:
                    run(s.body)
                    continue
                t = s.test
                if isinstance(t, ast.Compare) and len(t.ops) == 1 and isinstance(t.ops[0], (ast.LtE, ast.GtE)) and all(isinstance(x, ast.Return) for x in s.body) and lim in names_in(t):
                    continue  # early return when nothing to undo (D <= L), outside the analysed case D > L
                if touches:
                    shape_err = f"unrecognised branch over {sorted(touches)}: `{ast.unparse(t)}`"
                    return
                continue
            if isinstance(s, ast.Delete) and len(s.targets) == 1:
                t = s.targets[0]
                if isinstance(t, ast.Subscript) and isinstance(t.value, ast.Name) and t.value.id == lim and isinstance(t.slice, ast.Slice) and isinstance(t.slice.lower, ast.Name) and t.slice.lower.id == L and t.slice.upper is None:
                    depth = "L"
                    continue
                if isinstance(t, ast.Subscript) and isinstance(t.value, ast.Name) and t.value.id == trail and isinstance(t.slice, ast.Slice) and t.slice.upper is None and t.slice.lower is not None:
                    cut = aval(t.slice.lower)
                    if cut is None:
                        shape_err = f"trail cut bound `{ast.unparse(t.slice.lower)}` not understood"
                        return
                    continue
                if touches:
                    shape_err = f"unrecognised del on {sorted(touches)}"
                    return
                continue
            if isinstance(s, ast.Assign) and len(s.targets) == 1 and isinstance(s.targets[0], ast.Name):
                v = aval(s.value)
                if v is not None:
                    env[s.targets[0].id] = v
                    continue
                if lim in touches:
                    shape_err = f"unrecognised read of the boundary list: `{ast.unparse(s)}`"
                    return
                continue  # e.g. prop_head = len(trail)
            if lim in touches:
                shape_err = f"unrecognised statement on the boundary list: `{ast.unparse(s)[:60]}`"
                return

    run(g.node.body)
    if shape_err:
        raise AnalysisError(f"{ctx.prop}: {oid} cannot interpret {g.qualname}: {shape_err}")
    ctx.ob(oid, "R24 STACK-DEPTH", g, "boundary-list depth after backtrack == level", depth == "L", f"abstract depth of `{lim}` on exit is {depth}", node=g.node)
    ok = cut == ("m", "L")
    what = {("m", "L-1"): f"{lim}[level-1] (read after the list was already shrunk): the level jumped to is erased; for level 0 every level-0 fact is lost", ("m", "D-1"): "the start of the current level only", ("zero",): "0: the whole trail", ("oob",): "index out of range", None: "no trail cut found"}.get(cut, str(cut))
    ctx.ob(oid, "R24 STACK-DEPTH", g, "trail cut point == start of level+1 (assignments of levels <= level survive)", ok, "trail is cut at " + ("m[level]" if ok else what), node=g.node)
    return ok


# ---------------------------------------------------------------------------------------------
# R25 REGISTRATION-TABLE at clause add sites
# ---------------------------------------------------------------------------------------------


def _len_arms(if_node: ast.If, subject: str):
    """Flatten an if/elif chain over len(subject): [(op, const, body)], else_body"""
    arms = []
    cur = if_node
    while True:
        t = cur.test
        ok = isinstance(t, ast.Compare) and len(t.ops) == 1 and isinstance(t.left, ast.Call) and isinstance(t.left.func, ast.Name) and t.left.func.id == "len" and t.left.args and ast.unparse(t.left.args[0]) == subject and isinstance(t.comparators[0], ast.Constant)
        if not ok:
            if not arms:
                return None
            # an arm that tests something else than the length: every length that reaches it is handled only
            # under that extra condition - for the registration table this means "not registered on every path"
            arms.append(("Cond", ast.unparse(t), cur.body))
        else:
            arms.append((type(t.ops[0]).__name__, t.comparators[0].value, cur.body))
        if len(cur.orelse) == 1 and isinstance(cur.orelse[0], ast.If):
            cur = cur.orelse[0]
            continue
        return arms, cur.orelse


def _covers(arms, else_body, n: int):
    """body executed for a clause of length n"""
    for op, c, body in arms:
        if op == "Cond":
            return []  # reached only if the extra condition holds: no body is executed on every path
        if (op == "Eq" and n == c) or (op == "Gt" and n > c) or (op == "GtE" and n >= c) or (op == "Lt" and n < c) or (op == "LtE" and n <= c):
            return body
    return else_body


def _registers(body, subject: str, idx_ok, want: str):
    """want 'binary' -> big.add(S[0], S[1], idx) ; 'watch2' -> add_watch(S[0], idx) & add_watch(S[1], idx)"""
    calls = [n for s in body for n in ast.walk(s) if isinstance(n, ast.Call)]
    pos = set()
    for c in calls:
        nm = c.func.attr if isinstance(c.func, ast.Attribute) else (c.func.id if isinstance(c.func, ast.Name) else "")
        args = [ast.unparse(a) for a in c.args]
        if nm == "add" and len(args) == 3 and args[0] == f"{subject}[0]" and args[1] == f"{subject}[1]" and idx_ok(c.args[2]):
            pos |= {"b0", "b1"}
        if nm == "add_watch" and len(args) == 2 and idx_ok(c.args[1]):
            if args[0] == f"{subject}[0]":
                pos.add("w0")
            if args[0] == f"{subject}[1]":
                pos.add("w1")
    if {"b0", "b1"} <= pos or {"w0", "w1"} <= pos:
        return True
    return False


def check_binary_clear(ctx: Ctx, oid: str):
    """BinaryImplications.clear_learned(original_count) drops exactly the entries of learned clauses: every list of
    `pos` and of `neg` is filtered by the *clause index* of the entry (its second component) against the count - an input
    clause loses nothing.  Binary clauses are on no watch list: an entry dropped here is a clause the search never looks
    at again."""
    m = ctx.repo.module("sat")
    f = m.funcs.get("BinaryImplications.clear_learned")
    ctx.require(f is not None, "BinaryImplications.clear_learned not found")
    ctx.touch(f)
    cnt = [x for x in f.params if x != "self"][0]
    comps = [n for n in own_nodes(f.node) if isinstance(n, (ast.ListComp, ast.GeneratorExp))]
    ok = bool(comps)
    why = "no filtering comprehension found"
    for c in comps:
        g = c.generators[0]
        # the component compared with the count: second name of the unpacked pair, or <entry>[1]
        second = None
        if isinstance(g.target, ast.Tuple) and len(g.target.elts) == 2 and isinstance(g.target.elts[1], ast.Name):
            second = g.target.elts[1].id
        elif isinstance(g.target, ast.Name):
            second = f"{g.target.id}[1]"
        good = len(g.ifs) == 1 and second is not None and atom_of(ast.unparse(g.ifs[0])) == atom_of(f"{second} < {cnt}")
        if not good:
            ok, why = False, f"`{ast.unparse(c)[:70]}` does not keep exactly the entries whose clause index (second component) is below `{cnt}`"
    lists = {ast.unparse(x) for n in own_nodes(f.node) if isinstance(n, ast.For) for x in ast.walk(n.iter) if isinstance(x, ast.Attribute)}
    both = {"self.pos", "self.neg"} <= lists
    conditional = [n for n in own_nodes(f.node) if isinstance(n, ast.If)]
    ctx.ob(oid, "R25 REGISTRATION-TABLE", f, "clear_learned filters every list of pos and neg by the entry's clause index against the input-clause count", ok and both, (why if not ok else f"lists walked: {sorted(lists)}") + ": an input binary clause whose entries are dropped is enforced by nothing afterwards (a model that falsifies it is returned)", node=comps[0] if comps else f.node)


def check_binary_add(ctx: Ctx, oid: str):
    """BinaryImplications.add is how a two-literal clause becomes visible to propagation (input clauses, learned and
    blocking clauses, the reduce_db rebuild all go through it): on every path it files (b, idx) under a and (a, idx)
    under b, whatever the two literals are ([x, x] is the unit fact x and must be filed like any other pair)."""
    m = ctx.repo.module("sat")
    f = m.funcs.get("BinaryImplications.add")
    ctx.require(f is not None, "BinaryImplications.add not found")
    ctx.touch(f)
    cfg = cfg_of(f.node)
    ps = [x for x in f.params if x != "self"]
    a, b = ps[0], ps[1]

    def filed(stmt):
        # (key literal, stored literal) of `self.neg[k].append((lit, idx))` / `self.pos[-k].append((lit, idx))`
        if not (isinstance(stmt, ast.Expr) and isinstance(stmt.value, ast.Call) and isinstance(stmt.value.func, ast.Attribute) and stmt.value.func.attr == "append"):
            return None
        tgt = stmt.value.func.value
        if not (isinstance(tgt, ast.Subscript) and stmt.value.args and isinstance(stmt.value.args[0], ast.Tuple)):
            return None
        key = {x.id for x in ast.walk(tgt.slice) if isinstance(x, ast.Name)}
        el = stmt.value.args[0].elts[0]
        return (next(iter(key)) if len(key) == 1 else "?", el.id if isinstance(el, ast.Name) else "?")

    bad = None
    paths = cfg.paths(cfg.entry, cfg.exit)
    for pth in paths:
        got = sorted(x for x in (filed(cfg.nodes[i].ast) for i in pth if cfg.nodes[i].kind == "stmt") if x)
        if got != sorted([(a, b), (b, a)]):
            # the one pair that may stay unfiled is the tautology (x, -x): it constrains nothing
            taut = {f"{a} == -{b}", f"-{a} == {b}", f"{b} == -{a}", f"-{b} == {a}"}
            skipped_tautology = not got and any(cfg.nodes[i].kind == "branch" and cfg.nodes[i].pol is True and cfg.nodes[i].test is not None and cfg.nodes[i].test.ast is not None and ast.unparse(cfg.nodes[i].test.ast) in taut for i in pth)
            if skipped_tautology:
                continue
            bad = got
            break
    # polarity: `implications(l)` reads neg[l] for a positive literal that became false and pos[-l] for a negative
    # one; `add` has to file under the same list and index
    gvb = GuardView(cfg)
    wrong = []
    n_app = 0
    for n in own_nodes(f.node):
        if isinstance(n, ast.Expr) and filed(n) is not None:
            n_app += 1
            key, _el = filed(n)
            tgt = n.value.func.value  # self.neg[lit] / self.pos[-lit]
            lst = tgt.value.attr if isinstance(tgt.value, ast.Attribute) else "?"
            idx = ast.unparse(tgt.slice)
            at = gvb.guard_atoms(cfg.node_of(n), stable_only=False)
            pos_lit = atom_of(f"{key} > 0") in at
            neg_lit = atom_of(f"{key} <= 0") in at or atom_of(f"{key} < 0") in at
            ok_ = (pos_lit and lst == "neg" and idx == key) or (neg_lit and lst == "pos" and idx == f"-{key}")
            if not ok_:
                wrong.append(n)
    im = m.funcs.get("BinaryImplications.implications")
    ctx.require(im is not None, "BinaryImplications.implications not found")
    fl = [p_ for p_ in im.params if p_ != "self"][0]
    rets = [r for r in own_nodes(im.node) if isinstance(r, ast.Return)]
    ok_read = len(rets) == 1 and ast.unparse(rets[0].value) == f"self.neg[{fl}] if {fl} > 0 else self.pos[-{fl}]"
    ctx.ob(oid, "R18 SIBLING-AGREEMENT (expression)", f, "add files a pair under neg[l] for a positive key literal and under pos[-l] for a negative one - the lists implications() reads when that literal becomes false", n_app == 4 and not wrong and ok_read, f"`{ast.unparse(wrong[0])[:60] if wrong else ''}` (or the reader `{ast.unparse(rets[0].value)[:60] if rets else '?'}`): a pair filed under the other list is looked up when the literal becomes true, never when it becomes false", node=wrong[0] if wrong else f.node)
    ctx.ob(oid, "R25 REGISTRATION-TABLE", f, "BinaryImplications.add files both directions of the clause on every path (no pair of literals is left out)", bool(paths) and bad is None, f"a path through add files {bad}: a binary clause that is not filed is in no watch list either, so nothing enforces it", node=f.node)


def check_add_sites(ctx: Ctx, roles: SatRoles, oid: str):
    """Every site that adds a clause registers it so that propagate can see it, for every length class."""
    f = roles.f
    sites = []
    # 1. ingest loop: `for i, clause in enumerate(clauses)` with a len() chain
    for n in own_nodes(f.node):
        if isinstance(n, ast.For) and isinstance(n.iter, ast.Call) and isinstance(n.iter.func, ast.Name) and n.iter.func.id == "enumerate" and ast.unparse(n.iter.args[0]) == "clauses" and isinstance(n.target, ast.Tuple):
            idx, subj = n.target.elts[0].id, n.target.elts[1].id
            chain = next((s for s in n.body if isinstance(s, ast.If)), None)
            sites.append(("ingest", f, n, subj, (lambda e, idx=idx: isinstance(e, ast.Name) and e.id == idx), chain, n.body))
    # 2/3. learned.append(X) in solve_sat body (learned clause, blocking clause)
    cfg = roles.cfg
    for n in own_nodes(f.node):
        if isinstance(n, ast.Call) and isinstance(n.func, ast.Attribute) and n.func.attr == "append" and isinstance(n.func.value, ast.Name) and n.func.value.id == roles.learned and isinstance(n.args[0], ast.Name):
            subj = n.args[0].id
            stmt_node = cfg.stmt_node_containing(n)
            blk = _enclosing_block(f.node, stmt_node.ast)
            i = blk.index(stmt_node.ast)
            # index variable: assigned `len(clauses) + len(learned)` BEFORE the append in the same block
            idxvar = None
            for s in blk[:i]:
                if isinstance(s, ast.Assign) and isinstance(s.targets[0], ast.Name) and _is_next_index(s.value, roles.learned):
                    idxvar = s.targets[0].id
            late = any(isinstance(s, ast.Assign) and isinstance(s.targets[0], ast.Name) and _is_next_index(s.value, roles.learned) for s in blk[i + 1 :])
            role = "blocking" if any(isinstance(x, ast.ListComp) for v in assignments_to(f.node, subj) if isinstance(v, ast.AST) for x in [v]) else "learned"
            ctx.ob(oid, "R25 REGISTRATION-TABLE", f, f"add-site:{role}:index-computed-before-append", idxvar is not None and not late, "clause index = len(clauses)+len(learned) must be taken before the append (else it names the next slot)", node=n)
            chain = next((s for s in blk[i + 1 :] if isinstance(s, ast.If) and _len_arms(s, subj)), None)
            sites.append((role, f, n, subj, (lambda e, v=idxvar: isinstance(e, ast.Name) and e.id == v), chain, blk[i + 1 :]))
    # 4. reduce_db rebuild loop: `for i, clause in enumerate(learned): idx = len(clauses)+i`
    g = roles.reduce_db
    for n in own_nodes(g.node):
        if isinstance(n, ast.For) and isinstance(n.iter, ast.Call) and isinstance(n.iter.func, ast.Name) and n.iter.func.id == "enumerate" and ast.unparse(n.iter.args[0]) == roles.learned and isinstance(n.target, ast.Tuple):
            ivar, subj = n.target.elts[0].id, n.target.elts[1].id
            idxvar = None
            for s in n.body:
                if isinstance(s, ast.Assign) and isinstance(s.targets[0], ast.Name) and isinstance(s.value, ast.BinOp) and isinstance(s.value.op, ast.Add):
                    parts = {ast.unparse(s.value.left), ast.unparse(s.value.right)}
                    if parts == {"len(clauses)", ivar}:
                        idxvar = s.targets[0].id
            ctx.ob(oid, "R25 REGISTRATION-TABLE", g, "add-site:rebuild:index == len(clauses) + position", idxvar is not None, "rebuilt clause index must equal its position in the learned list offset by the original clause count (get_clause's numbering)", node=n)
            chain = next((s for s in n.body if isinstance(s, ast.If) and _len_arms(s, subj)), None)
            sites.append(("rebuild", g, n, subj, (lambda e, v=idxvar: isinstance(e, ast.Name) and e.id == v), chain, n.body))
    ctx.floor("clause add sites", len(sites), 4)
    for role, fn, node, subj, idx_ok, chain, blk in sites:
        if chain is None:
            ctx.ob(oid, "R25 REGISTRATION-TABLE", fn, f"add-site:{role}:length-dispatch", False, f"no len({subj}) dispatch registering the clause after it is added", node=node)
            continue
        arms, els = _len_arms(chain, subj)
        for n_len, want in ((2, "two positions"), (3, "two positions"), (7, "two positions")):
            body = _covers(arms, els, n_len)
            ok = bool(body) and _registers(body, subj, idx_ok, want)
            ctx.ob(oid, "R25 REGISTRATION-TABLE", fn, f"add-site:{role}:len={n_len if n_len < 7 else '>3'} registered on positions 0 and 1 under its own index", ok, "clause of this length must enter the binary-implication list or get two watches (positions 0,1) with the clause's index", node=chain)
        if role == "ingest":
            b0 = _covers(arms, els, 0)
            ok0 = bool(b0) and any(isinstance(s, ast.Return) and "INFEASIBLE" in ast.unparse(s) for s in b0)
            ctx.ob(oid, "R25 REGISTRATION-TABLE", fn, "add-site:ingest:len=0 rejected as INFEASIBLE", ok0, "", node=chain)
            b1 = _covers(arms, els, 1)
            ok1 = bool(b1) and any(isinstance(n, ast.Call) and isinstance(n.func, ast.Attribute) and n.func.attr == "append" for s in b1 for n in ast.walk(s))
            # the unit list must be consumed by a later loop that assigns or reports a conflict
            unit_list = next((n.func.value.id for s in (b1 or []) for n in ast.walk(s) if isinstance(n, ast.Call) and isinstance(n.func, ast.Attribute) and n.func.attr == "append" and isinstance(n.func.value, ast.Name)), None)
            consumed = False
            for n in own_nodes(fn.node):
                if isinstance(n, ast.For) and isinstance(n.iter, ast.Name) and n.iter.id == unit_list:
                    txt = ast.unparse(n)
                    consumed = f"{roles.assign.name}(" in txt and "INFEASIBLE" in txt
            ctx.ob(oid, "R25 REGISTRATION-TABLE", fn, "add-site:ingest:len=1 asserted at level 0 (or conflict reported)", ok1 and consumed, f"unit clauses collected in `{unit_list}` must be assigned with their clause as reason, contradiction -> INFEASIBLE", node=chain)
        if role == "blocking":
            b1 = _covers(arms, els, 1)
            ok1 = bool(b1) and any(isinstance(n, ast.Call) and (getattr(n.func, "id", "") in ("add_watch", roles.assign.name)) for s in b1 for n in ast.walk(s))
            ctx.ob(oid, "R25 REGISTRATION-TABLE", fn, "add-site:blocking:len=1 watched or asserted", ok1, "a one-literal blocking clause (single free variable) must still exclude the model", node=chain)
    return sites


def _is_next_index(e: ast.AST, learned: str) -> bool:
    if isinstance(e, ast.BinOp) and isinstance(e.op, ast.Add):
        parts = {ast.unparse(e.left), ast.unparse(e.right)}
        return parts == {"len(clauses)", f"len({learned})"}
    return False


def _enclosing_block(fn_node: ast.AST, stmt: ast.stmt) -> list:
    for n in ast.walk(fn_node):
        for fld in ("body", "orelse", "finalbody"):
            b = getattr(n, fld, None)
            if isinstance(b, list) and any(s is stmt for s in b):
                return b
    raise AnalysisError("statement not found in any block")


# ---------------------------------------------------------------------------------------------
# assumptions: every literal is asserted or checked individually
# ---------------------------------------------------------------------------------------------


def check_assumption_assertion(ctx: Ctx, roles: SatRoles, oid: str):
    """The returned model must agree with EVERY assumption literal: each literal of the list is either asserted (when
    its variable is free) or compared with the current value (conflict -2 when opposite).  Collapsing the list per
    variable first (dict / set keyed by variable) lets a later literal silently override an earlier one."""
    g = roles.propagate
    cfg = cfg_of(g.node)
    gv = GuardView(cfg)
    loops = [n for n in own_nodes(g.node) if isinstance(n, ast.For) and "assum" in ast.unparse(n.iter)]
    loops += [n for n in own_nodes(g.node) if isinstance(n, ast.For) and any(x in names_in(n.iter) for x in _derived_from(roles.f, "assumptions")) and n not in loops]
    ctx.ob(oid, "R26 assumptions", g, "assumptions are asserted in a loop at decision level 0", len(loops) == 1, f"{len(loops)} loops over assumption data in {g.qualname}", node=g.node)
    if len(loops) != 1:
        return
    lp = loops[0]
    it = lp.iter
    per_literal = isinstance(it, ast.Name) and it.id == "assumptions" and isinstance(lp.target, ast.Name)
    # `assumptions` itself must still be the list of literals (list(...) of the parameter)
    defs = [ast.unparse(v) for v in assignments_to(roles.f.node, "assumptions") if isinstance(v, ast.AST)]
    list_ok = all(d in ("list(assumptions) if assumptions else []", "list(assumptions)", "list(assumptions or [])") for d in defs)
    ctx.ob(oid, "R26 assumptions", g, "the loop visits every assumption literal (the list itself, not a per-variable collapse)", per_literal and list_ok, f"iterates `{ast.unparse(it)}`; assumptions = {defs}", node=lp)
    lit = ast.unparse(lp.target)
    asserts = [n for n in ast.walk(lp) if isinstance(n, ast.Call) and isinstance(n.func, ast.Name) and n.func.id == roles.assign.name]
    conflicts = [n for n in ast.walk(lp) if isinstance(n, ast.Return) and ast.unparse(n.value) == "-2"]
    ok = len(asserts) == 1 and len(conflicts) == 1
    if ok:
        a_at = gv.guard_atoms(cfg.stmt_node_containing(asserts[0]), stable_only=False)
        c_at = gv.guard_atoms(cfg.node_of(conflicts[0]), stable_only=False)
        ok = any("UNDEF" in a and "==" in a for a in a_at) and any("!=" in a and f"{lit} > 0" in a.replace("(", "").replace(")", "") or ("!=" in a and "0 < " + lit in a) for a in c_at) and ast.unparse(asserts[0].args[1]) == f"{lit} > 0"
    ctx.ob(oid, "R26 assumptions", g, "a free variable is assigned the literal's polarity; an opposite value is reported as assumption conflict", ok, "", node=lp)
    at = gv.guard_atoms(cfg.stmt_node_containing(lp.iter))
    ctx.ob(oid, "R26 assumptions", g, "assumptions are (re)asserted whenever propagation runs at decision level 0", any(a in ("0 == len(trail_lim)", "len(trail_lim) == 0") for a in at), f"{sorted(at)}", node=lp)


def _derived_from(f: Func, name: str) -> set[str]:
    out = {name}
    changed = True
    while changed:
        changed = False
        for n in own_nodes(f.node):
            if isinstance(n, ast.Assign) and len(n.targets) == 1 and isinstance(n.targets[0], ast.Name) and names_in(n.value) & out and n.targets[0].id not in out:
                out.add(n.targets[0].id)
                changed = True
    return out - {name}


def check_heap_flags(ctx: Ctx, oid: str):
    """Decision heap bookkeeping.  `in_heap[v]` false is what makes backtracking re-insert v; so it must be cleared
    whenever an entry of v is popped (otherwise a variable whose last entry was popped while it was assigned is never
    offered for a decision again and a partial assignment is published as a model), and set only together with a push."""
    f = ctx.func("sat", "solve_sat")
    fns = [f] + [g for g in ctx.repo.callees(f) if g.qualname.startswith("solve_sat.")]
    pops = pushes = 0
    for g in fns:
        for n in own_nodes(g.node):
            if isinstance(n, ast.Assign) and isinstance(n.value, ast.Call) and ast.unparse(n.value.func) == "heappop" and ast.unparse(n.value.args[0]) == "var_heap":
                pops += 1
                var = ast.unparse(n.targets[0].elts[-1]) if isinstance(n.targets[0], ast.Tuple) else "?"
                blk = _enclosing_block(g.node, n)
                i = blk.index(n)
                nxt = blk[i + 1] if i + 1 < len(blk) else None
                ok = nxt is not None and ast.unparse(nxt) == f"in_heap[{var}] = False"
                ctx.ob(oid, "R16 PAIRED-EFFECTS", g, "every pop from the decision heap clears the popped variable's in-heap flag, unconditionally", ok, f"after `{ast.unparse(n)}` comes `{ast.unparse(nxt)[:50] if nxt is not None else 'nothing'}`: a variable popped while assigned keeps its flag, backtracking then does not re-insert it, the heap runs dry with variables unassigned and a partial assignment is published as a model", node=n)
            if isinstance(n, ast.Assign) and ast.unparse(n.targets[0]).startswith("in_heap[") and ast.unparse(n.value) == "True":
                pushes += 1
                var = ast.unparse(n.targets[0].slice)
                blk = _enclosing_block(g.node, n)
                ok = any(isinstance(x, ast.Expr) and isinstance(x.value, ast.Call) and ast.unparse(x.value.func) == "heappush" and ast.unparse(x.value.args[1]).endswith(f", {var})") for x in blk)
                ctx.ob(oid, "R16 PAIRED-EFFECTS", g, "the in-heap flag is set only together with a push of that variable", ok, "", node=n)
    # the heap is built once and then changed only entry by entry: a wholesale rebuild drops entries while the in-heap
    # flags of the variables it leaves out stay set, and backtracking will not re-insert them
    for g in fns:
        if g is f:
            continue
        for n in own_nodes(g.node):
            rebuilt = None
            if isinstance(n, (ast.Assign, ast.AugAssign)):
                for t in n.targets if isinstance(n, ast.Assign) else [n.target]:
                    b_ = t
                    while isinstance(b_, (ast.Subscript, ast.Attribute)):
                        b_ = b_.value
                    if isinstance(b_, ast.Name) and b_.id == "var_heap":
                        rebuilt = n
            elif isinstance(n, ast.Call) and ast.unparse(n.func) in ("heapify", "var_heap.clear", "var_heap.sort") and (not n.args or ast.unparse(n.args[0]) == "var_heap"):
                rebuilt = n
            if rebuilt is not None:
                ctx.ob(oid, "R16 PAIRED-EFFECTS", g, "the decision heap is changed only by single pushes and pops", False, f"`{ast.unparse(rebuilt)[:60]}` rebuilds the heap: variables that are assigned at that moment lose their entries but keep their in-heap flag, so backtracking never offers them again and a partial assignment is published as a model", node=rebuilt)
    ctx.floor("decision heap pops", pops, 1)
    ctx.floor("in-heap flag sets", pushes, 1)
    un = ctx.func("sat", "solve_sat.unassign_to")
    reins = [n for n in own_nodes(un.node) if isinstance(n, ast.If) and ast.unparse(n.test) == "not in_heap[var]" and [ast.unparse(x) for x in n.body] == ["heappush(var_heap, (-activity[var], var))", "in_heap[var] = True"]]
    ctx.ob(oid, "R16 PAIRED-EFFECTS", un, "backtracking re-inserts every unassigned variable whose flag is clear", len(reins) == 1, "", node=un.node)
    # the propagation head is only ever lowered by backtracking: a literal asserted at the level jumped to (for level 0:
    # a learned unit, an assumption) may still be waiting, and raising the head past it leaves its watches unvisited
    heads = [n for n in own_nodes(un.node) if isinstance(n, (ast.Assign, ast.AugAssign)) and ast.unparse(n.targets[0] if isinstance(n, ast.Assign) else n.target) == "prop_head"]
    ctx.floor("propagation-head stores in unassign_to", len(heads), 1)
    for h in heads:
        v = ast.unparse(h.value) if isinstance(h, ast.Assign) else "?"
        ctx.ob(oid, "R16 PAIRED-EFFECTS", un, "backtracking never moves the propagation head forward", v in ("min(prop_head, len(trail))", "min(len(trail), prop_head)"), f"`{ast.unparse(h)}`: when nothing is undone (backtrack to the current level, e.g. a restart right after a level-0 assertion) the head jumps over the literal that still waits for propagation; once both watches of a clause were skipped like this the clause is never checked again", node=h)


def check_input_copy(ctx: Ctx, oid: str):
    """The solver works on a copy of the input clause list.  The copy is one-to-one, or - if some clauses are left out -
    the test that leaves a clause out looks at the very literal collection that is kept (a filter that tests the raw
    clause and keeps a normalised one, or the other way round, drops clauses that still constrain the formula)."""
    from sa.cfg import cfg_of as _cfg_of

    f = ctx.func("sat", "solve_sat")
    defs = [n for n in own_nodes(f.node) if isinstance(n, ast.Assign) and len(n.targets) == 1 and ast.unparse(n.targets[0]) == "clauses"]
    ctx.floor("definitions of the working clause list", len(defs), 1)
    cfg = _cfg_of(f.node)
    gv = GuardView(cfg)
    for d in defs:
        v = d.value
        if isinstance(v, ast.ListComp) and len(v.generators) == 1 and ast.unparse(v.generators[0].iter) == "clauses":
            g = v.generators[0]
            ok = not g.ifs and ast.unparse(v.elt) in (f"list({ast.unparse(g.target)})", ast.unparse(g.target), f"{ast.unparse(g.target)}[:]")
            ctx.ob(oid, "R17 PARAM-IMMUTABLE", f, "the working clause list is a one-to-one copy of the input", ok, f"`{ast.unparse(v)[:60]}`", node=d)
            continue
        if isinstance(v, ast.Name):
            built = v.id
            apps = [n for n in own_nodes(f.node) if isinstance(n, ast.Call) and ast.unparse(n.func) == f"{built}.append" and len(n.args) == 1]
            ok, why = bool(apps), "" if apps else f"`{built}` is not built by appending"
            for a in apps:
                an = cfg.stmt_node_containing(a)
                lp = an.loop
                if lp is None or lp.kind != "for" or ast.unparse(lp.ast.iter) != "clauses":
                    ok, why = False, f"`{ast.unparse(a)}` is not inside a loop over the input clauses"
                    continue
                raw = ast.unparse(lp.ast.target)
                kept = ast.unparse(a.args[0])
                kept_names = names_in(a.args[0])
                tests = [b.test.ast for b in cfg.guards(an) if b.test.kind == "test" and b.test.loop is lp]
                for t in tests:
                    tn = names_in(t)
                    if kept == raw or kept in (f"list({raw})",):
                        good = True  # the raw clause is kept: any test on it is about the kept clause
                    else:
                        good = bool(kept_names & tn) and raw not in tn
                    if not good:
                        ok, why = False, f"the clause kept is `{kept}` but the test that leaves clauses out, `{ast.unparse(t)[:60]}`, looks at `{raw}`"
            ctx.ob(oid, "R17 PARAM-IMMUTABLE", f, "a clause is left out of the working list only by a test on the very literal collection that is kept", ok, why + (": a clause such as [x, x, y] (a repeated literal, not a tautology) is dropped and the solver answers for a weaker formula" if why else ""), node=d)
            continue
        ctx.ob(oid, "R17 PARAM-IMMUTABLE", f, "the working clause list is a recognisable copy of the input", False, f"`{ast.unparse(v)[:60]}`", node=d)


def check_assign(ctx: Ctx, oid: str):
    """assign() is the only place a variable gets a value: value, level, reason and trail entry are written together"""
    f = ctx.func("sat", "solve_sat.assign")
    body = [ast.unparse(x) for x in f.node.body if not isinstance(x, (ast.Nonlocal,)) and not (isinstance(x, ast.Expr) and isinstance(x.value, ast.Constant))]
    need = ["vals[var] = 1 if val else 0", "levels[var] = len(trail_lim)", "reasons[var] = reason_idx", "trail.append(var)"]
    ctx.ob(oid, "R16 PAIRED-EFFECTS", f, "assign records value, decision level, reason and trail entry of the same variable, once each", all(x in body for x in need) and sum(1 for x in body if x.startswith(("vals[", "levels[", "reasons[", "trail."))) == 4, f"{body}", node=f.node)


def check_trail_ownership(ctx: Ctx, oid: str):
    """A variable gets a value in assign() and loses it in unassign_to(), nowhere else; the trail grows in assign() and
    shrinks in unassign_to(); the propagation pointer moves forward one entry at a time in propagate() and is pulled
    back in unassign_to().  A value written past assign() has no level and no reason; an entry the pointer jumps over
    is never propagated - clauses watched on it are never visited."""
    f = ctx.func("sat", "solve_sat")
    fns = [f] + [g for g in ctx.repo.callees(f) if g.qualname.startswith("solve_sat.")]
    bad = []
    n_sites = 0
    for g in fns:
        q = g.qualname
        for n in own_nodes(g.node):
            if isinstance(n, (ast.Assign, ast.AugAssign)):
                tg = n.targets if isinstance(n, ast.Assign) else [n.target]
                for t in tg:
                    for e in t.elts if isinstance(t, ast.Tuple) else [t]:
                        if isinstance(e, ast.Subscript) and ast.unparse(e.value) == "vals":
                            n_sites += 1
                            if q not in ("solve_sat.assign", "solve_sat.unassign_to"):
                                bad.append((g, n, "a value is written"))
                        if isinstance(e, ast.Name) and e.id == "prop_head":
                            n_sites += 1
                            ok = (q == "solve_sat" and ast.unparse(n) == "prop_head = 0" and cfg_of(g.node).node_of(n).loop is None) or (q == "solve_sat.propagate" and ast.unparse(n) == "prop_head += 1") or q == "solve_sat.unassign_to"
                            if not ok:
                                bad.append((g, n, "the propagation pointer is moved"))
            if isinstance(n, ast.Call) and isinstance(n.func, ast.Attribute) and ast.unparse(n.func.value) == "trail" and n.func.attr in ("append", "extend", "insert", "pop", "clear", "remove"):
                n_sites += 1
                if (n.func.attr == "append" and q != "solve_sat.assign") or (n.func.attr != "append" and q != "solve_sat.unassign_to"):
                    bad.append((g, n, "the trail is edited"))
    ctx.floor("writes to vals / trail / prop_head in solve_sat", n_sites, 6)
    ctx.ob(oid, "R27 WRITE-OWNERSHIP", bad[0][0] if bad else f, "values and trail entries are written by assign() and removed by unassign_to() only; the propagation pointer advances in propagate()'s queue loop and is pulled back by unassign_to() only", not bad, f"`{ast.unparse(bad[0][1])[:60]}` in {bad[0][0].qualname}: {bad[0][2]} outside its owner - " + "a literal put on the trail by hand has no level and no reason, and entries the pointer skips are never propagated (a clause whose watches they falsify is never visited, and a non-model is published)" if bad else "", node=bad[0][1] if bad else f.node)


def check_variable_universe(ctx: Ctx, oid: str):
    """Every array of the solver is sized by n_vars: it must cover the variables of the clauses and of the assumptions
    (an assumed variable need not occur in any clause)."""
    f = ctx.func("sat", "solve_sat")
    cfg = cfg_of(f.node)
    srcs = set()
    for n in own_nodes(f.node):
        if isinstance(n, ast.Assign) and ast.unparse(n.targets[0]) == "n_vars" and "lit_var" in ast.unparse(n.value):
            lp = cfg.node_of(n).loop
            while lp is not None:
                if lp.kind == "for":
                    srcs.add(ast.unparse(lp.ast.iter))
                lp = lp.loop
    # nothing reads n_vars before it is final: a test or an array sized from a count that still lacks the assumed
    # variables answers for a smaller universe (n_vars == 0 although an assumption names a variable)
    writes = [cfg.node_of(n) for n in own_nodes(f.node) if isinstance(n, (ast.Assign, ast.AugAssign)) and ast.unparse(n.targets[0] if isinstance(n, ast.Assign) else n.target) == "n_vars"]
    wids = {w.id for w in writes}
    early = []
    for n in own_nodes(f.node):
        if isinstance(n, ast.Name) and n.id == "n_vars" and isinstance(n.ctx, ast.Load):
            rn = cfg.stmt_node_containing(n)
            if rn.id in wids:
                continue
            if cfg.forward(rn) & wids:
                early.append(n)
    ctx.ob(oid, "R2 ORDER", f, "n_vars is read only after its last update (clauses and assumptions both counted)", not early, f"read at line {early[0].lineno if early else 0} can still be followed by an update of n_vars: the decision taken there is for a universe that lacks some variables", node=early[0] if early else f.node)
    ctx.ob(oid, "R18 table", f, "the variable count ranges over the clauses and over the assumptions", {"clauses", "assumptions"} <= srcs, f"n_vars is the maximum over {sorted(srcs)}: a literal of a variable beyond it indexes the value / watch arrays out of range (IndexError instead of a verdict)", node=f.node)


def _flat(text: str) -> str:
    """indentation-insensitive form: statement groups are compared line by line, whatever block they sit in"""
    return "\n".join(line.strip() for line in text.splitlines())


_NF_CACHE: dict = {}


def _nf_text(node: ast.AST):
    """unparsed normal form (sa.derename N0-N14) of a function, cached per node"""
    k = id(node)
    if k not in _NF_CACHE:
        from sa.derename import normal_form

        try:
            _NF_CACHE[k] = (node, ast.unparse(normal_form(node)[0]))
        except Exception:  # noqa: BLE001 - the fallback is optional
            _NF_CACHE[k] = (node, None)
    return _NF_CACHE[k][1]


def _nf_fragment(frag: str):
    """the same normal form for a statement group written as it appears in the baseline source (first line without
    indentation, the following lines with the indentation they have inside the function)"""
    if frag in _NF_CACHE:
        return _NF_CACHE[frag]
    out = None
    try:
        from sa.derename import normal_form

        lines = frag.strip("\n").split("\n")
        first, rest = lines[0].strip(), lines[1:]
        inds = [len(ln) - len(ln.lstrip(" ")) for ln in rest if ln.strip()]
        base = 0
        if inds:
            base = inds[0] - 4 if first.endswith(":") else inds[0]
            base = min([base] + inds) if base > min(inds) else base
        body = [first] + [ln[base:] if len(ln) - len(ln.lstrip(" ")) >= base else ln.lstrip(" ") for ln in rest]
        src = "def _f():\n" + "\n".join("    " + ln for ln in body) + "\n"
        fn = ast.parse(src).body[0]
        nf = normal_form(fn)[0]
        text = str(ast.unparse(nf))
        blines = text.split("\n")[1:]
        out = "\n".join(ln[4:] if ln.startswith("    ") else ln for ln in blines)
    except Exception:  # noqa: BLE001
        out = None
    _NF_CACHE[frag] = out
    return out


def _present(frag: str, t, node: ast.AST) -> bool:
    """a statement group is present as written, or - if the function was rewritten by behaviour-preserving surface
    edits the unit-level restoration could not undo (because something else in the unit changed too) - present in
    normal form"""
    if frag in t:
        return True
    nt = _nf_text(node)
    nfrag = _nf_fragment(frag) if nt is not None else None
    return bool(nfrag) and nfrag in nt


def _need(ctx: Ctx, oid: str, rule: str, f: Func, what: str, frags: list[str], detail: str = ""):
    """obligation stated as a set of statement groups that must all be present in the (surface-normalised) function"""
    t = ast.unparse(f.node)  # BlockText: statement groups are matched at any nesting depth, block structure kept
    missing = [fr.strip().split("\n")[0] for fr in frags if not _present(fr, t, f.node)]
    ctx.ob(oid, rule, f, what, not missing, (f"not found: `{missing[0]}`" + (f" (+{len(missing) - 1})" if len(missing) > 1 else "") + (". " + detail if detail else "")) if missing else "", node=f.node)


def check_bcp(ctx: Ctx, oid: str):
    """Boolean constraint propagation (two watched literals + binary implication lists), obligation by obligation."""
    p = ctx.func("sat", "solve_sat.propagate")
    _need(ctx, oid, "R29 EXACTLY-ONCE", p, "every trail entry is taken from the propagation queue exactly once, and the literal it falsifies is derived from its current value", ["while prop_head < len(trail):\n        var = trail[prop_head]\n        prop_head += 1\n        false_lit = var if vals[var] == 0 else -var"])
    _need(ctx, oid, "R1 STATUS-GUARD", p, "a binary implication asserts the implied literal with its clause as reason when it is unassigned, and reports that clause as conflict when it is false", ["for implied, clause_idx in big.implications(false_lit):\n            impl_var = lit_var(implied)\n            if vals[impl_var] == UNDEF:\n                assign(impl_var, implied > 0, clause_idx)\n            elif (vals[impl_var] == 1) != (implied > 0):\n                conflicts += 1\n                return clause_idx"])
    _need(ctx, oid, "R16 PAIRED-EFFECTS", p, "the falsified watch is moved to position 1; a clause whose other watch is true keeps its watches", ["if clause[0] == false_lit:\n                clause[0], clause[1] = (clause[1], clause[0])", "first_val = lit_value(clause[0])\n            if first_val is True:\n                i += 1\n                continue"])
    _need(ctx, oid, "R16 PAIRED-EFFECTS", p, "a non-false literal found among positions 2.. replaces the falsified watch: swapped into position 1, this watch entry removed, the new literal watched, and the scan stays at the same index", ["for k in range(2, len(clause)):\n                if lit_value(clause[k]) is not False:\n                    clause[1], clause[k] = (clause[k], clause[1])\n                    watches[i] = watches[-1]\n                    watches.pop()\n                    add_watch(clause[1], clause_idx)\n                    found = True\n                    break", "if found:\n                continue", "found = False"])
    _need(ctx, oid, "R1 STATUS-GUARD", p, "with no replacement: the clause is a conflict if its first watch is false, otherwise that literal is asserted with the clause as reason", ["if first_val is False:\n                conflicts += 1\n                return clause_idx\n            else:\n                assign(lit_var(clause[0]), clause[0] > 0, clause_idx)\n            i += 1"])
    _need(ctx, oid, "R1 STATUS-GUARD", p, "the scan visits every watch of the falsified literal; 'no conflict' is returned only after the queue ran empty", ["watches = watch_list(false_lit)\n        i = 0\n        while i < len(watches):\n            clause_idx = watches[i]\n            clause = get_clause(clause_idx)"])
    blocks = [i for i, st_ in enumerate(p.node.body) if isinstance(st_, ast.If) and "trail_lim" in names_in(st_.test) and "assumptions" in {x.id for x in ast.walk(st_) if isinstance(x, ast.Name)}]
    queue = [i for i, st_ in enumerate(p.node.body) if isinstance(st_, ast.While) and "prop_head" in names_in(st_.test)]
    ctx.ob(oid, "R16 PAIRED-EFFECTS", p, "at level 0 the assumptions are asserted before the queue is processed (so that they are propagated by this very call)", len(blocks) == 1 and len(queue) == 1 and blocks[0] < queue[0], "assumption literals asserted after the queue loop stay unpropagated: when they leave no free variable the assignment is published without any clause having been checked against it", node=p.node.body[blocks[0]] if blocks else p.node)
    if blocks:
        t0 = p.node.body[blocks[0]].test
        lvl0 = ast.unparse(t0).replace(" ", "") in ("len(trail_lim)==0", "0==len(trail_lim)", "nottrail_lim", "len(trail_lim)<1")
        ctx.ob(oid, "R1 STATUS-GUARD", p, "the assumptions are (re)asserted in every call made at level 0, whatever is pending on the trail", lvl0, f"`if {ast.unparse(t0)}`: the search relies on the first call - with an empty trail and nothing pending - to put the assumptions on the trail; under a further condition they are never asserted, and a model that contradicts an assumption is published (or a model at all, where formula plus assumptions have none)", node=p.node.body[blocks[0]])
    rets = [ast.unparse(r.value) for r in own_nodes(p.node) if isinstance(r, ast.Return)]
    cfg = cfg_of(p.node)
    last = p.node.body[-1]
    ctx.ob(oid, "R1 STATUS-GUARD", p, "-1 (no conflict) is returned once, as the last statement after the queue loop", rets.count("-1") == 1 and isinstance(last, ast.Return) and ast.unparse(last.value) == "-1", f"returns {rets}", node=last)
    lv = ctx.func("sat", "solve_sat.lit_value")
    _need(ctx, oid, "R18 table", lv, "lit_value: None for an unassigned variable, otherwise whether the literal's sign agrees with the value", ["v = vals[lit_var(lit)]", "if v == UNDEF:\n        return None", "return (v == 1) == (lit > 0)"])
    for q, frags, what in (
        ("solve_sat.watch_list", ["return watch_pos[lit] if lit > 0 else watch_neg[-lit]"], "watch_list selects the list of the literal's own polarity"),
        ("solve_sat.add_watch", ["if lit > 0:\n        watch_pos[lit].append(idx)\n    else:\n        watch_neg[-lit].append(idx)"], "add_watch files the clause under the literal's own polarity"),
        ("solve_sat.get_clause", ["return clauses[idx] if idx < len(clauses) else learned[idx - len(clauses)]"], "clause indices below len(clauses) are original clauses, the rest learned ones"),
    ):
        if ctx.repo.has_func("sat", q):
            _need(ctx, oid, "R18 table", ctx.func("sat", q), what, frags)


def check_variable_ranges(ctx: Ctx, oid: str):
    """Every loop or comprehension of solve_sat that ranges over the variables covers 1..n_vars: the decision heap and
    its membership flags, the pure-literal scan, the watch purge of reduce_db, the model read-out and the blocking
    clause.  A variable left out of the heap is never decided; left out of the read-out it has no value in the model."""
    f = ctx.func("sat", "solve_sat")
    sites = []
    for n in ast.walk(f.node):
        it = n.iter if isinstance(n, (ast.For, ast.comprehension)) else None
        if isinstance(it, ast.Call) and isinstance(it.func, ast.Name) and it.func.id == "range" and len(it.args) == 2 and ast.unparse(it.args[0]) == "1" and "n_vars" in names_in(it.args[1]):
            sites.append((n, it))
    ctx.floor("loops over the variables 1..n_vars in solve_sat", len(sites), 5)
    bad = [(n, it) for n, it in sites if ast.unparse(it.args[1]).replace(" ", "") not in ("n_vars+1", "1+n_vars")]
    ctx.ob(oid, "R12 NO-CARDINALITY-CUTOFF", f, "every pass over the variables covers 1..n_vars (`range(1, n_vars + 1)`)", not bad, f"`{ast.unparse(bad[0][1])}` at line {bad[0][1].lineno}: the highest-numbered variable is left out - out of the decision heap it is never decided (its flag says it is queued), and a model is published in which a clause over it is not true" if bad else "", node=bad[0][1] if bad else f.node)
    flags = [n for n in own_nodes(f.node) if isinstance(n, ast.Assign) and ast.unparse(n.targets[0]) == "in_heap"]
    ctx.ob(oid, "R16 PAIRED-EFFECTS", f, "the membership flags start true for exactly the variables the heap starts with (all of them)", len(flags) == 1 and ast.unparse(flags[0].value).replace(" ", "") in ("[True]*(n_vars+1)", "[True]*(1+n_vars)"), ast.unparse(flags[0].value) if flags else "not found", node=flags[0] if flags else f.node)


def check_analysis(ctx: Ctx, oid: str):
    """First-UIP conflict analysis."""
    a = ctx.func("sat", "solve_sat.analyze")
    _need(ctx, oid, "R1 STATUS-GUARD", a, "a failed assumption or a conflict at level 0 yields no learned clause", ["if conflict_idx == -2:\n        return (None, -1, 0)", "current_level = len(trail_lim)\n    if current_level == 0:\n        return (None, -1, 0)"])
    al = ctx.func("sat", "solve_sat.analyze.add_lit")
    _need(ctx, oid, "R16 PAIRED-EFFECTS", al, "each variable enters the analysis once: current-level variables are counted, the others contribute their false literal to the learned clause", ["var = lit_var(lit)\n    if seen[var] or vals[var] == UNDEF:\n        return\n    seen[var] = True", "if levels[var] == current_level:\n        counter += 1\n    else:\n        learned_lits.append(lit_neg(lit) if (vals[var] == 1) == (lit > 0) else lit)"])
    _need(ctx, oid, "R16 PAIRED-EFFECTS", a, "the trail is walked backwards over the seen variables; a current-level variable lowers the counter; at zero its negated assignment is the UIP literal, placed first; otherwise it is resolved with its reason clause", ["for lit in clause:\n        add_lit(lit)", "trail_idx = len(trail) - 1\n    while counter > 0:\n        while trail_idx >= 0 and (not seen[trail[trail_idx]]):\n            trail_idx -= 1\n        if trail_idx < 0:\n            break\n        var = trail[trail_idx]\n        trail_idx -= 1", "if levels[var] == current_level:\n            counter -= 1\n            if counter == 0:\n                uip_lit = var if vals[var] == 0 else -var\n                learned_lits.insert(0, uip_lit)\n                break\n            reason_idx = reasons[var]\n            if reason_idx >= 0:\n                for lit in get_clause(reason_idx):\n                    if lit_var(lit) != var:\n                        add_lit(lit)"])
    _need(ctx, oid, "R18 table", a, "backjump level = second highest level of the learned clause (0 for a single level); LBD = number of levels", ["lvl_set = set((levels[lit_var(lit)] for lit in learned_lits if vals[lit_var(lit)] != UNDEF))", "lvls = sorted(lvl_set, reverse=True)\n    bt_level = lvls[1] if len(lvls) > 1 else 0\n    lbd = len(lvl_set)", "return (learned_lits, bt_level, lbd)", "if not learned_lits:\n        return (None, -1, 0)"])
    # the learned clause is what first-UIP resolution collected, nothing is taken out of it afterwards: it is written by
    # its initialisation, by add_lit's append and by the insertion of the UIP literal - a literal that is removed
    # (a minimisation step) needs its own soundness argument, which no rule here can check
    writes = []
    for g_ in (a, al):
        for n in own_nodes(g_.node):
            if isinstance(n, ast.Call) and isinstance(n.func, ast.Attribute) and isinstance(n.func.value, ast.Name) and n.func.value.id == "learned_lits" and n.func.attr in ("append", "insert", "extend", "remove", "pop", "clear", "sort", "reverse"):
                ok_ = (n.func.attr == "append" and g_ is al) or (n.func.attr == "insert" and g_ is a and n.args and ast.unparse(n.args[0]) == "0")
                if not ok_:
                    writes.append(n)
            elif isinstance(n, (ast.Assign, ast.AugAssign, ast.Delete)):
                for t_ in n.targets if isinstance(n, (ast.Assign, ast.Delete)) else [n.target]:
                    b_ = t_
                    while isinstance(b_, (ast.Subscript, ast.Attribute)):
                        b_ = b_.value
                    if isinstance(b_, ast.Name) and b_.id == "learned_lits":
                        if isinstance(n, ast.Assign) and isinstance(t_, ast.Name) and ast.unparse(n.value) == "[]":
                            continue
                        writes.append(n)
    ctx.ob(oid, "R27 WRITE-OWNERSHIP", a, "the learned clause is written only by its initialisation, add_lit's append and the insertion of the UIP literal", not writes, f"`{ast.unparse(writes[0])[:70]}`: a literal removed from the learned clause makes it stronger than what resolution derived - if the removal is wrong in one corner the clause is not implied by the formula, and a satisfiable formula can be answered INFEASIBLE" if writes else "", node=writes[0] if writes else a.node)
    f = ctx.func("sat", "solve_sat")
    _need(ctx, oid, "R16 PAIRED-EFFECTS", f, "a decision opens a level, assigns the saved phase without a reason and propagates", ["decisions += 1\n        dec_level += 1\n        trail_lim.append(len(trail))\n        assign(var, phase[var], -1)\n        conflict = propagate()"])
    lb = ctx.func("sat", "luby")
    _need(ctx, oid, "R18 table", lb, "luby(i): 2^(k-1) when i = 2^k - 1, otherwise recurse on i - 2^(k-1) + 1", ["k = 1", "if i == (1 << k) - 1:\n            return 1 << k - 1", "if i < (1 << k) - 1:\n            i -= (1 << k - 1) - 1\n            k = 1\n        else:\n            k += 1"])
    rd = ctx.func("sat", "solve_sat.reduce_db")
    _need(ctx, oid, "R16 PAIRED-EFFECTS", rd, "database reduction renumbers the kept learned clauses: watches and binary implications of learned clauses are dropped and rebuilt for the kept ones", ["learned, lbd_scores = (keep, keep_lbd)", "watch_pos[v] = [c for c in watch_pos[v] if c < len(clauses)]", "watch_neg[v] = [c for c in watch_neg[v] if c < len(clauses)]", "big.clear_learned(len(clauses))", "idx = len(clauses) + i", "keep.append(clause)\n            keep_lbd.append(lbd_scores[orig_idx])"])


def check_main_loop(ctx: Ctx, oid: str):
    """The steps of the CDCL driver that the other obligations take for granted."""
    f = ctx.func("sat", "solve_sat")
    _need(ctx, oid, "R16 PAIRED-EFFECTS", f, "a conflict above level 0 is analysed, the solver jumps back to the computed level and records it as the current level, and the learned clause is stored with its LBD", ["learned_clause, bt_level, lbd = analyze(conflict)", "unassign_to(bt_level)\n            dec_level = bt_level", "clause_idx = len(clauses) + len(learned)\n            learned.append(learned_clause)\n            lbd_scores.append(lbd)", "if learned_clause:\n                assign(lit_var(learned_clause[0]), learned_clause[0] > 0, clause_idx)"])
    _need(ctx, oid, "R16 PAIRED-EFFECTS", f, "restarts follow the Luby schedule: the conflict counter is compared with the current term, then reset; the solver returns to level 0 and reduces the clause database", ["conflicts_since_restart += 1", "if conflicts_since_restart >= next_restart:", "restarts += 1\n                luby_idx += 1\n                next_restart = luby_factor * luby(luby_idx)\n                conflicts_since_restart = 0\n                unassign_to(0)\n                dec_level = 0\n                reduce_db()", "conflicts_since_restart = 0\n    luby_idx = 1\n    next_restart = luby_factor * luby(luby_idx)"])
    _need(ctx, oid, "R16 PAIRED-EFFECTS", f, "every change of the trail in the driver is followed by propagation before the next decision", ["reduce_db()\n            conflict = propagate()\n            continue", "unassign_to(0)\n            dec_level = 0\n            conflict = propagate()\n            continue", "conflict = propagate()\n    if conflict >= 0:\n        return Result(None, 0, decisions, propagations, Status.INFEASIBLE)"])
    _need(ctx, oid, "R1 STATUS-GUARD", f, "a model is recorded when no unassigned variable is left; with the requested number reached it is returned at once", ["var = pick_var()\n        if var == 0:", "all_solutions.append(sol)\n            if len(all_solutions) >= solution_limit:\n                if solution_limit == 1:\n                    return Result(sol, len(sol), decisions, propagations)\n                return Result(sol, len(sol), decisions, propagations, solutions=tuple(all_solutions))"])
    # trivial answers: the empty model is right only if there is nothing to satisfy - no clause (an empty clause is
    # unsatisfiable) and no assumption
    cfg = cfg_of(f.node)
    gv = GuardView(cfg)
    unit_loop = [n for n in own_nodes(f.node) if isinstance(n, ast.For) and "enumerate(clauses)" in ast.unparse(n.iter)]
    for s_ in result_sites(f):
        if ast.unparse(s_.arg("solution")) != "{}" or s_.node.loop is not None:
            continue
        at = gv.guard_atoms(s_.node, stable_only=False)
        no_clause = "F:clauses" in at
        no_assumption = "F:assumptions" in at or not any(True for _ in [0] if "assumptions" in ast.unparse(f.node.args))
        if no_clause:
            ctx.ob(oid, "R1 STATUS-GUARD", f, "the empty model for an empty clause list is given only when there is no assumption either", "F:assumptions" in at, f"{sorted(at)}: with assumptions the answer must agree with them (or be INFEASIBLE when they contradict each other)", node=s_.call)
        else:
            gated = bool(unit_loop) and cfg.dominates(cfg.stmt_node_containing(unit_loop[0].iter), s_.node)
            ctx.ob(oid, "R14 GATE", f, "the empty model for a variable-free formula is given only after the empty-clause test", gated, "a formula that consists of empty clauses has no variables and no model: the shortcut for `n_vars == 0` answers OPTIMAL {} before the ingest loop could reject the empty clause", node=s_.call)
    _need(ctx, oid, "R1 STATUS-GUARD", f, "trivial inputs: no clause and no assumption, or no variable -> the empty model", ["if not clauses and (not assumptions):\n        return Result({}, 0, 0, 0)", "if n_vars == 0:\n        return Result({}, 0, 0, 0)"])
    _need(ctx, oid, "R16 PAIRED-EFFECTS", f, "unit clauses are asserted at level 0 with their clause as reason; a contradicting one makes the formula infeasible", ["for lit, idx in unit_clauses:\n        var = lit_var(lit)\n        val = lit > 0\n        if vals[var] == UNDEF:\n            assign(var, val, idx)\n        elif (vals[var] == 1) != val:\n            return Result(None, 0, 0, 0, Status.INFEASIBLE)"])
    un = ctx.func("sat", "solve_sat.unassign_to")
    _need(ctx, oid, "R16 PAIRED-EFFECTS", un, "undoing an assignment saves its phase and clears its value", ["var = trail.pop()\n        phase[var] = vals[var] == 1\n        vals[var] = UNDEF"])
    pv = ctx.func("sat", "solve_sat.pick_var")
    _need(ctx, oid, "R1 STATUS-GUARD", pv, "pick_var returns the first popped variable that is unassigned, and 0 only when the heap is exhausted", ["while var_heap:", "if vals[var] == UNDEF:\n            return var", "return 0"])
    fp = ctx.func("sat", "solve_sat.find_pure_literals")
    _need(ctx, oid, "R18 table", fp, "a literal is pure when its variable occurs in one polarity only", ["if lit > 0:\n                pos_count[lit] += 1\n            else:\n                neg_count[-lit] += 1", "if pos_count[v] > 0 and neg_count[v] == 0:\n            pure.append((v, True))\n        elif neg_count[v] > 0 and pos_count[v] == 0:\n            pure.append((v, False))", "return pure"])
    ba = ctx.func("sat", "solve_sat.bump_activity")
    _need(ctx, oid, "R16 PAIRED-EFFECTS", ba, "a bumped variable that sits in the heap gets a fresh entry with its new activity", ["activity[var] += activity_inc", "if in_heap[var]:\n        heappush(var_heap, (-activity[var], var))"])
