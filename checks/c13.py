"""C13 - kruskal / prim (structural part): solvor/mst.py."""

from __future__ import annotations

import ast

from sa.cfg import cfg_of
from sa.facts import result_sites
from sa.guards import atoms as _atoms
from sa.guards import GuardView, atom_of, names_in
from sa.index import own_nodes
from sa.report import Ctx

from .common import generic_sweeps

from .sat_common import _enclosing_block

EXPLANATION = (
    "Decides the structural skeleton of both MST routines: (O1) Kruskal - edges are visited in non-decreasing order of "
    "the very tuple component that is accumulated as weight, an edge is accepted iff union(u, v) is truthy, the "
    "append to the tree and the weight increment happen in the same block and nowhere else, INFEASIBLE only under "
    "'fewer than n-1 edges and forests not allowed', a forest is labelled FEASIBLE; (O2) Prim - the heap key's first "
    "component is the edge weight that is accumulated, pop -> skip if already in the tree -> add, pushes only for "
    "neighbours outside the tree, append/accumulate pairing, INFEASIBLE only when some node was not reached, the node "
    "universe includes neighbours that are not keys; (O3) the union contract kruskal relies on (shared with C20). NOT "
    "decided: minimality over all spanning trees."
)


def union_find_contract(ctx: Ctx):
    """kruskal is correct exactly as far as UnionFind is: `union` must merge whole components and say so.  C20 states
    the class's obligations field by field (who writes parent / rank / count, what the constructor sets up, union by
    rank); they count here as well."""
    import importlib

    from sa.report import run_module

    mod = importlib.import_module("checks.c20")
    sub = Ctx("C20", ctx.repo, "quick")
    run_module(mod, sub)
    if sub.aborted:
        ctx.step_aborts.append(f"[C20] {sub.aborted}")
    n = 0
    for o in sub.obs:
        if "-G" in o.oid or o.severity != "violation" or not o.func.startswith("UnionFind"):
            continue
        n += 1
        ob_ = ctx.ob("C13-O3", o.rule, None, f"[{o.oid}] {o.construct}", o.ok, (o.detail + " - kruskal accepts an edge exactly when union() says it merged two components") if not o.ok else "", rel=o.rel, fname=o.func)
        ob_.lineno = o.lineno
    ctx.floor("obligations on UnionFind (from C20)", n, 10)


def run(ctx: Ctx):
    ctx.step(union_find_contract)
    k = ctx.func("mst", "kruskal")
    # the scan: every loop that offers edges to union-find, in kruskal itself or in a closure of it
    parents = {}
    for n in ast.walk(k.node):
        for c in ast.iter_child_nodes(n):
            parents[id(c)] = n
    unions = [n for n in ast.walk(k.node) if isinstance(n, ast.Call) and ast.unparse(n.func) == "uf.union"]
    ctx.require(len(unions) >= 1, "kruskal no longer offers edges to uf.union")

    def enclosing(n, kinds):
        n = parents.get(id(n))
        while n is not None and not isinstance(n, kinds):
            n = parents.get(id(n))
        return n

    def sources(e, scope, depth=0):
        """expressions the scanned sequence `e` can denote (through single-definition names and closure parameters)"""
        if depth > 4:
            return [e]
        if isinstance(e, ast.Name):
            if isinstance(scope, ast.FunctionDef) and scope is not k.node and e.id in {a.arg for a in scope.args.args}:
                pos = [a.arg for a in scope.args.args].index(e.id)
                outer = enclosing(scope, (ast.FunctionDef,))
                out = []
                for c in ast.walk(k.node):
                    if isinstance(c, ast.Call) and isinstance(c.func, ast.Name) and c.func.id == scope.name and len(c.args) > pos:
                        out += sources(c.args[pos], enclosing(c, (ast.FunctionDef,)) or outer, depth + 1)
                return out or [e]
            defs = [d.value for d in ast.walk(scope) if isinstance(d, ast.Assign) and len(d.targets) == 1 and ast.unparse(d.targets[0]) == e.id]
            if defs:
                return [x for d in defs for x in sources(d, scope, depth + 1)]
        return [e]

    acc_all = [n for n in ast.walk(k.node) if isinstance(n, ast.AugAssign) and isinstance(n.op, ast.Add) and ast.unparse(n.target) == "total_weight"]
    app_all = [n for n in ast.walk(k.node) if isinstance(n, ast.Call) and ast.unparse(n.func) == "mst_edges.append"]
    first_sorted = None
    for un in unions:
        loop = enclosing(un, (ast.For,))
        scope = enclosing(un, (ast.FunctionDef,))
        okl = loop is not None and isinstance(loop.target, ast.Tuple) and len(loop.target.elts) == 3
        tgt = [ast.unparse(e) for e in loop.target.elts] if okl else ["?", "?", "?"]
        srcs = sources(loop.iter, scope) if okl else []
        bad = []
        kidxs = set()
        for sx in srcs:
            good = isinstance(sx, ast.Call) and ast.unparse(sx.func) == "sorted" and len(sx.args) == 1 and ast.unparse(sx.args[0]) == "edges" and not any(kw.arg == "reverse" for kw in sx.keywords)
            key = next((kw.value for kw in sx.keywords if kw.arg == "key"), None) if good else None
            kidx = None
            if isinstance(key, ast.Lambda) and isinstance(key.body, ast.Subscript) and isinstance(key.body.slice, ast.Constant):
                kidx = key.body.slice.value
            elif isinstance(key, ast.Name):
                kd = [d for d in ast.walk(k.node) if isinstance(d, ast.FunctionDef) and d.name == key.id]
                if len(kd) == 1 and len(kd[0].body) == 1 and isinstance(kd[0].body[0], ast.Return) and isinstance(kd[0].body[0].value, ast.Subscript) and isinstance(kd[0].body[0].value.slice, ast.Constant):
                    kidx = kd[0].body[0].value.slice.value
            if not good or kidx is None:
                bad.append(ast.unparse(sx)[:70])
            else:
                kidxs.add(kidx)
                first_sorted = first_sorted or sx
        acc = [a for a in acc_all if enclosing(a, (ast.For,)) is loop]
        ok = okl and bool(srcs) and not bad and len(kidxs) == 1 and len(acc) == 1 and ast.unparse(acc[0].value) == tgt[next(iter(kidxs))]
        ctx.ob("C13-O1", "R30 ACCUMULATOR-PAIRING", k, "edges are scanned in non-decreasing order of the component that is accumulated as weight, and the scan ranges over the complete sorted input", ok, (f"the scan also runs over `{bad[0]}`, which is not the whole edge list sorted by weight: an edge left out (or met out of order) can be the one the minimum tree needs" if bad else f"sort key index {sorted(kidxs)}, accumulated `{ast.unparse(acc[0].value) if acc else '?'}` of {tgt}"), node=loop if loop is not None else un)
        app = [a for a in app_all if enclosing(a, (ast.For,)) is loop]
        scfg = cfg_of(scope)
        sgv = GuardView(scfg)
        ctx.ob("C13-O1", "R30 ACCUMULATOR-PAIRING", k, "tree append and weight increment occur once per scan, in the same block", len(app) == 1 and len(acc) == 1 and _enclosing_block(scope, scfg.stmt_node_containing(app[0]).ast) is _enclosing_block(scope, acc[0]), "", node=app[0] if app else un)
        if app:
            at = sgv.guard_atoms(scfg.stmt_node_containing(app[0]), stable_only=False)
            ctx.ob("C13-O1", "R1 STATUS-GUARD", k, "an edge is accepted iff union(u, v) merged two components", f"T:uf.union({tgt[0]}, {tgt[1]})" in at, f"{sorted(at)}", node=app[0])
            ctx.ob("C13-O1", "R30 ACCUMULATOR-PAIRING", k, "the appended edge is the scanned edge with its weight", ast.unparse(app[0].args[0]) == f"({', '.join(tgt)})", "", node=app[0])
        if loop is not None:
            for b in [n for n in ast.walk(loop) if isinstance(n, ast.Break)]:
                at = sgv.guard_atoms(scfg.node_of(b))
                ctx.ob("C13-O1", "R2 early exit", k, "scan stops early only once n-1 edges are accepted", atom_of("len(mst_edges) == n_nodes - 1") in at, "", node=b)
    ctx.ob("C13-O1", "R30 ACCUMULATOR-PAIRING", k, "tree edges and weight are accumulated only inside the scan", len(app_all) == len(unions) and len(acc_all) == len(unions), f"{len(app_all)} append(s), {len(acc_all)} increment(s), {len(unions)} scan(s)", node=k.node)
    cfg = cfg_of(k.node)
    gv = GuardView(cfg)
    uf = [n for n in own_nodes(k.node) if isinstance(n, ast.Assign) and ast.unparse(n.value) == "UnionFind(n_nodes)"]
    ctx.ob("C13-O1", "R18 table", k, "union-find is sized by the node count", len(uf) == 1, "", node=k.node)
    for s in result_sites(k):
        at = gv.guard_atoms(s.node)
        short = atom_of("len(mst_edges) < n_nodes - 1")
        if "INFEASIBLE" in s.statuses:
            ctx.ob("C13-O1", "R1 STATUS-GUARD", k, "INFEASIBLE only when fewer than n-1 edges were accepted and forests are not allowed", short in at and "F:allow_forest" in at, f"{sorted(at)}", node=s.call)
        elif "FEASIBLE" in s.statuses:
            ctx.ob("C13-O1", "R1 STATUS-GUARD", k, "a spanning forest is labelled FEASIBLE, never OPTIMAL", short in at and "T:allow_forest" in at, "", node=s.call)
        else:
            ctx.ob("C13-O1", "R1 STATUS-GUARD", k, "OPTIMAL only with n-1 accepted edges", atom_of("len(mst_edges) >= n_nodes - 1") in at, f"{sorted(at)}", node=s.call)
        if ast.unparse(s.arg("solution")) != "None":
            ctx.ob("C13-O1", "R5 PAIRING", k, "published (edges, weight) are the accumulated pair", ast.unparse(s.arg("solution")) == "mst_edges" and ast.unparse(s.arg("objective")) == "total_weight", "", node=s.call)

    # the reported weight is the sum of the accepted edges' weights and nothing else: one zero initialisation, the
    # in-scan increments, no other write (rounding, rescaling, re-summing from another source)
    for fn_ in (k, ctx.func("mst", "prim")):
        ws = [n for n in ast.walk(fn_.node) if isinstance(n, (ast.Assign, ast.AugAssign, ast.AnnAssign)) and any(isinstance(x, ast.Name) and x.id == "total_weight" for t in (n.targets if isinstance(n, ast.Assign) else [n.target]) for x in ast.walk(t))]
        inits = [n for n in ws if isinstance(n, (ast.Assign, ast.AnnAssign)) and ast.unparse(n.value) in ("0.0", "0")]
        incs = [n for n in ws if isinstance(n, ast.AugAssign) and isinstance(n.op, ast.Add)]
        other = [n for n in ws if n not in inits and n not in incs]
        ctx.ob("C13-O1" if fn_ is k else "C13-O2", "R30 ACCUMULATOR-PAIRING", fn_, f"{fn_.name}: the total weight is written only by its zero initialisation and the per-edge increments", len(inits) == 1 and not other, f"`{ast.unparse(other[0])[:60] if other else ''}`: any other write makes the objective something else than the sum of the returned edges' weights (a rounded total is not the total for weights around 1e-10, and no longer agrees with the other algorithm)", node=other[0] if other else fn_.node)
    # O2 prim
    p = ctx.func("mst", "prim")
    cfg = cfg_of(p.node)
    gv = GuardView(cfg)
    pop = [n for n in own_nodes(p.node) if isinstance(n, ast.Assign) and isinstance(n.value, ast.Call) and ast.unparse(n.value.func) == "heappop"]
    ctx.require(len(pop) == 1 and isinstance(pop[0].targets[0], ast.Tuple), "prim heap pop not found")
    elts = [ast.unparse(e) for e in pop[0].targets[0].elts]
    ctx.ob("C13-O2", "R21 search discipline", p, "heap entries carry a tie-breaker between the weight and the node labels: (weight, counter, from, to)", len(elts) == 4, f"entries are {tuple(elts)}: on equal weights heapq compares the node labels themselves, which raises TypeError for labels without a common order (the property allows any hashable label)", node=pop[0])
    ctx.require(len(elts) == 4, "prim heap entries are not (weight, tiebreak, from, to): the remaining prim obligations cannot be read off")
    w, _, u, v = elts
    acc = [n for n in own_nodes(p.node) if isinstance(n, ast.AugAssign) and ast.unparse(n.target) == "total_weight"]
    app = [n for n in own_nodes(p.node) if isinstance(n, ast.Call) and ast.unparse(n.func) == "mst_edges.append"]
    add = [n for n in own_nodes(p.node) if isinstance(n, ast.Call) and ast.unparse(n.func) == "in_mst.add"]
    ok = len(acc) == 1 and len(app) == 1 and len(add) == 1 and ast.unparse(acc[0].value) == w and ast.unparse(app[0].args[0]) == f"({u}, {v}, {w})" and ast.unparse(add[0].args[0]) == v
    same = ok and _enclosing_block(p.node, acc[0]) is _enclosing_block(p.node, cfg.stmt_node_containing(app[0]).ast) is _enclosing_block(p.node, cfg.stmt_node_containing(add[0]).ast)
    ctx.ob("C13-O2", "R30 ACCUMULATOR-PAIRING", p, "the popped key's first component is the weight accumulated for the popped edge; node, edge and weight are added together (same block)", same, "a node that joins the tree in the main loop without its edge being recorded and weighed leaves fewer than n-1 edges and too small an objective behind an OPTIMAL status", node=pop[0])
    if add:
        at = gv.guard_atoms(cfg.stmt_node_containing(add[0]), stable_only=False)
        ctx.ob("C13-O2", "R21 search discipline", p, "a popped edge is used only if its far end is not yet in the tree", f"{v} not in in_mst" in at, f"{sorted(at)}", node=add[0])
    pushes = [n for n in own_nodes(p.node) if isinstance(n, ast.Call) and ast.unparse(n.func) == "heappush"]
    ctx.floor("prim heap pushes", len(pushes), 2)
    for ph in pushes:
        keyt = ph.args[1]
        pn = cfg.stmt_node_containing(ph)
        lp = pn.loop
        ok = lp is not None and lp.kind == "for" and isinstance(lp.ast.target, ast.Tuple)
        if ok:
            nb, ew = [ast.unparse(e) for e in lp.ast.target.elts]
            src = ast.unparse(lp.ast.iter)
            frm = ast.unparse(keyt.elts[2])
            ok = ast.unparse(keyt.elts[0]) == ew and ast.unparse(keyt.elts[3]) == nb and src == f"graph.get({frm}, [])"
        ctx.ob("C13-O2", "R21 search discipline", p, "pushed key = (edge weight, tiebreak, tree end, neighbour) for edges of the node just added", ok, ast.unparse(keyt), node=ph)
    for ph in pushes:
        tb = ast.unparse(ph.args[1].elts[1]) if isinstance(ph.args[1], ast.Tuple) and len(ph.args[1].elts) == 4 else "?"
        blk = _enclosing_block(p.node, cfg.stmt_node_containing(ph).ast)
        idx = next((i for i, st_ in enumerate(blk) if st_ is cfg.stmt_node_containing(ph).ast), None) if blk is not None else None
        nxt = blk[idx + 1 :] if idx is not None else []
        ctx.ob("C13-O2", "R16 PAIRED-EFFECTS", p, "the tie-breaker grows with every push (no two entries share it)", any(isinstance(x, ast.AugAssign) and ast.unparse(x.target) == tb and isinstance(x.op, ast.Add) for x in nxt), f"`{tb}` is not incremented after `{ast.unparse(ph)[:50]}`: entries of equal weight then fall through to comparing node labels", node=ph)
    inloop = [ph for ph in pushes if cfg.stmt_node_containing(ph).loop is not None and cfg.stmt_node_containing(ph).loop.loop is not None]
    for ph in inloop:
        pn = cfg.stmt_node_containing(ph)
        inside = {id(x) for x in ast.walk(pn.loop.ast)}
        at = set()
        for br in cfg.guards(pn):
            if br.test.kind == "test" and id(br.test.ast) in inside:
                at |= _atoms(br.test.ast, br.pol)
        nbv = ast.unparse(pn.loop.ast.target.elts[0]) if isinstance(pn.loop.ast.target, ast.Tuple) else "?"
        ctx.ob("C13-O2", "R21 search discipline", p, "an edge of the node just added is pushed unless its far end is already in the tree (and only then skipped)", at <= {f"{nbv} not in in_mst"}, f"pushes happen under {sorted(at)}: crossing edges that are never pushed can include the lightest one", node=ph)
    # the search starts from a node of the graph (the caller's, or the first key) and runs while the heap has entries
    from .sat_common import _need

    ctx.step(_need, "C13-O2", "R21 search discipline", p, "without a caller's start node the first key of the graph is taken; the tree starts as {start}", ["if start is None:\n        start = next(iter(graph.keys()))", "in_mst: set[Node] = {start}"])
    wl = [n for n in own_nodes(p.node) if isinstance(n, ast.While)]
    ctx.require(len(wl) == 1, "prim main loop not found")
    wat = _atoms(wl[0].test, True)
    ctx.ob("C13-O2", "R2 BUDGET-EXIT", p, "the main loop runs as long as the heap has entries (it may stop once every node is in the tree)", "T:heap" in wat and wat <= {"T:heap", atom_of("len(in_mst) < len(nodes)")}, f"loop test `{ast.unparse(wl[0].test)}`: a loop that gives up while crossing edges are waiting reports INFEASIBLE for a connected graph", node=wl[0])
    for s in result_sites(p):
        at = gv.guard_atoms(s.node)
        if "INFEASIBLE" in s.statuses:
            ctx.ob("C13-O2", "R1 STATUS-GUARD", p, "INFEASIBLE only when some node was not reached", atom_of("len(in_mst) < len(nodes)") in at, f"{sorted(at)}", node=s.call)
        elif ast.unparse(s.arg("solution")) == "mst_edges":
            ctx.ob("C13-O2", "R1 STATUS-GUARD", p, "tree published only when every node is in it", atom_of("len(in_mst) >= len(nodes)") in at and ast.unparse(s.arg("objective")) == "total_weight", f"{sorted(at)}", node=s.call)
    t = ast.unparse(p.node)
    ctx.ob("C13-O2", "R18 SIBLING-AGREEMENT (policy)", p, "node universe = keys of the graph plus every neighbour mentioned", "nodes = set(graph.keys())" in t and "nodes.add(neighbor)" in t, "", node=p.node)
    # O3 union contract (details in C20)
    un = ctx.func("utils.data_structures", "UnionFind.union")
    rets = [n for n in own_nodes(un.node) if isinstance(n, ast.Return)]
    vals = sorted(ast.unparse(r.value) for r in rets)
    ctx.ob("C13-O3", "R29 EXACTLY-ONCE", un, "union returns False without merging when the roots coincide, True after a merge", vals == ["False", "True"], f"{vals}", node=un.node)
    ucfg = cfg_of(un.node)
    ugv = GuardView(ucfg)
    for r in rets:
        at = ugv.guard_atoms(ucfg.node_of(r), stable_only=False)
        if ast.unparse(r.value) == "False":
            ctx.ob("C13-O3", "R29 EXACTLY-ONCE", un, "`return False` is reached exactly when the two roots coincide", atom_of("rx == ry") in at, f"{sorted(at)}: kruskal accepts an edge iff union() says it merged - a wrong verdict accepts a cycle edge or rejects a tree edge", node=r)
        else:
            ctx.ob("C13-O3", "R29 EXACTLY-ONCE", un, "`return True` is reached only for different roots", atom_of("rx != ry") in at, f"{sorted(at)}", node=r)
    # kruskal accepts an edge iff union() merged: find must return the true root and compress without splitting a tree
    from .c20 import field_writes

    find = ctx.func("utils.data_structures", "UnionFind.find")
    w = field_writes(find).get("_parent", [])
    fcfg = cfg_of(find.node)
    okf = len(w) == 1 and isinstance(w[0], ast.Assign) and ast.unparse(w[0]) == "self._parent[x] = self.find(self._parent[x])"
    if okf:
        okf = atom_of("self._parent[x] != x") in GuardView(fcfg).guard_atoms(fcfg.node_of(w[0]))
    rets = [ast.unparse(n.value) for n in own_nodes(find.node) if isinstance(n, ast.Return)]
    ctx.ob("C13-O3", "R27 WRITE-OWNERSHIP", find, "find's only write re-points x at the root returned by the recursive find; it returns that root", okf and rets == ["self._parent[x]"], "a compression step that re-points a non-root ancestor splits its subtree off: union() then merges 'different' components that are one, and kruskal accepts a cycle edge", node=find.node)
    ut = ast.unparse(un.node)
    ctx.ob("C13-O3", "R29 EXACTLY-ONCE", un, "union links one root under the other root (never a non-root element)", "rx, ry = (self.find(x), self.find(y))" in ut and "self._parent[ry] = rx" in ut and ut.count("self._parent[") == 1, "", node=un.node)
    generic_sweeps(ctx)


# ---------------------------------------------------------------------------------------------
from sa import mutate as M  # noqa: E402

MS = "solvor/mst.py"


def _v_sort_other_key(tree):
    g = M.find_func(tree, "kruskal")
    M.replace_expr(g, lambda e: isinstance(e, ast.Lambda), M.expr("lambda e: e[1]"))


def _v_sort_reverse(tree):
    g = M.find_func(tree, "kruskal")
    M.replace_expr(g, lambda e: isinstance(e, ast.Call) and M.src_has(e.func, "sorted"), lambda e: M.expr(ast.unparse(e)[:-1] + ", reverse=True)"))


SCAN_CLOSURE = """def by_weight(edge):
    return edge[2]
def scan(batch):
    nonlocal total_weight, iterations
    for u, v, w in batch:
        iterations += 1
        if uf.union(u, v):
            mst_edges.append((u, v, w))
            total_weight += w
            if len(mst_edges) == n_nodes - 1:
                return True
    return False
"""


def _scan_closure(tree, driver):
    g = M.find_func(tree, "kruskal")
    M.replace_stmt(g, lambda s: isinstance(s, ast.Assign) and M.src_has(s.value, "sorted(edges"), [])
    M.replace_stmt(g, lambda s: isinstance(s, ast.For) and M.src_is(s.iter, "sorted_edges"), M.stmts(SCAN_CLOSURE + driver))


def _v_partial_sort(tree):
    _scan_closure(tree, "n_light = 4 * n_nodes\nif len(edges) > 2 * n_light:\n    light = nsmallest(n_light, edges, key=by_weight)\n    if not scan(light):\n        heaviest = light[-1][2]\n        rest = [e for e in edges if e[2] > heaviest and not uf.connected(e[0], e[1])]\n        scan(sorted(rest, key=by_weight))\nelse:\n    scan(sorted(edges, key=by_weight))")


def _t_scan_closure(tree):
    """equally valid: the scan lives in a closure that receives the complete sorted list"""
    _scan_closure(tree, "scan(sorted(edges, key=by_weight))")


def _v_prim_sentinel(tree):
    g = M.find_func(tree, "prim")
    M.replace_stmt(g, lambda s: isinstance(s, ast.Expr) and M.src_is(s.value, "mst_edges.append((u, v, weight))"), M.stmts("if u is not None:\n    mst_edges.append((u, v, weight))\n    total_weight += weight"))
    M.replace_stmt(g, lambda s: M.src_is(s, "total_weight += weight"), [], count=1)


def _v_kruskal_init_deleted(tree):
    g = M.find_func(tree, "kruskal")
    M.replace_stmt(g, lambda s: M.src_is(s, "mst_edges = []"), [])


def _v_kruskal_final_return_deleted(tree):
    g = M.find_func(tree, "kruskal")
    last = g.body[-1]
    if not isinstance(last, ast.Return):
        raise M.Skip("kruskal does not end in a return")
    g.body = g.body[:-1] + [ast.Pass()]


def _v_kruskal_rounds_total(tree):
    g = M.find_func(tree, "kruskal")
    idx = [i for i, st_ in enumerate(g.body) if isinstance(st_, ast.If) and M.src_has(st_.test, "len(mst_edges) < n_nodes - 1")]
    if not idx:
        raise M.Skip("verdict block not found")
    g.body.insert(idx[0], M.stmts("total_weight = round(total_weight, 10)")[0])


def _v_prim_start_sentinel(tree):
    g = M.find_func(tree, "prim")
    tree.body.insert(tree.body.index(M.find_func(tree, "kruskal")), M.stmts("_UNSET = object()")[0])
    g.args.kw_defaults[0] = M.expr("_UNSET")
    M.replace_expr(g, lambda e: M.src_is(e, "start is None"), M.expr("start is _UNSET"))


def _v_prim_no_tiebreak(tree):
    g = M.find_func(tree, "prim")
    M.replace_expr(g, lambda e: isinstance(e, ast.Tuple) and len(e.elts) == 4 and M.src_is(e.elts[1], "counter"), lambda e: ast.Tuple(elts=[e.elts[0], e.elts[2], e.elts[3]], ctx=ast.Load()), count=2)
    M.replace_expr(g, lambda e: isinstance(e, ast.Tuple) and M.src_is(e, "(weight, _, u, v)"), M.expr("(weight, u, v)"))


def _v_validator_rejects_one(tree):
    g = M.find_func(tree, "check_positive")
    M.replace_expr(g, lambda e: M.src_is(e, "value <= 0"), M.expr("value <= 1"))


def _v_result_default_status(tree):
    cls = [n for n in tree.body if isinstance(n, ast.ClassDef) and n.name == "Result"][0]
    for n in cls.body:
        if isinstance(n, ast.AnnAssign) and M.src_is(n.target, "status"):
            n.value = M.expr("Status.FEASIBLE")


def _v_accept_all(tree):
    g = M.find_func(tree, "kruskal")
    M.replace_stmt(g, lambda s: isinstance(s, ast.If) and M.src_is(s.test, "uf.union(u, v)"), lambda s: [ast.Expr(value=M.expr("uf.union(u, v)"))] + s.body)


def _v_forest_optimal(tree):
    g = M.find_func(tree, "kruskal")
    M.replace_expr(g, lambda e: M.src_is(e, "Status.FEASIBLE"), M.expr("Status.OPTIMAL"))


def _v_prim_wrong_weight(tree):
    g = M.find_func(tree, "prim")
    M.replace_stmt(g, lambda s: M.src_is(s, "total_weight += weight"), M.stmts("total_weight += edge_weight if mst_edges else weight"))


def _v_prim_no_skip(tree):
    g = M.find_func(tree, "prim")
    M.replace_stmt(g, lambda s: isinstance(s, ast.If) and M.src_is(s.test, "v in in_mst"), [])


def _v_prim_key(tree):
    g = M.find_func(tree, "prim")
    M.replace_expr(g, lambda e: M.src_is(e, "(edge_weight, counter, v, neighbor)"), M.expr("(counter, edge_weight, v, neighbor)"))


def _t_reformat(tree):
    pass


def _v_find_halving(tree):
    g = M.find_func(tree, "UnionFind.find")
    g.body = M.stmts("while self._parent[x] != x:\n    x = self._parent[x] = self._parent[self._parent[x]]\nreturn x")


def _v_prim_drops_isolated_keys(tree):
    g = M.find_func(tree, "prim")
    k = 1 if isinstance(g.body[0], ast.Expr) and isinstance(g.body[0].value, ast.Constant) else 0
    g.body.insert(k, M.stmts("graph = {node: nb for node, nb in graph.items() if nb}")[0])


def _t_prim_copies_graph(tree):
    g = M.find_func(tree, "prim")
    k = 1 if isinstance(g.body[0], ast.Expr) and isinstance(g.body[0].value, ast.Constant) else 0
    g.body.insert(k, M.stmts("graph = dict(graph)")[0])


def _v_rank_bytes_union_by_size(tree):
    g = M.find_func(tree, "UnionFind.__init__")
    M.replace_stmt(g, lambda s: M.src_is(s, "self._rank = [0] * n"), M.stmts("self._rank = bytearray(n)"))
    u = M.find_func(tree, "UnionFind.union")
    M.replace_stmt(u, lambda s: isinstance(s, ast.If) and M.src_is(s.test, "self._rank[rx] == self._rank[ry]"), M.stmts("self._rank[rx] += self._rank[ry] + 1"))


VARIANTS = [
    M.Variant("ranks kept in a bytearray and grown by subtree size: union raises beyond 256 elements (seed C13-V)", "solvor/utils/data_structures.py", _v_rank_bytes_union_by_size, "C13-O3"),
    M.Variant("prim drops keys with an empty adjacency before anything else (seed C13-O)", MS, _v_prim_drops_isolated_keys, "C13-G15"),
    M.Variant("twin: prim works on a dict() copy of the graph", MS, _t_prim_copies_graph, None),

    M.Variant("find rewritten with a broken path-halving chain assignment (seed C13-A)", "solvor/utils/data_structures.py", _v_find_halving, "C13-O3"),

    M.Variant("kruskal sorts by an endpoint", MS, _v_sort_other_key, "C13-O1"),
    M.Variant("kruskal sorts descending", MS, _v_sort_reverse, "C13-O1"),
    M.Variant("kruskal accepts edges regardless of union()", MS, _v_accept_all, "C13-O1"),
    M.Variant("kruskal labels a forest OPTIMAL", MS, _v_forest_optimal, "C13-O1"),
    M.Variant("prim accumulates a different weight than it records", MS, _v_prim_wrong_weight, "C13-O2"),
    M.Variant("prim re-adds nodes already in the tree", MS, _v_prim_no_skip, "C13-O2"),
    M.Variant("prim heap ordered by insertion counter", MS, _v_prim_key, "C13-O2"),
    M.Variant("kruskal sorts only the lightest edges first and drops ties at the cut (seed C13-C)", MS, _v_partial_sort, "C13-O1"),
    M.Variant("prim records an edge only when its tail is not the None sentinel (seed C13-D)", MS, _v_prim_sentinel, "C13-O2"),
    M.Variant("twin: kruskal scan moved into a closure over the complete sorted list", MS, _t_scan_closure, None),
    M.Variant("kruskal's tree list is never initialised", MS, _v_kruskal_init_deleted, "C13-G5"),
    M.Variant("kruskal's final return is missing", MS, _v_kruskal_final_return_deleted, "C13-G6"),
    M.Variant("prim drops the tie-breaking counter from its heap entries (seed C13-H)", MS, _v_prim_no_tiebreak, "C13-O2"),
    M.Variant("prim's `start` defaults to a private sentinel, so an explicit None becomes a node label (seed C13-J)", MS, _v_prim_start_sentinel, "C13-G9"),
    M.Variant("kruskal rounds the total weight to 10 digits before reporting it (seed C13-M)", MS, _v_kruskal_rounds_total, "C13-O1"),
    M.Variant("check_positive rejects the value 1", "solvor/utils/validate.py", _v_validator_rejects_one, "C13-G7"),
    M.Variant("Result defaults to FEASIBLE", "solvor/types.py", _v_result_default_status, "C13-G7"),
    M.Variant("twin: reformat", MS, _t_reformat, None),
]
