"""C13 - kruskal / prim (structural part): solvor/mst.py."""

from __future__ import annotations

import ast

from sa.cfg import cfg_of
from sa.facts import result_sites
from sa.guards import GuardView, atom_of, names_in
from sa.index import own_nodes
from sa.report import Ctx

from .common import generic_sweeps

from .sat_common import _enclosing_block

EXPLANATION = (
    "Decides the structural skeleton of both MST routines: (O1) Kruskal - edges are visited in non-decreasing order of "
    "the very tuple component that is accumulated as weight, an edge is accepted iff union(u, v) is truthy, the "
    "append to the tree and the weight increment happen in the same block and nowhere else, INFEASIBLE only under "
    "'fewer than n-1 edges and forests not allowed', a forest is labelled FEASIBLE; (O2) Prim - the heap key's first "
    "component is the edge weight that is accumulated, pop -> skip if already in the tree -> add, pushes only for "
    "neighbours outside the tree, append/accumulate pairing, INFEASIBLE only when some node was not reached, the node "
    "universe includes neighbours that are not keys; (O3) the union contract kruskal relies on (shared with C20). NOT "
    "decided: minimality over all spanning trees."
)


def run(ctx: Ctx):
    k = ctx.func("mst", "kruskal")
    cfg = cfg_of(k.node)
    gv = GuardView(cfg)
    srt = [n for n in own_nodes(k.node) if isinstance(n, ast.Assign) and isinstance(n.value, ast.Call) and ast.unparse(n.value.func) == "sorted"]
    ctx.require(len(srt) == 1, "sorted edge list not found in kruskal")
    sname = ast.unparse(srt[0].targets[0])
    key = next((kw.value for kw in srt[0].value.keywords if kw.arg == "key"), None)
    rev = any(kw.arg == "reverse" for kw in srt[0].value.keywords)
    loop = [n for n in own_nodes(k.node) if isinstance(n, ast.For) and ast.unparse(n.iter) == sname]
    ctx.require(len(loop) == 1, "kruskal main loop over the sorted edges not found")
    tgt = [ast.unparse(e) for e in loop[0].target.elts]
    kidx = None
    if isinstance(key, ast.Lambda) and isinstance(key.body, ast.Subscript) and isinstance(key.body.slice, ast.Constant):
        kidx = key.body.slice.value
    acc = [n for n in ast.walk(loop[0]) if isinstance(n, ast.AugAssign) and isinstance(n.op, ast.Add) and ast.unparse(n.target) == "total_weight"]
    ok = kidx is not None and not rev and len(acc) == 1 and ast.unparse(acc[0].value) == tgt[kidx] and ast.unparse(srt[0].value.args[0]) == "edges"
    ctx.ob("C13-O1", "R30 ACCUMULATOR-PAIRING", k, "edges are scanned in non-decreasing order of the component that is accumulated as weight", ok, f"sort key index {kidx}, reverse={rev}, accumulated `{ast.unparse(acc[0].value) if acc else '?'}` of {tgt}", node=srt[0])
    app = [n for n in own_nodes(k.node) if isinstance(n, ast.Call) and ast.unparse(n.func) == "mst_edges.append"]
    ctx.ob("C13-O1", "R30 ACCUMULATOR-PAIRING", k, "tree append and weight increment occur once, in the same block", len(app) == 1 and len(acc) == 1 and _enclosing_block(k.node, cfg.stmt_node_containing(app[0]).ast) is _enclosing_block(k.node, acc[0]), "", node=app[0] if app else k.node)
    if app:
        at = gv.guard_atoms(cfg.stmt_node_containing(app[0]), stable_only=False)
        ctx.ob("C13-O1", "R1 STATUS-GUARD", k, "an edge is accepted iff union(u, v) merged two components", f"T:uf.union({tgt[0]}, {tgt[1]})" in at, f"{sorted(at)}", node=app[0])
        ctx.ob("C13-O1", "R30 ACCUMULATOR-PAIRING", k, "the appended edge is the scanned edge with its weight", ast.unparse(app[0].args[0]) == f"({', '.join(tgt)})", "", node=app[0])
    uf = [n for n in own_nodes(k.node) if isinstance(n, ast.Assign) and ast.unparse(n.value) == "UnionFind(n_nodes)"]
    ctx.ob("C13-O1", "R18 table", k, "union-find is sized by the node count", len(uf) == 1, "", node=k.node)
    for s in result_sites(k):
        at = gv.guard_atoms(s.node)
        short = atom_of("len(mst_edges) < n_nodes - 1")
        if "INFEASIBLE" in s.statuses:
            ctx.ob("C13-O1", "R1 STATUS-GUARD", k, "INFEASIBLE only when fewer than n-1 edges were accepted and forests are not allowed", short in at and "F:allow_forest" in at, f"{sorted(at)}", node=s.call)
        elif "FEASIBLE" in s.statuses:
            ctx.ob("C13-O1", "R1 STATUS-GUARD", k, "a spanning forest is labelled FEASIBLE, never OPTIMAL", short in at and "T:allow_forest" in at, "", node=s.call)
        else:
            ctx.ob("C13-O1", "R1 STATUS-GUARD", k, "OPTIMAL only with n-1 accepted edges", atom_of("len(mst_edges) >= n_nodes - 1") in at, f"{sorted(at)}", node=s.call)
        if ast.unparse(s.arg("solution")) != "None":
            ctx.ob("C13-O1", "R5 PAIRING", k, "published (edges, weight) are the accumulated pair", ast.unparse(s.arg("solution")) == "mst_edges" and ast.unparse(s.arg("objective")) == "total_weight", "", node=s.call)
    brk = [n for n in ast.walk(loop[0]) if isinstance(n, ast.Break)]
    for b in brk:
        at = gv.guard_atoms(cfg.node_of(b))
        ctx.ob("C13-O1", "R2 early exit", k, "scan stops early only once n-1 edges are accepted", atom_of("len(mst_edges) == n_nodes - 1") in at, "", node=b)

    # O2 prim
    p = ctx.func("mst", "prim")
    cfg = cfg_of(p.node)
    gv = GuardView(cfg)
    pop = [n for n in own_nodes(p.node) if isinstance(n, ast.Assign) and isinstance(n.value, ast.Call) and ast.unparse(n.value.func) == "heappop"]
    ctx.require(len(pop) == 1 and isinstance(pop[0].targets[0], ast.Tuple), "prim heap pop not found")
    w, _, u, v = [ast.unparse(e) for e in pop[0].targets[0].elts]
    acc = [n for n in own_nodes(p.node) if isinstance(n, ast.AugAssign) and ast.unparse(n.target) == "total_weight"]
    app = [n for n in own_nodes(p.node) if isinstance(n, ast.Call) and ast.unparse(n.func) == "mst_edges.append"]
    add = [n for n in own_nodes(p.node) if isinstance(n, ast.Call) and ast.unparse(n.func) == "in_mst.add"]
    ok = len(acc) == 1 and len(app) == 1 and len(add) == 1 and ast.unparse(acc[0].value) == w and ast.unparse(app[0].args[0]) == f"({u}, {v}, {w})" and ast.unparse(add[0].args[0]) == v
    ctx.ob("C13-O2", "R30 ACCUMULATOR-PAIRING", p, "the popped key's first component is the weight accumulated for the popped edge; node, edge and weight are added together", ok and _enclosing_block(p.node, acc[0]) is _enclosing_block(p.node, cfg.stmt_node_containing(app[0]).ast), "", node=pop[0])
    if add:
        at = gv.guard_atoms(cfg.stmt_node_containing(add[0]), stable_only=False)
        ctx.ob("C13-O2", "R21 search discipline", p, "a popped edge is used only if its far end is not yet in the tree", f"{v} not in in_mst" in at, f"{sorted(at)}", node=add[0])
    pushes = [n for n in own_nodes(p.node) if isinstance(n, ast.Call) and ast.unparse(n.func) == "heappush"]
    ctx.floor("prim heap pushes", len(pushes), 2)
    for ph in pushes:
        keyt = ph.args[1]
        pn = cfg.stmt_node_containing(ph)
        lp = pn.loop
        ok = lp is not None and lp.kind == "for" and isinstance(lp.ast.target, ast.Tuple)
        if ok:
            nb, ew = [ast.unparse(e) for e in lp.ast.target.elts]
            src = ast.unparse(lp.ast.iter)
            frm = ast.unparse(keyt.elts[2])
            ok = ast.unparse(keyt.elts[0]) == ew and ast.unparse(keyt.elts[3]) == nb and src == f"graph.get({frm}, [])"
        ctx.ob("C13-O2", "R21 search discipline", p, "pushed key = (edge weight, tiebreak, tree end, neighbour) for edges of the node just added", ok, ast.unparse(keyt), node=ph)
    inloop = [ph for ph in pushes if cfg.stmt_node_containing(ph).loop is not None and cfg.stmt_node_containing(ph).loop.loop is not None]
    for ph in inloop:
        at = gv.guard_atoms(cfg.stmt_node_containing(ph), stable_only=False)
        ctx.ob("C13-O2", "R21 search discipline", p, "edges are pushed only towards nodes outside the tree", any(a.endswith("not in in_mst") for a in at), "", node=ph)
    for s in result_sites(p):
        at = gv.guard_atoms(s.node)
        if "INFEASIBLE" in s.statuses:
            ctx.ob("C13-O2", "R1 STATUS-GUARD", p, "INFEASIBLE only when some node was not reached", atom_of("len(in_mst) < len(nodes)") in at, f"{sorted(at)}", node=s.call)
        elif ast.unparse(s.arg("solution")) == "mst_edges":
            ctx.ob("C13-O2", "R1 STATUS-GUARD", p, "tree published only when every node is in it", atom_of("len(in_mst) >= len(nodes)") in at and ast.unparse(s.arg("objective")) == "total_weight", f"{sorted(at)}", node=s.call)
    t = ast.unparse(p.node)
    ctx.ob("C13-O2", "R18 SIBLING-AGREEMENT (policy)", p, "node universe = keys of the graph plus every neighbour mentioned", "nodes = set(graph.keys())" in t and "nodes.add(neighbor)" in t, "", node=p.node)
    # O3 union contract (details in C20)
    un = ctx.func("utils.data_structures", "UnionFind.union")
    rets = [n for n in own_nodes(un.node) if isinstance(n, ast.Return)]
    vals = sorted(ast.unparse(r.value) for r in rets)
    ctx.ob("C13-O3", "R29 EXACTLY-ONCE", un, "union returns False without merging when the roots coincide, True after a merge", vals == ["False", "True"], f"{vals}", node=un.node)
    # kruskal accepts an edge iff union() merged: find must return the true root and compress without splitting a tree
    from .c20 import field_writes

    find = ctx.func("utils.data_structures", "UnionFind.find")
    w = field_writes(find).get("_parent", [])
    fcfg = cfg_of(find.node)
    okf = len(w) == 1 and isinstance(w[0], ast.Assign) and ast.unparse(w[0]) == "self._parent[x] = self.find(self._parent[x])"
    if okf:
        okf = atom_of("self._parent[x] != x") in GuardView(fcfg).guard_atoms(fcfg.node_of(w[0]))
    rets = [ast.unparse(n.value) for n in own_nodes(find.node) if isinstance(n, ast.Return)]
    ctx.ob("C13-O3", "R27 WRITE-OWNERSHIP", find, "find's only write re-points x at the root returned by the recursive find; it returns that root", okf and rets == ["self._parent[x]"], "a compression step that re-points a non-root ancestor splits its subtree off: union() then merges 'different' components that are one, and kruskal accepts a cycle edge", node=find.node)
    ut = ast.unparse(un.node)
    ctx.ob("C13-O3", "R29 EXACTLY-ONCE", un, "union links one root under the other root (never a non-root element)", "rx, ry = (self.find(x), self.find(y))" in ut and "self._parent[ry] = rx" in ut and ut.count("self._parent[") == 1, "", node=un.node)
    generic_sweeps(ctx)


# ---------------------------------------------------------------------------------------------
from sa import mutate as M  # noqa: E402

MS = "solvor/mst.py"


def _v_sort_other_key(tree):
    g = M.find_func(tree, "kruskal")
    M.replace_expr(g, lambda e: isinstance(e, ast.Lambda), M.expr("lambda e: e[1]"))


def _v_sort_reverse(tree):
    g = M.find_func(tree, "kruskal")
    M.replace_expr(g, lambda e: isinstance(e, ast.Call) and M.src_has(e.func, "sorted"), lambda e: M.expr(ast.unparse(e)[:-1] + ", reverse=True)"))


def _v_accept_all(tree):
    g = M.find_func(tree, "kruskal")
    M.replace_stmt(g, lambda s: isinstance(s, ast.If) and M.src_is(s.test, "uf.union(u, v)"), lambda s: [ast.Expr(value=M.expr("uf.union(u, v)"))] + s.body)


def _v_forest_optimal(tree):
    g = M.find_func(tree, "kruskal")
    M.replace_expr(g, lambda e: M.src_is(e, "Status.FEASIBLE"), M.expr("Status.OPTIMAL"))


def _v_prim_wrong_weight(tree):
    g = M.find_func(tree, "prim")
    M.replace_stmt(g, lambda s: M.src_is(s, "total_weight += weight"), M.stmts("total_weight += edge_weight if mst_edges else weight"))


def _v_prim_no_skip(tree):
    g = M.find_func(tree, "prim")
    M.replace_stmt(g, lambda s: isinstance(s, ast.If) and M.src_is(s.test, "v in in_mst"), [])


def _v_prim_key(tree):
    g = M.find_func(tree, "prim")
    M.replace_expr(g, lambda e: M.src_is(e, "(edge_weight, counter, v, neighbor)"), M.expr("(counter, edge_weight, v, neighbor)"))


def _t_reformat(tree):
    pass


def _v_find_halving(tree):
    g = M.find_func(tree, "UnionFind.find")
    g.body = M.stmts("while self._parent[x] != x:\n    x = self._parent[x] = self._parent[self._parent[x]]\nreturn x")


VARIANTS = [
    M.Variant("find rewritten with a broken path-halving chain assignment (seed C13-A)", "solvor/utils/data_structures.py", _v_find_halving, "C13-O3"),

    M.Variant("kruskal sorts by an endpoint", MS, _v_sort_other_key, "C13-O1"),
    M.Variant("kruskal sorts descending", MS, _v_sort_reverse, "C13-O1"),
    M.Variant("kruskal accepts edges regardless of union()", MS, _v_accept_all, "C13-O1"),
    M.Variant("kruskal labels a forest OPTIMAL", MS, _v_forest_optimal, "C13-O1"),
    M.Variant("prim accumulates a different weight than it records", MS, _v_prim_wrong_weight, "C13-O2"),
    M.Variant("prim re-adds nodes already in the tree", MS, _v_prim_no_skip, "C13-O2"),
    M.Variant("prim heap ordered by insertion counter", MS, _v_prim_key, "C13-O2"),
    M.Variant("twin: reformat", MS, _t_reformat, None),
]
