"""Generic sweeps every property runs over its anchor files: R31 (no possibly-undefined local), R22 (no stutter
path in a `while` loop) and R33 (no state kept from one call to the next: every property is quantified over all
inputs *and histories*, so a result must be a function of the arguments).  All have expected count zero on a healthy
tree; their positive examples are the self-test variants of C18/C19 (R31), C02 (R22), C10/C12 (R33), C11 (R36) and
C13 (R37 undefined name, R38 implicit None return) and C10 (R40 argument selection)."""

from __future__ import annotations

import ast
import json
import os

from sa.cfg import cfg_of
from sa.facts import result_sites
from sa.guards import GuardView
from sa.index import AnalysisError, own_nodes
from sa.report import Ctx
from sa.stutter import flag_loops_without_exit, stutter_paths
from sa.undefined import collection_params_rebound, implicit_none_paths, iterables_consumed_twice, optional_truthiness, possibly_undefined, stride_conflicts, undefined_names, uninitialised_fields

HERE = os.path.dirname(os.path.dirname(os.path.abspath(__file__)))

# reads outside every property's quantifier: reported as NOTE, with the reason
R31_NOTES: dict = {}  # (the one former entry, pagerank's `max_diff` for max_iter=0, was repaired: ledger row 63)


def anchor_modules(ctx: Ctx) -> list:
    files = []
    with open(os.path.join(HERE, "properties.jsonl"), encoding="utf-8") as fh:
        for line in fh:
            p = json.loads(line)
            if p["id"] == ctx.prop:
                files = [f for f in p["anchors"]["files"] if f.endswith(".py")]
    mods = []
    for m in ctx.repo.modules.values():
        if m.rel in files:
            mods.append(m)
    return sorted(mods, key=lambda m: m.rel)


# module-level state that is read across calls on purpose (one line of reason each)
R33_ALLOWED = {
    ("solvor/rust/__init__.py", "_rust_available"): "one-time detection of the compiled extension; does not depend on any solver argument",
    ("solvor/rust/__init__.py", "_adapters"): "adapter registry filled by decorators while the package is imported; no solver call writes it",
    ("solvor/rust/__init__.py", "_warned"): "warn-once flag for the fallback message; does not influence results",
}
MUTATORS = ("append", "add", "update", "pop", "popitem", "remove", "discard", "clear", "extend", "insert", "setdefault", "appendleft", "popleft", "sort", "reverse")
CACHE_DECORATORS = ("lru_cache", "cache", "cached_property", "functools.lru_cache", "functools.cache")


def cross_call_state(m) -> list[tuple]:
    """R33: constructs through which one call of a function of module `m` can influence a later call:
    `global` rebinding, mutation of a module-level object, a caching decorator, a mutated mutable default."""
    out = []
    top = set()
    for n in m.tree.body:
        if isinstance(n, (ast.Assign, ast.AnnAssign)):
            for t in n.targets if isinstance(n, ast.Assign) else [n.target]:
                for e in ast.walk(t):
                    if isinstance(e, ast.Name):
                        top.add(e.id)
    # a module-level object with a mutable payload that functions hand out (a prebuilt Result, a shared list): every
    # caller receives the same object, and what one of them does to it is what the next one gets
    shared = {}
    for n in m.tree.body:
        if isinstance(n, (ast.Assign, ast.AnnAssign)) and n.value is not None:
            v = n.value
            mutable = isinstance(v, (ast.List, ast.Dict, ast.Set, ast.ListComp, ast.DictComp, ast.SetComp)) or (isinstance(v, ast.Call) and any(isinstance(x, (ast.List, ast.Dict, ast.Set, ast.ListComp, ast.DictComp, ast.SetComp)) for a_ in list(v.args) + [k.value for k in v.keywords] for x in ast.walk(a_)))
            if mutable:
                for t in n.targets if isinstance(n, ast.Assign) else [n.target]:
                    if isinstance(t, ast.Name) and t.id != "__all__":
                        shared[t.id] = n
    for q in sorted(m.funcs):
        f = m.funcs[q]
        if shared:
            loc = {x.id for x in ast.walk(f.node) if isinstance(x, ast.Name) and isinstance(x.ctx, ast.Store)} | set(f.params)
            for r_ in f.own_nodes():
                if isinstance(r_, ast.Return) and r_.value is not None:
                    for x in ([r_.value.body, r_.value.orelse] if isinstance(r_.value, ast.IfExp) else [r_.value]):
                        if isinstance(x, ast.Name) and x.id in shared and x.id not in loc:
                            out.append((f, r_, x.id, f"`{ast.unparse(r_)[:50]}` hands out the module-level object `{x.id}` (`{ast.unparse(shared[x.id])[:50]}`), whose mutable payload is then shared by every caller"))
        # a closure that writes a `nonlocal` of its factory and is handed out by the factory keeps that value from one of
        # its calls to the next: an object built once (a cooling schedule, a neighbourhood) and passed to two solver runs
        # makes the second run start where the first one ended
        if f.parent is not None:
            nl = {nm for x in f.own_nodes() if isinstance(x, ast.Nonlocal) for nm in x.names}
            if nl and any(isinstance(x, ast.Return) and isinstance(x.value, ast.Name) and x.value.id == f.name for x in f.parent.own_nodes()):
                wr = [x for x in f.own_nodes() if isinstance(x, (ast.Assign, ast.AugAssign)) and any(isinstance(t, ast.Name) and t.id in nl for t in (x.targets if isinstance(x, ast.Assign) else [x.target]))]
                if wr:
                    out.append((f, wr[0], sorted(nl)[0], f"`{f.parent.name}` returns the closure `{f.name}`, which rebinds `{sorted(nl)[0]}` of the factory's frame: the returned object carries state from call to call"))
        for d in f.node.decorator_list:
            dn = ast.unparse(d.func if isinstance(d, ast.Call) else d)
            if dn in CACHE_DECORATORS:
                out.append((f, d, dn, f"`@{dn}` keeps the returned object alive across calls: a caller that writes into it changes what the next call receives"))
        bound = set(f.params) | {x.id for x in ast.walk(f.node) if isinstance(x, ast.Name) and isinstance(x.ctx, ast.Store)}
        g = f.parent
        while g is not None:
            bound |= set(g.params) | {x.id for x in ast.walk(g.node) if isinstance(x, ast.Name) and isinstance(x.ctx, ast.Store)}
            g = g.parent
        defaults = {}
        a = f.node.args
        pos = a.posonlyargs + a.args
        for arg, dv in list(zip(pos[len(pos) - len(a.defaults):], a.defaults)) + [(x, y) for x, y in zip(a.kwonlyargs, a.kw_defaults) if y is not None]:
            if isinstance(dv, (ast.List, ast.Dict, ast.Set)) or (isinstance(dv, ast.Call) and ast.unparse(dv.func) in ("list", "dict", "set", "defaultdict")):
                defaults[arg.arg] = dv
        declared = set()
        for n in f.own_nodes():
            if isinstance(n, ast.Global):
                for nm in n.names:
                    declared.add(nm)
                    out.append((f, n, nm, f"`global {nm}`: the function rebinds module state that a later call reads"))

        def base(e):
            while isinstance(e, (ast.Subscript, ast.Attribute)):
                e = e.value
            return e.id if isinstance(e, ast.Name) else None

        for n in f.own_nodes():
            tgt = None
            if isinstance(n, (ast.Assign, ast.AugAssign, ast.AnnAssign)):
                for t in n.targets if isinstance(n, ast.Assign) else [n.target]:
                    for e in t.elts if isinstance(t, ast.Tuple) else [t]:
                        if isinstance(e, (ast.Subscript, ast.Attribute)):
                            tgt = base(e)
            elif isinstance(n, ast.Call) and isinstance(n.func, ast.Attribute) and n.func.attr in MUTATORS:
                tgt = base(n.func.value)
            if tgt is None:
                continue
            if tgt in top and tgt not in bound:
                out.append((f, n, tgt, f"`{ast.unparse(n)[:50]}` writes into the module-level object `{tgt}`"))
            elif tgt in defaults and not any(isinstance(x, ast.Name) and x.id == tgt and isinstance(x.ctx, ast.Store) for x in ast.walk(f.node)):
                out.append((f, n, tgt, f"`{ast.unparse(n)[:50]}` writes into the mutable default of `{tgt}`, which is shared by all calls"))
    return out


OPPOSITES = [
    ({"row", "rows", "height"}, {"col", "cols", "column", "columns", "width"}),
    ({"lower", "lo", "lb"}, {"upper", "hi", "ub"}),
    ({"source", "src", "start", "tail"}, {"sink", "target", "dst", "end", "head", "goal"}),
    ({"left"}, {"right"}),
    ({"first"}, {"second"}),
    ({"min"}, {"max"}),
    ({"minimize"}, {"maximize"}),
]


def _opposite(arg_name: str, param_name: str) -> bool:
    import re

    ta = {t for t in re.split(r"[_\d]+", arg_name.lower()) if t}
    tp = {t for t in re.split(r"[_\d]+", param_name.lower()) if t}
    for x, y in OPPOSITES:
        if (ta & x and tp & y and not (ta & y or tp & x)) or (ta & y and tp & x and not (ta & x or tp & y)):
            return True
    return False


def infrastructure(ctx: Ctx, oid: str):
    """The shared result type every obligation about verdicts reads through: field order and defaults of `Result`
    (publication sites are resolved positionally), the meaning of `ok`, the members of `Status`, and the contract of
    `report_progress` (a stop is requested only by an explicit True at a reporting interval)."""
    m = ctx.repo.module("types")
    rc = m.classes.get("Result")
    st = m.classes.get("Status")
    ctx.require(rc is not None and st is not None, "solvor/types.py no longer defines Result and Status")
    fields = [(ast.unparse(n.target), ast.unparse(n.value) if n.value is not None else None) for n in rc.body if isinstance(n, ast.AnnAssign)]
    want = [("solution", None), ("objective", None), ("iterations", "0"), ("evaluations", "0"), ("status", "Status.OPTIMAL"), ("error", "None"), ("solutions", "None")]
    ctx.ob(oid, "R18 table", None, "Result(solution, objective, iterations=0, evaluations=0, status=Status.OPTIMAL, error=None, solutions=None): field order and defaults", fields == want, f"{fields}: every solver builds its results positionally, and a result without an explicit status is read as OPTIMAL", rel=m.rel, fname="Result", node=rc)
    # Result stores what the solver hands it: a frozen dataclass without hooks.  Every property is stated about the
    # fields of the Result; a hook that tidies, rounds or re-labels them changes the answer of every solver at once
    methods = sorted(n.name for n in rc.body if isinstance(n, (ast.FunctionDef, ast.AsyncFunctionDef)))
    # methods that run when a Result is built or a field is read or written (a new convenience method does neither)
    hooks = [x for x in methods if x in ("__post_init__", "__init__", "__new__", "__setattr__", "__getattribute__", "__getattr__", "__delattr__", "__init_subclass__", "__set_name__", "__get__", "__set__", "__class_getitem__", "__reduce__", "__copy__", "__deepcopy__", "__eq__", "__hash__")]
    deco = [ast.unparse(d) for d in rc.decorator_list]
    frozen = any(d.startswith("dataclass(") and "frozen=True" in d for d in deco)
    forced = [n for n in ast.walk(m.tree) if isinstance(n, ast.Call) and ast.unparse(n.func) in ("object.__setattr__", "setattr", "super().__setattr__")]
    fnames = {f_[0] for f_ in fields}
    shadow = [n.name for n in rc.body if isinstance(n, ast.FunctionDef) and n.name in fnames]
    ctx.ob(oid, "R28 WRITER-DISCIPLINE", None, "Result is a frozen dataclass with no initialisation hook: its fields hold exactly what the solver passed", frozen and not hooks and not forced and not shadow, f"decorators {deco}, hooks {hooks}, forced writes {[ast.unparse(x)[:40] for x in forced[:2]]}: a `__post_init__` that rounds an objective, strips 'noise' from a solution or re-labels an 'empty' answer rewrites what every solver reports - the objective is no longer the value of the returned solution, labels are no longer the caller's, an empty cover is no longer OPTIMAL", rel=m.rel, fname="Result", node=rc)
    members = [ast.unparse(n.targets[0]) for n in st.body if isinstance(n, ast.Assign)]
    ctx.ob(oid, "R18 table", None, "Status has the members OPTIMAL, FEASIBLE, INFEASIBLE, UNBOUNDED, MAX_ITER", members == ["OPTIMAL", "FEASIBLE", "INFEASIBLE", "UNBOUNDED", "MAX_ITER"], f"{members}", rel=m.rel, fname="Status", node=st)
    okp = m.funcs.get("Result.ok")
    ctx.ob(oid, "R18 table", okp, "Result.ok is true exactly for OPTIMAL and FEASIBLE", okp is not None and "return self.status in (Status.OPTIMAL, Status.FEASIBLE)" in ast.unparse(okp.node), "", node=okp.node if okp else rc, rel=m.rel, fname="Result.ok")
    h = ctx.repo.module("utils.helpers")
    rp = h.funcs.get("report_progress")
    ctx.require(rp is not None, "report_progress vanished from solvor/utils/helpers.py")
    t = ast.unparse(rp.node)
    ctx.ob(oid, "R18 table", rp, "report_progress calls the callback only at a reporting interval and asks for a stop only when it returned True", "if not (on_progress and progress_interval > 0 and (iteration % progress_interval == 0)):\n        return False" in t and "return on_progress(progress) is True" in t and "progress = Progress(iteration, current_obj, best_obj if best_obj != current_obj else None, evals)" in t, "", node=rp.node)
    # the back-end dispatch hands the caller's arguments on as they are: the same call must mean the same problem for
    # the kernel and for the Python body, and what is redundant for one routine (a repeated edge for a shortest path)
    # is data for another (a link listed twice counts twice in PageRank)
    if ctx.repo.has_func("rust", "with_rust_backend.wrapper"):
        w = ctx.repo.func("rust", "with_rust_backend.wrapper")
        edits = []
        for n in own_nodes(w.node):
            if isinstance(n, (ast.Assign, ast.AugAssign, ast.AnnAssign, ast.Delete)):
                tg = n.targets if isinstance(n, (ast.Assign, ast.Delete)) else [n.target]
                for t_ in tg:
                    for e in t_.elts if isinstance(t_, ast.Tuple) else [t_]:
                        b_ = e
                        while isinstance(b_, (ast.Subscript, ast.Attribute, ast.Starred)):
                            b_ = b_.value
                        if isinstance(b_, ast.Name) and b_.id in ("args", "kwargs"):
                            edits.append(n)
            if isinstance(n, ast.Call) and isinstance(n.func, ast.Attribute) and isinstance(n.func.value, ast.Name) and n.func.value.id in ("args", "kwargs") and n.func.attr in ("pop", "update", "setdefault", "clear", "popitem", "__setitem__", "__delitem__"):
                edits.append(n)
        ctx.ob(oid, "R17 PARAM-IMMUTABLE", w, "the back-end dispatch wrapper hands the caller's positional and keyword arguments on unchanged (only `backend` is its own)", not edits, f"`{ast.unparse(edits[0])[:70]}`: arguments normalised in the wrapper change the problem for every decorated routine at once - dropping a repeated edge is harmless for shortest paths and wrong for pagerank_edges, where a link listed twice counts twice" if edits else "", node=edits[0] if edits else w.node)


VALIDATORS = {
    # validator: the tests under which it rejects (a valid input must pass, an invalid one must be stopped)
    "check_matrix_dims": ["if not A:\n        raise ValueError", "n = len(c)\n    m = len(b)", "if len(A) != m:\n        raise ValueError", "for i, row in enumerate(A):\n        if len(row) != n:\n            raise ValueError"],
    "check_sequence_lengths": ["if not seqs:\n        return 0", "if expected is None:\n        expected = len(seqs[0][0])", "for seq, name in seqs:\n        if len(seq) != expected:\n            raise ValueError", "return expected"],
    "check_bounds": ["for i, (lo, hi) in enumerate(bounds):\n        if lo > hi:\n            raise ValueError", "return n"],
    "check_positive": ["if value <= 0:\n        raise ValueError"],
    "check_non_negative": ["if value < 0:\n        raise ValueError"],
    "check_in_range": ["if inclusive:\n        if not low <= value <= high:\n            raise ValueError", "elif not low < value < high:\n        raise ValueError"],
    "check_graph_nodes": ["for node, name in nodes:\n        if node not in graph:\n            raise ValueError"],
    "check_integers_valid": ["if not isinstance(idx, int):\n            raise TypeError", "if idx < 0 or idx >= n_vars:\n            raise ValueError", "if idx in seen:\n            raise ValueError", "seen.add(idx)"],
    "warn_large_coefficients": ["max_val = 0.0\n    for row in A:\n        for val in row:\n            abs_val = abs(val)\n            if abs_val > max_val:\n                max_val = abs_val", "if max_val > threshold:\n        warn("],
    "check_edge_nodes": ["for i, (u, v, _) in enumerate(edges):\n        if u < 0 or u >= n_nodes:\n            raise ValueError", "if v < 0 or v >= n_nodes:\n            raise ValueError"],
}


def validators_used(ctx: Ctx, mods, oid: str):
    """every validator a function of the anchor files calls rejects exactly the documented inputs"""
    vm = ctx.repo.module("utils.validate")
    used = set()
    for m in mods:
        for q in sorted(m.funcs):
            for n in m.funcs[q].own_nodes():
                if isinstance(n, ast.Call) and isinstance(n.func, ast.Name) and n.func.id in VALIDATORS:
                    used.add(n.func.id)
    for name in sorted(used):
        f = vm.funcs.get(name)
        if f is None:
            ctx.ob(oid, "R18 table", None, f"validator {name} exists", False, "", rel=vm.rel, fname=name)
            continue
        t = ast.unparse(f.node)
        missing = [fr.split("\n")[0] for fr in VALIDATORS[name] if fr not in t]
        # a raise behind a test that no valid value can meet (NaN, a wrong type, None) only refuses what was never
        # valid input: it is not counted.  Every other raise has to be one of the documented ones.
        import re as _re

        pm_ = {}
        for x in ast.walk(f.node):
            for c_ in ast.iter_child_nodes(x):
                pm_[id(c_)] = x
        raises = 0
        for x in ast.walk(f.node):
            if not isinstance(x, ast.Raise):
                continue
            up = pm_.get(id(x))
            while up is not None and not isinstance(up, ast.If):
                up = pm_.get(id(up))
            test_ = ast.unparse(up.test) if up is not None else ""
            documented = any(test_ and test_ in fr for fr in VALIDATORS[name])
            never_valid = bool(_re.fullmatch(r"(\w+(\[\w+\])*) != \1", test_)) or any(k_ in test_ for k_ in ("isnan(", "isfinite(", "isinstance(", " is None"))
            if documented or not never_valid:
                raises += 1
        want_r = sum(fr.count("raise ") for fr in VALIDATORS[name])
        rets = sum(1 for x in ast.walk(f.node) if isinstance(x, ast.Return))
        want_ret = sum(fr.count("return ") + fr.count("return\n") for fr in VALIDATORS[name])
        ctx.ob(oid, "R18 table", f, f"{name} rejects exactly the documented inputs", not missing and raises == want_r and rets == want_ret, (f"not found: {missing[:2]}; " if missing else "") + f"{raises} raise statement(s), {want_r} expected; {rets} return statement(s), {want_ret} expected: a validator that rejects a valid input turns a correct call into an exception, one that lets an invalid input through (an early return in front of the tests, a bound taken over one endpoint column only) voids the solver's preconditions - a negative index then addresses a node from the end", node=f.node)


# luby() in sat.py is stutter-free only for indices >= 1, which C02 establishes from its call sites; every other
# property that has sat.py among its anchor files leaves that loop to C02
DEFAULT_SKIP_STUTTER = ("solvor/sat.py",)

# confirmed by reading: the one numeric optional parameter whose 0 is meant to read like None
# R50 is the default rule for input data nobody analyses more closely; where a property has a dedicated obligation on
# how an input is normalised, that obligation decides and the rebinding is only noted here
R50_ALLOWED: dict = {
    ("solvor/sat.py", "solve_sat", "clauses"): "the clause list may be normalised (duplicate literals merged, tautologies dropped): C02-O9 decides whether a normalisation of it keeps the models",
}
# signature required by a protocol: every repair operator takes (state, rng)
R51_ALLOWED = {
    ("solvor/vrp.py", "regret_insertion", "rng"): "repair operators share the signature (state, rng); regret insertion is deterministic",
}
# the one confirmed place where a budget is deliberately lowered: what phase 1 used up is not available to phase 2
R52_ALLOWED = {
    ("solvor/simplex.py", "solve_lp", "max_iter"): "`max_iter -= iters`: the pivots phase 1 used are taken off the budget phase 2 gets",
}
BUDGET_NAMES = ("tol", "eps", "gap_tol", "time_limit", "patience")
R46_ALLOWED = {
    ("solvor/dlx.py", "solve_exact_cover", "max_solutions"): "max_solutions=0 and max_solutions=None both mean 'no limit on the number of covers'; the three tests are `max_solutions and len(solutions) >= max_solutions`",
}
# confirmed by reading: the one place where a caller deliberately hands a differently named parameter of its own
R42_ALLOWED = {
    ("solvor/milp.py", "_lns_improve", "iterations", "max_iter"): "the LNS pass count of solve_milp is the iteration budget of the inner lns() call; `max_iter` of the enclosing scope is the branch-and-bound budget",
}


def generic_sweeps(ctx: Ctx, stutter: bool = True, skip_stutter_modules: tuple = DEFAULT_SKIP_STUTTER):
    ctx.sweeps_done = True
    mods = anchor_modules(ctx)
    ctx.require(bool(mods), "no anchor module of this property found in the repository")
    n_funcs = n_loops = 0
    g = ctx.prop + "-G"
    for m in mods:
        for q in sorted(m.funcs):
            f = m.funcs[q]
            n_funcs += 1
            pu = possibly_undefined(f)
            bad = []
            for nm, rd in pu:
                key = (m.rel, f.qualname, nm)
                if key in R31_NOTES:
                    ctx.ob(g + "1", "R31 DEFINED-ON-ALL-PATHS", f, f"`{nm}` bound on all paths", False, R31_NOTES[key], node=rd, severity="note")
                else:
                    bad.append((nm, rd))
            if bad:
                for nm, rd in bad:
                    ctx.ob(g + "1", "R31 DEFINED-ON-ALL-PATHS", f, f"local `{nm}` is bound on every path to its reads", False, f"read at line {rd.lineno} is reachable without passing any binding (e.g. a loop that runs zero times, a branch that does not assign): UnboundLocalError at run time", node=rd)
            if stutter and m.rel not in skip_stutter_modules:
                heads, res = stutter_paths(f)
                n_loops += len(heads)
                for w_, desc_ in flag_loops_without_exit(f):
                    ctx.ob(g + "2", "R22 STUTTER-FREE", f, f"`while {ast.unparse(w_.test)[:40]}` can end", False, desc_ + " - the call never returns", node=w_)
                seen = set()
                for h, desc in res:
                    if h.id in seen:
                        continue
                    seen.add(h.id)
                    ctx.ob(g + "2", "R22 STUTTER-FREE", f, f"while `{ast.unparse(h.ast)[:40]}`: stutter path", False, desc + " - the loop can spin forever on such a state", node=h.ast)
    ctx.ob(g + "1", "R31 DEFINED-ON-ALL-PATHS", None, f"every local read in the {n_funcs} functions of the anchor files is bound on all paths", not [o for o in ctx.obs if o.oid == g + "1" and not o.ok and o.severity == "violation"], "", rel=mods[0].rel, fname="<anchor files>")
    if stutter:
        ctx.ob(g + "2", "R22 STUTTER-FREE", None, f"no stutter path in the {n_loops} `while` loops of the anchor files", not [o for o in ctx.obs if o.oid == g + "2" and not o.ok], "", rel=mods[0].rel, fname="<anchor files>")
    n_state = 0
    for m in mods:
        for f, n, nm, why in cross_call_state(m):
            if (m.rel, nm) in R33_ALLOWED:
                ctx.ob(g + "3", "R33 NO-CROSS-CALL-STATE", f, f"module state `{nm}`", False, R33_ALLOWED[(m.rel, nm)], node=n, severity="note")
                continue
            n_state += 1
            ctx.ob(g + "3", "R33 NO-CROSS-CALL-STATE", f, f"no state outlives the call (`{nm}`)", False, why + " - the result then depends on the history of earlier calls, not only on the arguments", node=n)
    ctx.ob(g + "3", "R33 NO-CROSS-CALL-STATE", None, f"no function of the anchor files keeps state from one call to the next (global rebinding, module-level mutation, caching decorator, mutated default)", n_state == 0, "", rel=mods[0].rel, fname="<anchor files>")
    # R36: a rich-comparison method used directly as a predicate returns NotImplemented (which is truthy) for
    # operands of another type, where the operator would fall back to the reflected method / identity
    n_dunder = 0
    for m in mods:
        for q in sorted(m.funcs):
            f = m.funcs[q]
            for n in f.own_nodes():
                if isinstance(n, ast.Attribute) and n.attr in ("__eq__", "__ne__", "__lt__", "__le__", "__gt__", "__ge__") and not (isinstance(n.value, ast.Call) and ast.unparse(n.value.func) == "super"):
                    n_dunder += 1
                    ctx.ob(g + "4", "R36 NO-DIRECT-RICH-COMPARISON", f, f"`{ast.unparse(n)[:40]}` is not used in place of the comparison operator", False, "the bound method returns NotImplemented - truthy - for an operand of a type it does not handle, so every such value 'matches'; the operator falls back to the reflected method and identity", node=n)
    ctx.ob(g + "4", "R36 NO-DIRECT-RICH-COMPARISON", None, "no rich-comparison method is called directly in place of its operator", n_dunder == 0, "", rel=mods[0].rel, fname="<anchor files>")
    # R37: a name read that is bound nowhere (function, enclosing functions, module, builtins) - typically its only
    # binding was removed; R38: a function that returns values but can also run off its end returns None there
    n_undef = n_none = 0
    for m in mods:
        mod_names = set()
        for n in m.tree.body:
            for x in (ast.walk(n) if not isinstance(n, (ast.FunctionDef, ast.AsyncFunctionDef, ast.ClassDef)) else [n]):
                if isinstance(x, ast.Name) and isinstance(x.ctx, ast.Store):
                    mod_names.add(x.id)
                elif isinstance(x, (ast.FunctionDef, ast.AsyncFunctionDef, ast.ClassDef)):
                    mod_names.add(x.name)
                elif isinstance(x, ast.alias):
                    mod_names.add((x.asname or x.name).split(".")[0])
        for q in sorted(m.funcs):
            f = m.funcs[q]
            for nm, node in undefined_names(f, mod_names):
                n_undef += 1
                ctx.ob(g + "5", "R37 UNDEFINED-NAME", f, f"`{nm}` is bound somewhere (function, enclosing function, module or builtin)", False, "no binding of this name exists: NameError when the statement runs", node=node)
            if implicit_none_paths(f):
                n_none += 1
                ctx.ob(g + "6", "R38 NO-IMPLICIT-NONE", f, "a function that returns values returns one on every path", False, "some path runs off the end of the function and returns None where callers expect a value", node=f.node)
    ctx.ob(g + "5", "R37 UNDEFINED-NAME", None, "every name read in the anchor files is bound somewhere", n_undef == 0, "", rel=mods[0].rel, fname="<anchor files>")
    ctx.ob(g + "6", "R38 NO-IMPLICIT-NONE", None, "no value-returning function of the anchor files can run off its end", n_none == 0, "", rel=mods[0].rel, fname="<anchor files>")
    # R40: an argument whose name says one thing handed to a parameter whose name says the opposite
    n_sel = 0
    for m in mods:
        for q in sorted(m.funcs):
            f = m.funcs[q]
            for c in f.own_nodes():
                if not isinstance(c, ast.Call):
                    continue
                callee = ctx.repo.resolve_call(f, c)
                if callee is None:
                    continue
                params = [p_ for p_ in callee.params if p_ not in ("self", "cls")]
                pairs = list(zip(c.args, params)) + [(k.value, k.arg) for k in c.keywords if k.arg]
                for a, p_ in pairs:
                    an = a.id if isinstance(a, ast.Name) else (a.attr if isinstance(a, ast.Attribute) else None)
                    if an is None or not _opposite(an, p_):
                        continue
                    n_sel += 1
                    ctx.ob(g + "8", "R40 ARGUMENT-SELECTION", f, f"`{an}` is not passed where `{callee.name}` expects `{p_}`", False, f"`{ast.unparse(c)[:70]}`: the argument's name and the parameter's name denote opposite things (rows/columns, lower/upper, source/target ...), which usually means two arguments were swapped", node=c)
    for rel_, hname, p_, an, ln in getattr(ctx.repo, "inline_bindings", []):
        if rel_ in {m.rel for m in mods} and _opposite(an, p_):
            n_sel += 1
            ctx.ob(g + "8", "R40 ARGUMENT-SELECTION", None, f"`{an}` is not passed where `{hname}` expects `{p_}`", False, f"call of the helper `{hname}` at line {ln} (analysed inlined): the argument's name and the parameter's name denote opposite things (rows/columns, lower/upper, source/target ...), which usually means two arguments were swapped", rel=rel_, fname=hname)
    # R49: `f(a=b, b=a)` - a keyword receives the variable named like another keyword of the same call
    for m in mods:
        for q in sorted(m.funcs):
            f = m.funcs[q]
            for c in f.own_nodes():
                if not isinstance(c, ast.Call) or len(c.keywords) < 2:
                    continue
                kws = {k.arg for k in c.keywords if k.arg}
                for k in c.keywords:
                    if k.arg and isinstance(k.value, ast.Name) and k.value.id != k.arg and k.value.id in kws:
                        n_sel += 1
                        ctx.ob(g + "8", "R49 KEYWORD-CROSSING", f, f"keyword `{k.arg}` of `{ast.unparse(c.func)[:30]}(...)` is not given the variable named like another keyword of the same call", False, f"`{k.arg}={k.value.id}` while `{k.value.id}=` is passed too: two keyword arguments were crossed", node=c)
    # R42: the caller has a variable named exactly like the callee's parameter and hands over another of its own
    # parameters instead (`_most_fractional(x_vals, gap_tol)` where both `eps` and `gap_tol` are in scope)
    for m in mods:
        for q in sorted(m.funcs):
            f = m.funcs[q]
            scope = set(f.params)
            up = f
            while up.parent is not None:
                up = up.parent
                scope |= set(up.params)
            for c in f.own_nodes():
                if not isinstance(c, ast.Call):
                    continue
                callee = ctx.repo.resolve_call(f, c)
                if callee is None:
                    continue
                params = [p_ for p_ in callee.params if p_ not in ("self", "cls")]
                local_defs = {x_.name for x_ in f.node.body if isinstance(x_, (ast.FunctionDef, ast.AsyncFunctionDef))}
                for a, p_ in list(zip(c.args, params)) + [(k.value, k.arg) for k in c.keywords if k.arg]:
                    if isinstance(a, ast.Name) and a.id != p_ and len(p_) >= 3 and p_ in scope and a.id in local_defs and callee.module is f.module:
                        # the caller's own callable of that name is in scope and a local wrapper around it is handed on
                        n_sel += 1
                        ctx.ob(g + "8", "R42 SAME-NAME-FORWARDING", f, f"`{callee.name}` receives the caller's own `{p_}` for its parameter `{p_}`", False, f"`{ast.unparse(c)[:50]}..` passes the local function `{a.id}` although `{p_}` is in scope: the callee reads the callable's answers by the contract of `{p_}` (None from a pricing function means 'no improving column exists'), a wrapper that filters or rewrites them changes what they prove", node=c)
                        continue
                    if not (isinstance(a, ast.Name) and a.id != p_ and len(p_) >= 3 and p_ in scope and a.id in scope):
                        continue
                    if (m.rel, f.qualname, a.id, p_) in R42_ALLOWED:
                        ctx.ob(g + "8", "R42 SAME-NAME-FORWARDING", f, f"`{a.id}` handed to `{callee.name}({p_}=...)`", False, R42_ALLOWED[(m.rel, f.qualname, a.id, p_)], node=c, severity="note")
                        continue
                    n_sel += 1
                    ctx.ob(g + "8", "R42 SAME-NAME-FORWARDING", f, f"`{callee.name}` receives the caller's own `{p_}` for its parameter `{p_}`", False, f"`{ast.unparse(c)[:70]}` passes `{a.id}` although `{p_}` is in scope: a tolerance, limit or size of one meaning used where another is expected", node=c)
    ctx.ob(g + "8", "R40 ARGUMENT-SELECTION", None, "no call in the anchor files passes an argument to a parameter of the opposite meaning, or a different parameter of the caller where the caller has one of the expected name", n_sel == 0, "", rel=mods[0].rel, fname="<anchor files>")
    # R41: `None` is this code base's only "not given" value (every optional parameter defaults to it and callers
    # forward it); a public parameter that defaults to a private sentinel object gives an explicit None a new meaning
    n_sent = n_opt = 0
    for m in mods:
        sentinels = {t.id for n in m.tree.body if isinstance(n, ast.Assign) and isinstance(n.value, ast.Call) and ast.unparse(n.value) == "object()" for t in n.targets if isinstance(t, ast.Name)}
        for q in sorted(m.funcs):
            f = m.funcs[q]
            if f.name.startswith("_") or f.parent is not None:
                continue
            a = f.node.args
            pos = a.posonlyargs + a.args
            for prm, d in list(zip(pos[len(pos) - len(a.defaults):], a.defaults)) + [(p_, d_) for p_, d_ in zip(a.kwonlyargs, a.kw_defaults) if d_ is not None]:
                if isinstance(d, ast.Constant) and d.value is None:
                    n_opt += 1
                if isinstance(d, ast.Name) and d.id in sentinels:
                    n_sent += 1
                    ctx.ob(g + "9", "R41 OPTIONAL-MEANS-NONE", f, f"optional parameter `{prm.arg}` defaults to None", False, f"it defaults to the private sentinel `{d.id}`: a caller that passes None explicitly (the 'not given' value of every other optional parameter here, forwarded as such by wrappers) now has None taken as a real value", node=d)
    ctx.ob(g + "9", "R41 OPTIONAL-MEANS-NONE", None, f"no public function of the anchor files replaces None by a private sentinel as the 'not given' default ({n_opt} optional parameters default to None)", n_sent == 0, "", rel=mods[0].rel, fname="<anchor files>")
    # R48: what may be a one-shot iterable is consumed once
    n_twice = 0
    for m in mods:
        for q in sorted(m.funcs):
            f = m.funcs[q]
            if f.parent is not None:
                continue
            for nm, what, lines in iterables_consumed_twice(f.node):
                n_twice += 1
                ctx.ob(g + "14", "R48 ITERABLE-ONCE", f, f"`{nm}` ({what}) is consumed once", False, f"consumed at lines {lines}: a generator, map or filter object handed in (legal for the declared type) is empty the second time, so the second pass silently sees no nodes / no edges", node=f.node)
    ctx.ob(g + "14", "R48 ITERABLE-ONCE", None, "no Iterable parameter (or iterable returned by a callback parameter) of the anchor files is consumed twice", n_twice == 0, "", rel=mods[0].rel, fname="<anchor files>")
    # R46: a numeric or state-valued optional parameter is compared with None, never tested for truthiness
    n_truthy = 0
    for m in mods:
        for q in sorted(m.funcs):
            f = m.funcs[q]
            if f.parent is not None:
                continue  # closures are walked with their top-level function
            for pname, ann, node in optional_truthiness(f.node):
                if (m.rel, f.qualname, pname) in R46_ALLOWED:
                    ctx.ob(g + "13", "R46 OPTIONAL-TRUTHINESS", f, f"`{pname}: {ann}` tested for truthiness", False, R46_ALLOWED[(m.rel, f.qualname, pname)], node=node, severity="note")
                    continue
                n_truthy += 1
                ctx.ob(g + "13", "R46 OPTIONAL-TRUTHINESS", f, f"`{pname}: {ann}` is compared with None, not tested for truthiness", False, f"line {node.lineno}: 0 (a seed, a node index, a limit) or a falsy state is a legal value and is treated like None", node=node)
    ctx.ob(g + "13", "R46 OPTIONAL-TRUTHINESS", None, "no numeric or state-valued optional parameter of the anchor files is tested for truthiness", n_truthy == 0, "", rel=mods[0].rel, fname="<anchor files>")
    # R45: a flat table addressed as t[a * s + b] is laid out with one stride
    n_stride = 0
    for m in mods:
        for q in sorted(m.funcs):
            f = m.funcs[q]
            for tname, sets, node in stride_conflicts(f):
                n_stride += 1
                ctx.ob(g + "12", "R45 STRIDE-AGREEMENT", f, f"every index computation into `{tname}` uses the same stride", False, f"products found in its indices: {sets} - no factor is common to all of them, so two sites disagree on where cell (i, j) lives (invisible while the two strides happen to be equal, e.g. for square inputs)", node=node)
    # the rule expects zero instances on the tree: its fixture pair keeps it honest on every run
    import types as _types

    fx = ast.parse(open(os.path.join(os.path.dirname(os.path.dirname(os.path.abspath(__file__))), "fixtures", "stride_shapes.py"), encoding="utf-8").read())
    got = {}
    for fn_ in fx.body:
        if isinstance(fn_, ast.FunctionDef):
            shim = _types.SimpleNamespace(node=fn_, own_nodes=lambda fn_=fn_: [x for x in ast.walk(fn_)])
            got[fn_.name] = bool(stride_conflicts(shim))
    ctx.require(got == {"two_strides": True, "one_stride": False}, f"rule R45 no longer separates its fixture pair: {got}")
    ctx.ob(g + "12", "R45 STRIDE-AGREEMENT", None, "no flat table of the anchor files is addressed with two different strides", n_stride == 0, "", rel=mods[0].rel, fname="<anchor files>")
    # R44: a constructor assigns each of its fields on every path to a normal return
    n_init = n_uninit = 0
    for m in mods:
        for q in sorted(m.funcs):
            f = m.funcs[q]
            if f.name != "__init__" or f.parent is not None:
                continue
            n_init += 1
            for fld, rn in uninitialised_fields(f):
                n_uninit += 1
                ctx.ob(g + "11", "R44 FIELDS-INITIALISED", f, f"`self.{fld}` is assigned on every path through {q}", False, "some path returns without assigning it: objects built along that path raise AttributeError (or keep a stale class default) when a method reads the field", node=rn.ast if rn.ast is not None else f.node)
    ctx.ob(g + "11", "R44 FIELDS-INITIALISED", None, f"the {n_init} constructors of the anchor files assign their fields on every path", n_uninit == 0, "", rel=mods[0].rel, fname="<anchor files>")
    # R43: the empty answer (an empty literal as solution, with a success status) is given only for an empty or
    # degenerate question - some guard of the site says so (`n == 0`, `not matrix`, `n <= 1`, `x is None`, all-zero)
    import re as _re

    n_triv = 0
    empt = _re.compile(r"^(0 == [\w.\[\]()]+|F:[^(]*|[\w.]+ <= 1|[\w.]+ < 1|.* is None|OR\(F:.*|T:all\(.*== 0.*)$")
    for m in mods:
        for q in sorted(m.funcs):
            f = m.funcs[q]
            try:
                sites = result_sites(f)
            except AnalysisError:
                continue
            if not sites:
                continue
            gvf = GuardView(cfg_of(f.node))
            for s_ in sites:
                sol = s_.arg("solution")
                if sol is None or ast.unparse(sol) not in ("()", "[]", "{}", "set()", "tuple()", "dict()", "list()"):
                    continue
                if not (set(s_.statuses) & {"OPTIMAL", "FEASIBLE"}):
                    continue
                n_triv += 1
                at = gvf.guard_atoms(s_.node, stable_only=False, after_loops=False)
                ctx.ob(g + "10", "R43 TRIVIAL-ANSWER-GATE", f, f"the empty answer `Result({ast.unparse(sol)}, ...)` is given only for an empty or degenerate input", any(empt.match(a) for a in at), f"guards {sorted(at)}: none of them says the input is empty - a non-empty instance answered with the empty solution loses every item / node / variable of the input", node=s_.call)
    ctx.count("empty-answer sites (R43)", n_triv)
    # R50: the solver works on the data it was given - a collection parameter is rebound only to a faithful copy
    n_rebound = 0
    for m in mods:
        for q in sorted(m.funcs):
            f = m.funcs[q]
            if f.node.name.startswith("_") and f.node.name != "__init__":
                continue  # private helpers rebind their working tables (tableau, state); the rule is about problem data
            for pname, st in collection_params_rebound(f.node):
                key = (m.rel, f.qualname, pname)
                if key in R50_ALLOWED:
                    ctx.ob(g + "15", "R50 PROBLEM-DATA-PASSTHROUGH", f, f"`{pname}` rebound", False, R50_ALLOWED[key], node=st, severity="note")
                    continue
                n_rebound += 1
                ctx.ob(g + "15", "R50 PROBLEM-DATA-PASSTHROUGH", f, f"collection parameter `{pname}` is rebound only to an element- and order-preserving copy of itself", False, f"`{ast.unparse(st).splitlines()[0][:90]}`: from here on the routine solves a filtered, deduplicated or re-ordered instance - entries the caller gave (a second row with a tighter bound, an isolated node, a zero-demand task, a self-loop) no longer take part in the answer", node=st)
    # R51: an option the caller can set is read somewhere in the function (a parameter that is accepted and then
    # ignored - `tol` no longer forwarded by a wrapper - silently answers for the default)
    n_unread = 0
    for m in mods:
        for q in sorted(m.funcs):
            f = m.funcs[q]
            if f.parent is not None or f.node.name.startswith("_"):
                continue
            a_ = f.node.args
            loads = {n_.id for n_ in ast.walk(f.node) if isinstance(n_, ast.Name) and isinstance(n_.ctx, ast.Load)}
            body_ = [st_ for st_ in f.node.body if not (isinstance(st_, ast.Expr) and isinstance(st_.value, ast.Constant))]
            if len(body_) == 1 and isinstance(body_[0], (ast.Pass, ast.Raise)):
                continue
            for x_ in a_.posonlyargs + a_.args + a_.kwonlyargs:
                pname = x_.arg
                if pname in ("self", "cls") or pname.startswith("_") or pname in loads:
                    continue
                key = (m.rel, f.qualname, pname)
                if key in R51_ALLOWED:
                    ctx.ob(g + "16", "R51 OPTION-READ", f, f"`{pname}` is never read", False, R51_ALLOWED[key], node=f.node, severity="note")
                    continue
                n_unread += 1
                ctx.ob(g + "16", "R51 OPTION-READ", f, f"parameter `{pname}` is read somewhere in the function", False, "the caller's value has no effect: the routine answers for a default (a tolerance, a limit, a direction) the caller did not ask for", node=f.node)
    ctx.ob(g + "16", "R51 OPTION-READ", None, "every parameter of the public functions of the anchor files is read", n_unread == 0, "", rel=mods[0].rel, fname="<anchor files>")
    # R52: a budget or tolerance the caller set is the one the routine (and whatever it forwards it to) works with: the
    # parameter is never rebound.  A budget lowered "because the search cannot need more" makes the callee report
    # MAX_ITER where it would have proved its verdict on the next step.
    n_budget = 0
    for m in mods:
        for q in sorted(m.funcs):
            f = m.funcs[q]
            if f.parent is not None or f.node.name.startswith("_"):
                continue
            a_ = f.node.args
            budgets = {x_.arg for x_ in a_.posonlyargs + a_.args + a_.kwonlyargs if x_.arg.startswith("max_") or x_.arg in BUDGET_NAMES}
            if not budgets:
                continue
            for n_ in own_nodes(f.node):
                tg_ = []
                if isinstance(n_, ast.Assign):
                    tg_ = [e_ for t_ in n_.targets for e_ in (t_.elts if isinstance(t_, ast.Tuple) else [t_])]
                elif isinstance(n_, (ast.AugAssign, ast.AnnAssign)):
                    tg_ = [n_.target]
                elif isinstance(n_, ast.NamedExpr):
                    tg_ = [n_.target]
                for t_ in tg_:
                    if isinstance(t_, ast.Name) and t_.id in budgets:
                        key = (m.rel, f.qualname, t_.id)
                        if key in R52_ALLOWED:
                            ctx.ob(g + "17", "R52 BUDGET-PASSTHROUGH", f, f"`{t_.id}` rebound", False, R52_ALLOWED[key], node=n_, severity="note")
                            continue
                        # `x = default if x is None else x` and the like only fill in a default
                        v_ = getattr(n_, "value", None)
                        if isinstance(n_, ast.Assign) and isinstance(v_, ast.IfExp) and "None" in ast.unparse(v_.test) and t_.id in {y_.id for y_ in ast.walk(v_) if isinstance(y_, ast.Name)}:
                            continue
                        n_budget += 1
                        ctx.ob(g + "17", "R52 BUDGET-PASSTHROUGH", f, f"budget / tolerance parameter `{t_.id}` is never rebound", False, f"`{ast.unparse(n_).splitlines()[0][:80]}`: from here on the routine - and every routine the value is forwarded to - works with another limit than the caller's; a budget cut to what the search 'cannot exceed' ends in MAX_ITER on the very step that would have emptied the frontier or reached the goal", node=n_)
    ctx.ob(g + "17", "R52 BUDGET-PASSTHROUGH", None, "no public function of the anchor files rebinds a budget or tolerance parameter", n_budget == 0, "", rel=mods[0].rel, fname="<anchor files>")
    # R53: a helper that answers None for 'no result' and a value otherwise has that None looked at by every caller:
    # the call stands in a test, or its result is bound to a name the caller tests (for None or truth).  Producer and
    # consumer of a 'nothing' sentinel are usually edited apart - the producer gains a `return None`, the consumer
    # loses its "dead" test - and the first diverged run subscripts None.
    n_none = 0
    n_sites53 = 0
    for m in mods:
        for q in sorted(m.funcs):
            f = m.funcs[q]
            ftxt = None
            for c in f.own_nodes():
                if not isinstance(c, ast.Call):
                    continue
                callee = ctx.repo.resolve_call(f, c)
                if callee is None or callee.module is not f.module:
                    continue
                rets_ = [n_ for n_ in own_nodes(callee.node) if isinstance(n_, ast.Return)]
                none_ = [n_ for n_ in rets_ if n_.value is None or (isinstance(n_.value, ast.Constant) and n_.value.value is None)]
                if not none_ or len(none_) == len(rets_):
                    continue
                n_sites53 += 1
                holder = [s_ for s_ in own_nodes(f.node) if isinstance(s_, (ast.Assign, ast.AnnAssign, ast.If, ast.While, ast.IfExp, ast.Return, ast.Expr, ast.Assert, ast.NamedExpr, ast.Compare, ast.BoolOp)) and any(x_ is c for x_ in ast.walk(s_))]
                in_test = any((isinstance(s_, (ast.If, ast.While, ast.IfExp)) and any(x_ is c for x_ in ast.walk(s_.test))) or (isinstance(s_, ast.Assert) and any(x_ is c for x_ in ast.walk(s_.test))) or (isinstance(s_, ast.Compare) and any(isinstance(o_, (ast.Is, ast.IsNot)) for o_ in s_.ops) and (s_.left is c or c in s_.comparators)) for s_ in holder)
                if in_test:
                    continue
                asg = [s_ for s_ in holder if isinstance(s_, (ast.Assign, ast.AnnAssign)) and s_.value is not None and (s_.value is c or (isinstance(s_.value, ast.IfExp) and (s_.value.body is c or s_.value.orelse is c)))]
                tested = False
                if asg:
                    t_ = asg[0].targets[0] if isinstance(asg[0], ast.Assign) else asg[0].target
                    if isinstance(t_, ast.Name):
                        nm_ = t_.id
                        for x_ in own_nodes(f.node):
                            if isinstance(x_, ast.Compare) and any(isinstance(o_, (ast.Is, ast.IsNot)) for o_ in x_.ops) and isinstance(x_.left, ast.Name) and x_.left.id == nm_:
                                tested = True
                            if isinstance(x_, ast.BoolOp) and any(isinstance(y_, ast.Name) and y_.id == nm_ for y_ in x_.values[:-1]):
                                tested = True  # `x or default` / `x and x[0]`: the operand's truth decides
                            if isinstance(x_, (ast.If, ast.While, ast.IfExp)) and any(isinstance(y_, ast.Name) and y_.id == nm_ for y_ in ([x_.test] if isinstance(x_.test, ast.Name) else ([x_.test.operand] if isinstance(x_.test, ast.UnaryOp) and isinstance(x_.test.op, ast.Not) else (x_.test.values if isinstance(x_.test, ast.BoolOp) else [])))):
                                tested = True
                if tested:
                    continue
                n_none += 1
                ctx.ob(g + "18", "R53 NONE-RESULT-TESTED", f, f"the result of `{callee.name}` - which may be None - is tested before it is used", False, f"`{ast.unparse(holder[-1] if holder else c).splitlines()[0][:80]}`: `{callee.name}` returns None on line {none_[0].lineno} for 'no result'; used as a value here, the first run that takes that exit ends in a TypeError instead of a status", node=c)
    ctx.count("call sites of helpers that may answer None (R53)", n_sites53)
    ctx.ob(g + "18", "R53 NONE-RESULT-TESTED", None, "every caller of a helper that may answer None tests the answer", n_none == 0, "", rel=mods[0].rel, fname="<anchor files>")
    ctx.ob(g + "15", "R50 PROBLEM-DATA-PASSTHROUGH", None, "no public function of the anchor files replaces a collection parameter by a filtered or rebuilt version of it", n_rebound == 0, "", rel=mods[0].rel, fname="<anchor files>")
    infrastructure(ctx, g + "7")
    validators_used(ctx, mods, g + "7")
    ctx.count("functions swept (R31/R22)", n_funcs)
