"""Generic sweeps every property runs over its anchor files: R31 (no possibly-undefined local) and R22 (no stutter
path in a `while` loop).  Both have expected count zero on a healthy tree; their positive examples are the self-test
variants of C18/C19 (R31) and C02 (R22)."""

from __future__ import annotations

import ast
import json
import os

from sa.report import Ctx
from sa.stutter import stutter_paths
from sa.undefined import possibly_undefined

HERE = os.path.dirname(os.path.dirname(os.path.abspath(__file__)))

# reads outside every property's quantifier: reported as NOTE, with the reason
R31_NOTES = {
    ("solvor/pagerank.py", "pagerank", "max_diff"): "pagerank(max_iter=0) reads `max_diff` before any iteration bound it; max_iter is not in C15's quantifier",
}


def anchor_modules(ctx: Ctx) -> list:
    files = []
    with open(os.path.join(HERE, "properties.jsonl"), encoding="utf-8") as fh:
        for line in fh:
            p = json.loads(line)
            if p["id"] == ctx.prop:
                files = [f for f in p["anchors"]["files"] if f.endswith(".py")]
    mods = []
    for m in ctx.repo.modules.values():
        if m.rel in files:
            mods.append(m)
    return sorted(mods, key=lambda m: m.rel)


def generic_sweeps(ctx: Ctx, stutter: bool = True, skip_stutter_modules: tuple = ()):
    mods = anchor_modules(ctx)
    ctx.require(bool(mods), "no anchor module of this property found in the repository")
    n_funcs = n_loops = 0
    g = ctx.prop + "-G"
    for m in mods:
        for q in sorted(m.funcs):
            f = m.funcs[q]
            n_funcs += 1
            pu = possibly_undefined(f)
            bad = []
            for nm, rd in pu:
                key = (m.rel, f.qualname, nm)
                if key in R31_NOTES:
                    ctx.ob(g + "1", "R31 DEFINED-ON-ALL-PATHS", f, f"`{nm}` bound on all paths", False, R31_NOTES[key], node=rd, severity="note")
                else:
                    bad.append((nm, rd))
            if bad:
                for nm, rd in bad:
                    ctx.ob(g + "1", "R31 DEFINED-ON-ALL-PATHS", f, f"local `{nm}` is bound on every path to its reads", False, f"read at line {rd.lineno} is reachable without passing any binding (e.g. a loop that runs zero times, a branch that does not assign): UnboundLocalError at run time", node=rd)
            if stutter and m.rel not in skip_stutter_modules:
                heads, res = stutter_paths(f)
                n_loops += len(heads)
                seen = set()
                for h, desc in res:
                    if h.id in seen:
                        continue
                    seen.add(h.id)
                    ctx.ob(g + "2", "R22 STUTTER-FREE", f, f"while `{ast.unparse(h.ast)[:40]}`: stutter path", False, desc + " - the loop can spin forever on such a state", node=h.ast)
    ctx.ob(g + "1", "R31 DEFINED-ON-ALL-PATHS", None, f"every local read in the {n_funcs} functions of the anchor files is bound on all paths", not [o for o in ctx.obs if o.oid == g + "1" and not o.ok and o.severity == "violation"], "", rel=mods[0].rel, fname="<anchor files>")
    if stutter:
        ctx.ob(g + "2", "R22 STUTTER-FREE", None, f"no stutter path in the {n_loops} `while` loops of the anchor files", not [o for o in ctx.obs if o.oid == g + "2" and not o.ok], "", rel=mods[0].rel, fname="<anchor files>")
    ctx.count("functions swept (R31/R22)", n_funcs)
