"""C02 - SAT verdicts are correct and the solver always comes back (structural part)."""

from __future__ import annotations

import ast

from sa.cfg import cfg_of
from sa.facts import assignments_to, result_sites
from sa.guards import GuardView, atom_of, in_loop, names_in, or_parts
from sa.index import own_nodes
from sa.report import Ctx

from .common import generic_sweeps
from sa.stutter import stutter_paths

from .sat_common import SatRoles, check_add_sites, check_binary_add, check_binary_clear, check_assumption_assertion, check_analysis, check_assign, check_backtrack, check_bcp, check_main_loop, check_heap_flags, check_trail_ownership, check_variable_ranges, check_variable_universe, check_input_copy

EXPLANATION = (
    "Decides structural necessary conditions of 'INFEASIBLE only without a model / always returns within budgets' on "
    "solvor/sat.py: (O1) no `while` loop of the module has a stutter path (identity update of the loop state with a "
    "satisfiable guard) - the Luby schedule is the instance; (O2) every main-loop cycle through a decision passes the "
    "conflict-budget test, every cycle through a restart passes the restart-budget test, every cycle through a model "
    "record passes the solution-limit test, and each of those tests' exhausted arm returns; (O3) every INFEASIBLE "
    "publication is dominated by a level-0 conflict certificate and by 'no model recorded', every MAX_ITER by a "
    "budget test, and the status resolves to a constant at all 15 publication sites; (O4) no antecedent-free "
    "assignment (pure-literal pre-assignment) is made before assumptions are asserted unless guarded against the "
    "assumption set; (O5/O6) learned-clause registration and the backtrack cut point (shared with C01). NOT decided: "
    "entailment of learned clauses, completeness of propagation, termination of conflict-only cycles (ranking "
    "argument on decision level assumed)."
)


def run(ctx: Ctx):
    roles = SatRoles(ctx)
    ctx.step(check_stutter)
    ctx.step(check_budgets, roles)
    ctx.step(check_verdicts, roles)
    ctx.step(check_pure_vs_assumptions, roles)
    ctx.step(check_add_sites, roles, "C02-O5")
    ctx.step(check_binary_add, "C02-O5")
    ctx.step(check_binary_clear, "C02-O5")
    ctx.step(check_backtrack, roles, "C02-O6")
    ctx.step(check_analyze_guard, roles)
    ctx.step(check_assumption_assertion, roles, "C02-O7")
    ctx.assume("conflict-only cycles terminate because consecutive conflicts strictly lower the decision level (not verified)")
    ctx.step(check_heap_flags, "C02-O8")
    ctx.step(check_variable_ranges, "C02-O8")
    ctx.step(check_trail_ownership, "C02-O8")
    ctx.step(check_variable_universe, "C02-O10")
    ctx.step(check_assign, "C02-O11")
    ctx.step(check_bcp, "C02-O12")
    ctx.step(check_analysis, "C02-O13")
    ctx.step(check_main_loop, "C02-O14")
    ctx.step(check_input_copy, "C02-O9")
    generic_sweeps(ctx, skip_stutter_modules=("solvor/sat.py",))


def check_stutter(ctx: Ctx):
    m = ctx.repo.module("sat")
    n_loops = 0
    for q in sorted(m.funcs):
        f = m.funcs[q]
        positive = set()
        if q == "luby":
            positive = _luby_domain(ctx, f)
        heads, res = stutter_paths(f, positive)
        n_loops += len(heads)
        if heads:
            ctx.touch(f)
        reported = set()
        for h, desc in res:
            if (h.id,) in reported:
                continue
            reported.add((h.id,))
            ctx.ob("C02-O1", "R22 STUTTER-FREE", f, f"while `{ast.unparse(h.ast)}`: stutter path", False, desc + " - the loop can spin forever on such a state", node=h.ast)
        for h in heads:
            if not any(h is hh for hh, _ in res):
                ctx.ob("C02-O1", "R22 STUTTER-FREE", f, f"while `{ast.unparse(h.ast)[:50]}`: no stutter path", True, "", node=h.ast)
    ctx.floor("while loops in sat.py", n_loops, 8)


def _luby_domain(ctx: Ctx, luby) -> set[str]:
    """The schedule index is 1-based: every call site passes a variable initialised to a constant >= 1 and only
    incremented.  Checked here; if it holds the parameter is assumed >= 1 in the stutter analysis."""
    m = luby.module
    ok, n_calls = True, 0
    for g in m.funcs.values():
        for n in own_nodes(g.node):
            if isinstance(n, ast.Call) and isinstance(n.func, ast.Name) and n.func.id == luby.name:
                n_calls += 1
                a = n.args[0] if n.args else None
                if isinstance(a, ast.Constant) and isinstance(a.value, int) and a.value >= 1:
                    continue
                if not isinstance(a, ast.Name):
                    ok = False
                    continue
                for d in assignments_to(g.node, a.id):
                    if isinstance(d, ast.Constant) and isinstance(d.value, int) and d.value >= 1:
                        continue
                    if isinstance(d, ast.AugAssign) and isinstance(d.op, ast.Add) and isinstance(d.value, ast.Constant) and d.value.value >= 0:
                        continue
                    ok = False
    ctx.ob("C02-O1", "R22 STUTTER-FREE", luby, "schedule index domain: every call passes an index >= 1", ok and n_calls >= 1, f"{n_calls} call sites", node=luby.node)
    if ok and n_calls:
        ctx.assume(f"`{luby.name}` is analysed for index >= 1 (every call site passes a counter initialised >= 1 and only incremented - checked)")
        return {luby.params[0]}
    return set()


def _returns_status(cfg, branch, status: str) -> bool:
    """All paths from `branch` end in return statements whose Result status is `status` (no path continues the loop)."""
    seen = cfg.forward(branch)
    for i in seen:
        n = cfg.nodes[i]
        if n.kind == "return":
            if n.ast is None or status not in ast.unparse(n.ast) and not _is_solutions_return(n.ast):
                return False
    head = branch.test.loop
    return head is None or head.id not in seen


def _is_solutions_return(r) -> bool:
    return False


def check_budgets(ctx: Ctx, roles: SatRoles):
    f, cfg = roles.f, roles.cfg
    head = roles.main

    def budget_tests(param: str):
        out = []
        for n in cfg.nodes:
            if n.kind == "test" and n.ast is not None and param in names_in(n.ast) and isinstance(n.ast, ast.Compare):
                out.append(n)
        return out

    def exhausted_branch(t, param):
        """branch node on which the budget is exhausted: counter >= param"""
        c = t.ast
        op = type(c.ops[0])
        left_is_param = param in names_in(c.left)
        true_is_exhausted = (op in (ast.GtE, ast.Gt, ast.Eq) and not left_is_param) or (op in (ast.LtE, ast.Lt) and left_is_param)
        for i in cfg.succ[t.id]:
            b = cfg.nodes[i]
            if b.kind == "branch" and b.pol == true_is_exhausted:
                return b
        return None

    def cycle_must_pass(step_node, param: str, what: str, status="MAX_ITER"):
        tests = budget_tests(param)
        if not tests:
            ctx.ob("C02-O2", "R23 CYCLE-BUDGET", f, f"{what} cycle passes a `{param}` test", False, f"no test on `{param}` in solve_sat", node=step_node.ast)
            return
        body = cfg.loop_body(head)
        avoid = {t.id for t in tests}
        # is there a cycle step -> head -> step avoiding all budget tests?
        fw = cfg.forward(step_node, avoid=avoid)
        cyc = step_node.id in fw
        ctx.ob("C02-O2", "R23 CYCLE-BUDGET", f, f"every cycle through the {what} passes a `{param}` test", not cyc, "a search cycle without budget test can run unboundedly" if cyc else "", node=step_node.ast)
        for t in tests:
            b = exhausted_branch(t, param)
            ok = b is not None and _returns_status(cfg, b, status)
            ctx.ob("C02-O2", "R23 CYCLE-BUDGET", f, f"`{ast.unparse(t.ast)}` exhausted arm returns {status if status else ''}", ok, "the exhausted arm must leave the loop with the budget status", node=t.ast)

    cycle_must_pass(roles.decision_node, "max_conflicts", "decision")
    # restart step: statement incrementing `restarts`
    rs = [cfg.node_of(n) for n in own_nodes(f.node) if isinstance(n, ast.AugAssign) and isinstance(n.target, ast.Name) and n.target.id == "restarts"]
    ctx.require(len(rs) == 1, "restart step (`restarts += 1`) not found exactly once")
    cycle_must_pass(rs[0], "max_restarts", "restart")
    rec = [cfg.stmt_node_containing(n) for n in own_nodes(f.node) if isinstance(n, ast.Call) and isinstance(n.func, ast.Attribute) and n.func.attr == "append" and ast.unparse(n.func.value) == "all_solutions"]
    ctx.require(len(rec) == 1, "model record site not found exactly once")
    # solution limit test: exhausted arm returns (OPTIMAL default)
    tests = [n for n in cfg.nodes if n.kind == "test" and n.ast is not None and isinstance(n.ast, ast.Compare) and "solution_limit" in names_in(n.ast) and "all_solutions" in names_in(n.ast)]
    avoid = {t.id for t in tests}
    cyc = rec[0].id in cfg.forward(rec[0], avoid=avoid)
    ctx.ob("C02-O2", "R23 CYCLE-BUDGET", f, "every cycle through the model record passes the `solution_limit` test", bool(tests) and not cyc, "", node=rec[0].ast)


def check_verdicts(ctx: Ctx, roles: SatRoles):
    f, cfg, gv = roles.f, roles.cfg, roles.gv
    sites = result_sites(f)
    ctx.floor("Result sites in solve_sat", len(sites), 15)
    cv = roles.conflict_var
    infeasible = [s for s in sites if "INFEASIBLE" in s.statuses]
    maxiter = [s for s in sites if "MAX_ITER" in s.statuses]
    ctx.floor("INFEASIBLE sites", len(infeasible), 5)
    ctx.floor("MAX_ITER sites", len(maxiter), 4)
    for s in sites:
        ctx.ob("C02-O3", "R1 STATUS-GUARD", f, f"status of Result #{sites.index(s)} resolves to a constant", all(not x.startswith(("?", "PASS")) for x in s.statuses), f"{sorted(s.statuses)}", node=s.call)
    body = cfg.loop_body(roles.main)
    for k, s in enumerate(infeasible):
        at = gv.guard_atoms(s.node)
        if in_loop(s.node, roles.main):
            lvl0 = {atom_of("dec_level == 0"), atom_of(f"{cv} == -2"), atom_of("len(trail_lim) == 0")}
            cert = [a for a in at if a == "learned_clause is None" or a in lvl0 or (or_parts(a) and set(or_parts(a)) <= lvl0)]
            no_model = "F:all_solutions" in at
            isconf = {atom_of(f"{cv} >= 0"), atom_of(f"{cv} == -2"), atom_of(f"{cv} != -1")}
            conf = any(a in isconf or (or_parts(a) and set(or_parts(a)) <= isconf) for a in at)
            ctx.ob("C02-O3", "R1 STATUS-GUARD", f, f"INFEASIBLE#{k} (search loop) under a level-0 / assumption conflict certificate", bool(cert) and conf, f"guards {sorted(at)}", node=s.call)
            ctx.ob("C02-O3", "R1 STATUS-GUARD", f, f"INFEASIBLE#{k} (search loop) only when no model was recorded", no_model, f"guards {sorted(at)}", node=s.call)
        else:
            cert = [a for a in at if a in ("0 == len(clause)", f"0 <= {cv}") or "!= val" in a or "!= (lit > 0)" in a]
            ctx.ob("C02-O3", "R1 STATUS-GUARD", f, f"INFEASIBLE#{k} (preprocessing) under empty clause / unit contradiction / level-0 conflict", bool(cert), f"guards {sorted(at)}", node=s.call)
        # never reachable from a budget-exhausted arm
        budget = [a for a in at if "max_conflicts" in a or "max_restarts" in a]
        exhausted = [a for a in budget if a.startswith(("max_conflicts <=", "max_restarts <="))]
        ctx.ob("C02-O3", "R2 BUDGET-EXIT", f, f"INFEASIBLE#{k} not under a budget-exhausted guard", not exhausted, f"{exhausted}", node=s.call)
    for k, s in enumerate(maxiter):
        at = gv.guard_atoms(s.node)
        ok = any(a.startswith(("max_conflicts <= ", "max_restarts <= ")) for a in at)
        ctx.ob("C02-O3", "R1 STATUS-GUARD", f, f"MAX_ITER#{k} under a budget-exhausted guard", ok, f"guards {sorted(at)}", node=s.call)
    # OPTIMAL (default status) with a model: solution argument is a recorded model
    for k, s in enumerate(x for x in sites if x.statuses == frozenset({"OPTIMAL"})):
        sol = s.arg("solution")
        txt = ast.unparse(sol)
        if txt in ("{}",):
            continue
        ok = txt in ("sol", "all_solutions[0]")
        at = gv.guard_atoms(s.node)
        if txt == "all_solutions[0]":
            recs = [cfg.stmt_node_containing(n) for n in own_nodes(f.node) if isinstance(n, ast.Call) and isinstance(n.func, ast.Attribute) and n.func.attr == "append" and ast.unparse(n.func.value) == "all_solutions"]
            ok = ok and ("T:all_solutions" in at or any(cfg.dominates(r, s.node) for r in recs))
        ctx.ob("C02-O3", "R1 STATUS-GUARD", f, f"OPTIMAL#{k} publishes a recorded model", ok, f"solution `{txt}` guards {sorted(at)}", node=s.call)
        # a model is a model of the clauses *and* the assumptions: the site lies behind the loop that asserts them
        def _asserts(fn_node):
            return [n for n in own_nodes(fn_node) if isinstance(n, ast.For) and "assumptions" in names_in(n.iter) and any(isinstance(c_, ast.Call) and isinstance(c_.func, ast.Name) and c_.func.id == roles.assign.name for c_ in ast.walk(n))]

        anchors_ = [cfg.node_of(n) for n in _asserts(f.node)]
        for q_, g_ in f.children.items():
            if _asserts(g_.node):
                anchors_ += [cfg.stmt_node_containing(c_) for c_ in own_nodes(f.node) if isinstance(c_, ast.Call) and isinstance(c_.func, ast.Name) and c_.func.id == g_.name]
        behind = any(a_ is not None and cfg.dominates(a_, s.node) for a_ in anchors_)
        ctx.ob("C02-O3", "R26 assumptions", f, f"OPTIMAL#{k} is published only after the assumptions were asserted", behind, f"solution `{txt}`: a verdict taken before the assumption loop speaks about the bare clause set - with assumptions the hinted or guessed assignment may violate them, or no model may exist at all", node=s.call)


def check_pure_vs_assumptions(ctx: Ctx, roles: SatRoles):
    """R26: heuristic (antecedent-free) level-0 assignments made before the assumptions are asserted must be
    guarded against the assumption set, because propagate() answers -2 (=> INFEASIBLE) on a clash."""
    f, cfg, gv = roles.f, roles.cfg, roles.gv
    # names derived from the `assumptions` parameter
    derived = {"assumptions"}
    changed = True
    while changed:
        changed = False
        for n in own_nodes(f.node):
            if isinstance(n, ast.Assign) and len(n.targets) == 1 and isinstance(n.targets[0], ast.Name) and names_in(n.value) & derived and n.targets[0].id not in derived:
                derived.add(n.targets[0].id)
                changed = True
    body = cfg.loop_body(roles.main)
    n_sites = 0
    for n in own_nodes(f.node):
        if isinstance(n, ast.Call) and isinstance(n.func, ast.Name) and n.func.id == roles.assign.name and len(n.args) == 3:
            r = n.args[2]
            no_reason = isinstance(r, ast.UnaryOp) and isinstance(r.operand, ast.Constant) and r.operand.value == 1
            sn = cfg.stmt_node_containing(n)
            if no_reason and sn.id in body:
                # inside the search loop a variable without antecedent is a decision: it opens its own level.  Conflict
                # analysis resolves every other variable of the conflict level through its reason clause and stops at
                # the one that has none - a second reasonless variable on a level makes the learned clause unsound
                blk_ = __import__("checks.sat_common", fromlist=["_enclosing_block"])._enclosing_block(f.node, sn.ast)
                prev = [ast.unparse(x) for x in blk_[max(0, blk_.index(sn.ast) - 3) : blk_.index(sn.ast)]]
                opened = "trail_lim.append(len(trail))" in prev and "dec_level += 1" in prev
                ctx.ob("C02-O5", "R25 REGISTRATION-TABLE", f, "inside the search loop an assignment without antecedent opens a decision level of its own", opened, f"`{ast.unparse(n)}` after {prev[-2:]}: a literal asserted without reason on an existing level is skipped by conflict analysis (it is taken for the decision), the clauses learned afterwards are not implied by the formula and a satisfiable formula can end INFEASIBLE", node=n)
                continue
            if not no_reason or sn.id in body:
                continue
            n_sites += 1
            at = gv.guard_atoms(sn, stable_only=False)
            guarded = any(any(d in a.replace("(", " ").replace(")", " ").replace("[", " ").split() for d in derived) for a in at)
            # also accept: iterating a collection that was filtered by a derived name
            loop = sn.loop
            if not guarded and loop is not None and loop.kind == "for":
                it = loop.ast.iter
                guarded = bool(names_in(it) & (derived - {"assumptions"})) or any(names_in(a) & derived for a in (it.args if isinstance(it, ast.Call) else []))
            # the guard compares a VARIABLE with the set: the set must hold variables (lit_var / abs of each literal)
            holds_vars = True
            for d in derived - {"assumptions"}:
                for v in assignments_to(f.node, d):
                    if isinstance(v, ast.AST) and "assumptions" in names_in(v) and any(d in a for a in at):
                        txt = ast.unparse(v)
                        holds_vars = holds_vars and ("lit_var(" in txt or "abs(" in txt)
            ctx.ob("C02-O4", "R26 IMPLIED-ONLY-BEFORE-ASSUMPTIONS", f, "the assumption guard set holds variables (lit_var/abs of every assumption literal), as the tested element is a variable", holds_vars, "a set of signed literals does not contain the variable of a negative assumption", node=n)
            ctx.ob("C02-O4", "R26 IMPLIED-ONLY-BEFORE-ASSUMPTIONS", f, "antecedent-free pre-assignment guarded against the assumption set", guarded, f"`{ast.unparse(n)}` guards {sorted(at)}; a pure literal contradicting an assumption makes a satisfiable call INFEASIBLE", node=n)
    ctx.count("antecedent-free pre-assignments", n_sites)
    # and the clash arm exists: propagate returns -2 -> INFEASIBLE; fine, but then O4 above is what keeps it sound
    # unit clause assignment carries its clause as reason (so it is an implied literal, not heuristic)
    for n in own_nodes(f.node):
        if isinstance(n, ast.For) and isinstance(n.iter, ast.Name) and n.iter.id == "unit_clauses":
            calls = [c for c in ast.walk(n) if isinstance(c, ast.Call) and isinstance(c.func, ast.Name) and c.func.id == roles.assign.name]
            ok = bool(calls) and all(isinstance(c.args[2], ast.Name) for c in calls)
            ctx.ob("C02-O4", "R26 IMPLIED-ONLY-BEFORE-ASSUMPTIONS", f, "unit-clause assignment carries its clause index as reason", ok, "", node=n)


def check_analyze_guard(ctx: Ctx, roles: SatRoles):
    """analyze() is only entered with dec_level > 0 and a real conflict clause; the learned clause's first literal is asserted."""
    f, cfg, gv = roles.f, roles.cfg, roles.gv
    for n in own_nodes(f.node):
        if isinstance(n, ast.Call) and isinstance(n.func, ast.Name) and n.func.id == roles.backtrack.name:
            sn = cfg.stmt_node_containing(n)
            arg = ast.unparse(n.args[0])
            if arg == "0":
                continue
            # backjump: followed (same block) by assertion of literal 0 of the learned clause with its index as reason
            blk = __import__("checks.sat_common", fromlist=["_enclosing_block"])._enclosing_block(f.node, sn.ast)
            rest = blk[blk.index(sn.ast) + 1 :]
            txt = " ; ".join(ast.unparse(s) for s in rest)
            ok = "assign(lit_var(learned_clause[0]), learned_clause[0] > 0, clause_idx)" in txt
            ctx.ob("C02-O5", "R25 REGISTRATION-TABLE", f, "backjump is followed by assertion of the learned clause's first literal with the clause as reason", ok, "", node=n)
            # ... at the backjump level: no other backtrack may lie on a path from the backjump to the assertion
            asserts = [cfg.stmt_node_containing(c) for c in own_nodes(f.node) if isinstance(c, ast.Call) and isinstance(c.func, ast.Name) and c.func.id == roles.assign.name and "learned_clause[0]" in ast.unparse(c)]
            others = [cfg.stmt_node_containing(c) for c in own_nodes(f.node) if isinstance(c, ast.Call) and isinstance(c.func, ast.Name) and c.func.id == roles.backtrack.name and c is not n]
            bad = False
            for a_ in asserts:
                mid = cfg.forward(sn, avoid={roles.main.id}) & cfg.backward(a_, avoid={roles.main.id})
                if any(o.id in mid for o in others):
                    bad = True
            ctx.ob("C02-O5", "R25 REGISTRATION-TABLE", f, "the asserting literal is assigned at the backjump level (no restart / other backtrack between backjump and assertion)", bool(asserts) and not bad, "after a backtrack to another level the learned clause is no longer unit: its first literal would become a permanent fact", node=n)
            learned_app = [cfg.stmt_node_containing(c) for c in own_nodes(f.node) if isinstance(c, ast.Call) and ast.unparse(c.func) == f"{roles.learned}.append" and ast.unparse(c.args[0]) == "learned_clause"]
            ok3 = bool(learned_app) and all(not any(o.id in (cfg.forward(sn, avoid={roles.main.id}) & cfg.backward(l_, avoid={roles.main.id})) for o in others) for l_ in learned_app)
            ctx.ob("C02-O5", "R25 REGISTRATION-TABLE", f, "the learned clause is stored before any restart can renumber the clause database", ok3, "", node=n)
            # dec_level mirrors len(trail_lim): assigned the same level right after the backtrack call
            ok2 = any(isinstance(s, ast.Assign) and ast.unparse(s.targets[0]) == "dec_level" and ast.unparse(s.value) == arg for s in rest[:2])
            ctx.ob("C02-O3", "R5 PAIRING", f, "dec_level tracks the backtrack level", ok2, "the level-0 test that certifies INFEASIBLE reads dec_level", node=n)
    # every unassign_to(0) is paired with dec_level = 0
    for n in own_nodes(f.node):
        if isinstance(n, ast.Call) and isinstance(n.func, ast.Name) and n.func.id == roles.backtrack.name and ast.unparse(n.args[0]) == "0":
            sn = cfg.stmt_node_containing(n)
            blk = __import__("checks.sat_common", fromlist=["_enclosing_block"])._enclosing_block(f.node, sn.ast)
            rest = blk[blk.index(sn.ast) + 1 :]
            ok = any(isinstance(s, ast.Assign) and ast.unparse(s.targets[0]) == "dec_level" and ast.unparse(s.value) == "0" for s in rest[:2])
            ctx.ob("C02-O3", "R5 PAIRING", f, "restart/enumeration backtrack resets dec_level to 0", ok, "", node=n)
    # the decision increments dec_level next to the boundary push
    dn = roles.decision_node
    blk = __import__("checks.sat_common", fromlist=["_enclosing_block"])._enclosing_block(f.node, dn.ast)
    i = blk.index(dn.ast)
    near = " ; ".join(ast.unparse(s) for s in blk[max(0, i - 2) : i + 2])
    ctx.ob("C02-O3", "R5 PAIRING", f, "decision increments dec_level together with the boundary push", "dec_level += 1" in near, "", node=dn.ast)


# ---------------------------------------------------------------------------------------------
from sa import mutate as M  # noqa: E402

from .c01 import SAT, _t_reformat, _t_rename, _v_backtrack_reads_after_shrink  # noqa: E402


def _v_luby_original(tree):
    g = M.find_func(tree, "luby")
    M.replace_expr(g, lambda e: isinstance(e, ast.Compare) and M.src_is(e, "i < (1 << k) - 1"), M.expr("i >= 1 << (k - 1)"))


def _v_luby_no_reset(tree):
    g = M.find_func(tree, "luby")
    M.replace_stmt(g, lambda s: M.src_is(s, "k += 1"), M.stmts("k = k"))


def _v_no_conflict_budget(tree):
    f = M.find_func(tree, "solve_sat")
    M.replace_expr(f, lambda e: M.src_is(e, "conflicts >= max_conflicts"), M.expr("conflicts >= max_conflicts and dec_level == 0"))


def _v_restart_budget_continues(tree):
    f = M.find_func(tree, "solve_sat")
    M.replace_stmt(f, lambda s: isinstance(s, ast.If) and M.src_is(s.test, "restarts >= max_restarts"), M.stmts("if restarts >= max_restarts:\n    conflicts_since_restart = 0"))


def _v_infeasible_above_level0(tree):
    f = M.find_func(tree, "solve_sat")
    M.replace_expr(f, lambda e: M.src_is(e, "dec_level == 0 or conflict == -2"), M.expr("dec_level <= 1 or conflict == -2"))


def _v_infeasible_on_budget(tree):
    f = M.find_func(tree, "solve_sat")

    def pred(e):
        return isinstance(e, ast.Call) and M.src_is(e, "Result(None, 0, decisions, propagations, Status.MAX_ITER)")

    M.replace_expr(f, pred, M.expr("Result(None, 0, decisions, propagations, Status.INFEASIBLE)"))


def _v_pure_unguarded(tree):
    f = M.find_func(tree, "solve_sat")
    M.replace_expr(f, lambda e: M.src_is(e, "vals[var] == UNDEF and var not in assumed_vars"), M.expr("vals[var] == UNDEF"))


def _v_declevel_not_reset(tree):
    f = M.find_func(tree, "solve_sat")
    M.replace_stmt(f, lambda s: M.src_is(s, "dec_level = bt_level"), [])


def _v_head_reset_to_trail_end(tree):
    g = M.find_func(tree, "solve_sat.unassign_to")
    M.replace_expr(g, lambda e: M.src_is(e, "min(prop_head, len(trail))"), M.expr("len(trail)"))
    ret = [s for s in g.body if isinstance(s, ast.If) and any(isinstance(x, ast.Return) for x in s.body)]
    if not ret:
        raise M.Skip("early return not found")
    i = g.body.index(ret[0])
    rest = g.body[i + 1 : -1]
    g.body = g.body[:i] + [ast.If(test=M.expr("len(trail_lim) > level"), body=rest, orelse=[])] + [g.body[-1]]


def _t_unassign_single_exit(tree):
    """equally valid: single-exit form that keeps the min"""
    g = M.find_func(tree, "solve_sat.unassign_to")
    ret = [s for s in g.body if isinstance(s, ast.If) and any(isinstance(x, ast.Return) for x in s.body)]
    if not ret:
        raise M.Skip("early return not found")
    i = g.body.index(ret[0])
    g.body = g.body[:i] + [ast.If(test=M.expr("len(trail_lim) > level"), body=g.body[i + 1 :], orelse=[])]


NORMALISE = """normalised = []
for c in clauses:
    lits = list(dict.fromkeys(c))
    if len({lit_var(lit) for lit in %s}) < len(%s):
        continue
    normalised.append(lits)
clauses = normalised
"""


def _v_tautology_test_on_raw_clause(tree):
    g = M.find_func(tree, "solve_sat")
    M.replace_stmt(g, lambda s: M.src_is(s, "clauses = [list(c) for c in clauses]"), M.stmts(NORMALISE % ("c", "c")))


def _t_tautology_test_on_kept_clause(tree):
    """equally valid: duplicates removed, tautologies (tested on the de-duplicated literals) dropped"""
    g = M.find_func(tree, "solve_sat")
    M.replace_stmt(g, lambda s: M.src_is(s, "clauses = [list(c) for c in clauses]"), M.stmts(NORMALISE % ("lits", "lits")))


def _v_universe_from_clauses_only(tree):
    g = M.find_func(tree, "solve_sat")
    M.replace_stmt(g, lambda s: isinstance(s, ast.For) and M.src_is(s.iter, "assumptions") and M.src_has(s, "n_vars = max(n_vars"), [])


def _v_assign_level_of_previous(tree):
    g = M.find_func(tree, "solve_sat.assign")
    M.replace_expr(g, lambda e: M.src_is(e, "len(trail_lim)"), M.expr("len(trail_lim) - 1"))


def _v_bcp_unit_without_search(tree):
    g = M.find_func(tree, "solve_sat.propagate")
    M.replace_stmt(g, lambda s: isinstance(s, ast.If) and M.src_is(s.test, "found"), [])


def _v_analysis_keeps_true_literal(tree):
    g = M.find_func(tree, "solve_sat.analyze.add_lit")
    M.replace_expr(g, lambda e: isinstance(e, ast.IfExp) and M.src_has(e, "lit_neg(lit)"), M.expr("lit"))


def _v_no_backjump(tree):
    g = M.find_func(tree, "solve_sat")
    M.replace_stmt(g, lambda s: isinstance(s, ast.Expr) and M.src_is(s.value, "unassign_to(bt_level)"), [])


def _v_heap_rebuilt_on_rescale(tree):
    g = M.find_func(tree, "solve_sat.decay_activity")
    g.body = g.body + M.stmts("if activity_inc > 1e100:\n    for v in range(1, n_vars + 1):\n        activity[v] *= 1e-100\n    activity_inc *= 1e-100\n    var_heap[:] = [(-activity[v], v) for v in range(1, n_vars + 1) if vals[v] == UNDEF]\n    heapify(var_heap)")


def _v_assumptions_after_queue(tree):
    g = M.find_func(tree, "solve_sat.propagate")
    blk = [s for s in g.body if isinstance(s, ast.If) and M.src_has(s.test, "len(trail_lim) == 0")]
    if not blk:
        raise M.Skip("assumption block not found")
    g.body.remove(blk[0])
    g.body.insert(len(g.body) - 1, blk[0])


def _v_no_clauses_ignores_assumptions(tree):
    g = M.find_func(tree, "solve_sat")
    M.replace_expr(g, lambda e: M.src_is(e, "not clauses and (not assumptions)"), M.expr("not clauses"))


def _v_flag_kept_on_skip(tree):
    g = M.find_func(tree, "solve_sat.pick_var")
    M.replace_stmt(g, lambda s: M.src_is(s, "in_heap[var] = False"), [])
    M.replace_stmt(g, lambda s: isinstance(s, ast.Return) and M.src_is(s.value, "var"), lambda s: M.stmts("in_heap[var] = False") + [s])


def _t_budget_flipped(tree):
    f = M.find_func(tree, "solve_sat")
    M.replace_expr(f, lambda e: M.src_is(e, "conflicts >= max_conflicts"), M.expr("max_conflicts <= conflicts"))
    M.replace_expr(f, lambda e: M.src_is(e, "dec_level == 0 or conflict == -2"), M.expr("conflict == -2 or 0 == dec_level"))


def _v_assumed_literals(tree):
    f = M.find_func(tree, "solve_sat")
    M.replace_expr(f, lambda e: M.src_is(e, "{lit_var(lit) for lit in assumptions}"), M.expr("set(assumptions)"))


def _v_learn_after_restart(tree):
    f = M.find_func(tree, "solve_sat")
    blk = None
    for n in ast.walk(f):
        b = getattr(n, "body", None)
        if isinstance(b, list) and any(M.src_is(s, "learned.append(learned_clause)") for s in b):
            blk = b
    if blk is None:
        raise M.Skip("learned append not found")
    i0 = next(k for k, s in enumerate(blk) if M.src_is(s, "clause_idx = len(clauses) + len(learned)"))
    i1 = next(k for k, s in enumerate(blk) if isinstance(s, ast.If) and M.src_is(s.test, "learned_clause"))
    moved = blk[i0 : i1 + 1]
    del blk[i0 : i1 + 1]
    j = next(k for k, s in enumerate(blk) if isinstance(s, ast.If) and M.src_is(s.test, "conflicts_since_restart >= next_restart"))
    blk[j + 1 : j + 1] = moved


def _v_ingest_watch_conditional(tree):
    g = M.find_func(tree, "solve_sat")
    for n in ast.walk(g):
        if isinstance(n, ast.For) and M.src_is(n.iter, "enumerate(clauses)"):
            chain = [x for x in n.body if isinstance(x, ast.If)]
            if not chain:
                continue
            cur = chain[0]
            while len(cur.orelse) == 1 and isinstance(cur.orelse[0], ast.If):
                cur = cur.orelse[0]
            if cur.orelse and M.src_has(cur.orelse[0], "add_watch"):
                cond = M.stmts("if not skip.isdisjoint(clause):\n    pass")[0]
                cond.test = M.expr("skip.isdisjoint(clause)")
                cond.body = cur.orelse
                cur.orelse = [cond]
                k = g.body.index(n) if n in g.body else None
                if k is None:
                    raise M.Skip("ingest loop is not a top-level statement")
                g.body.insert(k, M.stmts("skip = set()")[0])
                return
    raise M.Skip("ingest dispatch not found")


def _v_hint_shortcut_before_assumptions(tree):
    g = M.find_func(tree, "solve_sat")
    k = [i for i, st in enumerate(g.body) if isinstance(st, ast.Assign) and M.src_is(st.targets[0], "decisions")]
    if not k:
        raise M.Skip("decisions = 0 not found")
    g.body[k[0]:k[0]] = M.stmts("if solution_limit == 1 and all(any(phase[lit_var(lit)] == (lit > 0) for lit in c) for c in clauses):\n    sol = {v: phase[v] for v in range(1, n_vars + 1)}\n    return Result(sol, len(sol), 0, 0)")


def _v_learned_clause_minimised(tree):
    g = M.find_func(tree, "solve_sat.analyze")
    k = [i for i, st in enumerate(g.body) if isinstance(st, ast.Assign) and M.src_is(st.targets[0], "lvl_set")]
    if not k:
        raise M.Skip("lvl_set not found")
    g.body[k[0]:k[0]] = M.stmts("if len(learned_lits) > 2:\n    learned_lits[1:] = [lit for lit in learned_lits[1:] if levels[lit_var(lit)] > 0]")


def _v_long_learned_clause_dropped(tree):
    f = M.find_func(tree, "solve_sat")
    M.insert(f, "clause_idx = len(clauses) + len(learned)", "if len(learned_clause) > 8:\n    assign(lit_var(learned_clause[0]), learned_clause[0] > 0, -1)\n    conflicts_since_restart += 1\n    conflict = propagate()\n    continue")


def _v_assumptions_only_when_pending(tree):
    g = M.find_func(tree, "solve_sat.propagate")
    M.replace_expr(g, lambda e: M.src_is(e, "len(trail_lim) == 0"), M.expr("len(trail_lim) == 0 and prop_head < len(trail)"), count=1)


VARIANTS = [
    M.Variant("propagate asserts the assumptions at level 0 only when something is pending on the trail (seed C02-X)", "solvor/sat.py", _v_assumptions_only_when_pending, "C02-O12"),
    M.Variant("a long learned clause is not stored, its first literal is asserted without reason on the backjump level (seed C02-R)", SAT, _v_long_learned_clause_dropped, "C02-O5"),
    M.Variant("literals are removed from the learned clause after resolution (seed C02-O)", SAT, _v_learned_clause_minimised, "C02-O13"),

    M.Variant("an assignment that satisfies the clauses is returned before the assumptions are looked at (seed C02-M)", SAT, _v_hint_shortcut_before_assumptions, "C02-O3"),
    M.Variant("long input clauses get their watches only under an extra condition (seed C01-P)", SAT, _v_ingest_watch_conditional, "C02-O5"),

    M.Variant("pure-literal guard set holds signed literals (seed C02-A)", SAT, _v_assumed_literals, "C02-O4"),
    M.Variant("learned clause stored and asserted after the restart block (seed C02-B)", SAT, _v_learn_after_restart, "C02-O5"),

    M.Variant("luby with the original descent test", SAT, _v_luby_original, "C02-O1"),
    M.Variant("luby never advances k", SAT, _v_luby_no_reset, "C02-O1"),
    M.Variant("conflict budget tested only at level 0", SAT, _v_no_conflict_budget, "C02-O2"),
    M.Variant("restart budget exhausted arm keeps searching", SAT, _v_restart_budget_continues, "C02-O2"),
    M.Variant("INFEASIBLE declared at decision level 1", SAT, _v_infeasible_above_level0, "C02-O3"),
    M.Variant("budget exit publishes INFEASIBLE", SAT, _v_infeasible_on_budget, "C02-O3"),
    M.Variant("pure literals not guarded against assumptions (original defect)", SAT, _v_pure_unguarded, "C02-O4"),
    M.Variant("dec_level not updated after backjump", SAT, _v_declevel_not_reset, "C02-O3"),
    M.Variant("backtrack reads the boundary after shrinking (original defect)", SAT, _v_backtrack_reads_after_shrink, "C02-O6"),
    M.Variant("pick_var clears the in-heap flag only for the variable it returns (seed C01-D)", SAT, _v_flag_kept_on_skip, "C02-O8"),
    M.Variant("unassign_to sets the propagation head to the trail end on every call (seed C01-E)", SAT, _v_head_reset_to_trail_end, "C02-O8"),
    M.Variant("twin: unassign_to in single-exit form", SAT, _t_unassign_single_exit, None),
    M.Variant("input normalisation drops clauses with a repeated literal as tautologies (seed C02-C)", SAT, _v_tautology_test_on_raw_clause, "C02-O9"),
    M.Variant("twin: input normalisation that tests the de-duplicated literals", SAT, _t_tautology_test_on_kept_clause, None),
    M.Variant("variable count taken from the clauses only (original defect)", SAT, _v_universe_from_clauses_only, "C02-O10"),
    M.Variant("assign records the previous decision level", SAT, _v_assign_level_of_previous, "C02-O11"),
    M.Variant("propagation treats a clause as unit although a replacement watch was found", SAT, _v_bcp_unit_without_search, "C02-O12"),
    M.Variant("conflict analysis puts true literals into the learned clause", SAT, _v_analysis_keeps_true_literal, "C02-O13"),
    M.Variant("driver records the backjump level without undoing the trail", SAT, _v_no_backjump, "C02-O14"),
    M.Variant("activity rescale rebuilds the heap from the unassigned variables (seed C01-G)", SAT, _v_heap_rebuilt_on_rescale, "C02-O8"),
    M.Variant("assumptions asserted after the propagation queue was processed (seed C01-H)", SAT, _v_assumptions_after_queue, "C02-O12"),
    M.Variant("the no-clauses shortcut ignores the assumptions (original defect)", SAT, _v_no_clauses_ignores_assumptions, "C02-O14"),
    M.Variant("twin: reformat only", SAT, _t_reformat, None),
    M.Variant("twin: rename locals of the backtrack routine", SAT, _t_rename, None),
    M.Variant("twin: comparisons written the other way round", SAT, _t_budget_flipped, None),
]
