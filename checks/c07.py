"""C07 - exact cover (structural part): solvor/dlx.py."""

from __future__ import annotations

import ast

from sa.cfg import cfg_of
from sa.effects import nondeterminism_sources, param_mutations
from sa.facts import result_sites
from sa.guards import GuardView, atom_of, names_in
from sa.index import own_nodes
from sa.report import Ctx

from .common import generic_sweeps

EXPLANATION = (
    "Decides structural necessary conditions of the exact-cover contract on solvor/dlx.py: (O1) _cover and _uncover "
    "are structural inverses - opposite traversal directions at both loop levels, the relink set of one is the unlink "
    "set of the other, size -1/+1, header unlink first / relink last; (O2) in the search every path from a cover to a "
    "continuing exit passes the matching uncover in LIFO order (row covers walk right, uncovers walk left from the "
    "same node; push/pop of the partial solution), only `return True` exits skip the release; (O3) every row of the "
    "chosen column is tried: each path through the row loop reaches the advance step, the only prune is 'some column "
    "has size 0'; the chosen column has minimum size over the primary ring; (O4) each header joins exactly one ring "
    "under complementary guards and only the primary ring is searched; (O5) the inputs are not modified (no store or "
    "mutator call on matrix/columns/secondary or their aliases, through _build_links) and no randomness/global state "
    "is used; (O6) verdict guards: INFEASIBLE only when the iteration budget did not fire and no solution was found, "
    "find_all OPTIMAL only when the max_solutions cut did not fire. (O7) link construction and the steps of Algorithm X, statement group by statement group. NOT decided: that the returned selections are "
    "exactly the exact covers (Knuth's argument from O1-O4 is not mechanised)."
)

OPP = {"up": "down", "down": "up", "left": "right", "right": "left"}


def _loops(fn):
    """[(loop var, start attr, advance attr, body)] for `v = X.a; while v is not X: ...; v = v.a`"""
    out = []
    for n in ast.walk(fn):
        if isinstance(n, ast.While) and isinstance(n.test, ast.Compare) and isinstance(n.test.ops[0], ast.IsNot) and isinstance(n.test.left, ast.Name):
            v = n.test.left.id
            adv = None
            for s in n.body:
                if isinstance(s, ast.Assign) and isinstance(s.targets[0], ast.Name) and s.targets[0].id == v and isinstance(s.value, ast.Attribute) and isinstance(s.value.value, ast.Name) and s.value.value.id == v:
                    adv = s.value.attr
            out.append((v, adv, n))
    return out


def _link_ops(fn):
    """primitive link statements: ('unlink'|'relink', d1, d2, var) for `V.d1.d2 = V.d2'` / `V.d1.d2 = V`; ('size', +1/-1)"""
    ops = []
    for n in ast.walk(fn):
        if isinstance(n, ast.Assign) and isinstance(n.targets[0], ast.Attribute) and isinstance(n.targets[0].value, ast.Attribute) and isinstance(n.targets[0].value.value, ast.Name):
            v, d1, d2 = n.targets[0].value.value.id, n.targets[0].value.attr, n.targets[0].attr
            if isinstance(n.value, ast.Name) and n.value.id == v:
                ops.append(("relink", d1, d2, v, n))
            elif isinstance(n.value, ast.Attribute) and isinstance(n.value.value, ast.Name) and n.value.value.id == v:
                ops.append(("unlink", d1, d2, v, n, n.value.attr))
        elif isinstance(n, ast.AugAssign) and isinstance(n.target, ast.Attribute) and n.target.attr == "size" and isinstance(n.value, ast.Constant) and n.value.value == 1:
            ops.append(("size", +1 if isinstance(n.op, ast.Add) else -1, n))
    return ops


def _links_change_only_in_search(ctx: Ctx, api):
    """Who may change the link structure and the row stack: only the search closures, where every cover is undone by
    its uncover and every push by its pop.  A cover or a push in solve_exact_cover's own body (a presolve step) has no
    partner; whatever it removes stays removed for the whole search."""
    bad = []
    for n in own_nodes(api.node):
        if isinstance(n, ast.Call) and isinstance(n.func, ast.Name) and n.func.id in ("_cover", "_uncover"):
            bad.append(n)
        elif isinstance(n, ast.Call) and isinstance(n.func, ast.Attribute) and isinstance(n.func.value, ast.Name) and n.func.value.id == "current" and n.func.attr in ("append", "pop", "extend", "insert", "remove", "clear"):
            bad.append(n)
    ctx.ob("C07-O2", "R27 WRITE-OWNERSHIP", api, "columns are covered / uncovered and rows pushed / popped only inside the search closures (solve_exact_cover's own body does neither)", not bad, f"`{ast.unparse(bad[0])[:60]}` at line {bad[0].lineno} runs outside the search: it has no inverse, and a ring that is walked while it is being unlinked visits columns that are already covered" if bad else "", node=bad[0] if bad else api.node)


def _secondary_set_is_the_callers(ctx: Ctx, build):
    """Which columns need not be covered is the caller's decision: the set of secondary names is built once from the
    `secondary` argument and nothing is added to or taken from it."""
    defs = [n for n in own_nodes(build.node) if isinstance(n, ast.Assign) and len(n.targets) == 1 and ast.unparse(n.targets[0]) == "secondary_set"]
    muts = [n for n in own_nodes(build.node) if isinstance(n, ast.Call) and isinstance(n.func, ast.Attribute) and isinstance(n.func.value, ast.Name) and n.func.value.id == "secondary_set" and n.func.attr in ("add", "update", "discard", "remove", "pop", "clear", "difference_update", "intersection_update", "symmetric_difference_update")]
    muts += [n for n in own_nodes(build.node) if isinstance(n, ast.AugAssign) and ast.unparse(n.target) == "secondary_set"]
    ok = len(defs) == 1 and ast.unparse(defs[0].value) in ("set(secondary) if secondary else set()", "set(secondary or ())", "set(secondary or [])") and not muts
    ctx.ob("C07-O4", "R27 WRITE-OWNERSHIP", build, "the set of optional columns is the caller's `secondary` and nothing else", ok, (f"`{ast.unparse(muts[0])[:60]}`: a primary column that is demoted is no longer required to be covered - selections that miss it (or hit it twice) are returned as exact covers" if muts else f"{len(defs)} definition(s): {[ast.unparse(d.value)[:50] for d in defs]}"), node=muts[0] if muts else build.node)


def _sizes_are_exact_and_cover_is_total(ctx: Ctx):
    """`size` is the number of nodes under a header - of every header, secondary ones included: it is bumped wherever a
    node is hung into a column, with no condition of its own.  And `_cover` / `_uncover` walk the whole column: neither
    has a way out before the walk.  (Each half of 'secondary columns need no size' + 'an empty column needs no cover'
    is harmless alone; together a secondary column is never hidden from the rows that share it.)"""
    build = ctx.func("dlx", "_build_links")
    cfg = cfg_of(build.node)
    gv = GuardView(cfg)
    hangs = [n for n in own_nodes(build.node) if isinstance(n, ast.Assign) and ast.unparse(n.targets[0]) == "col.up" and ast.unparse(n.value) == "node"]
    bumps = [n for n in own_nodes(build.node) if isinstance(n, ast.AugAssign) and ast.unparse(n.target) == "col.size"]
    ctx.floor("node insertions in _build_links", len(hangs), 1)
    ok = len(hangs) == len(bumps) == 1
    if ok:
        a_h = {a for a in gv.guard_atoms(cfg.node_of(hangs[0]), stable_only=False)}
        a_b = {a for a in gv.guard_atoms(cfg.node_of(bumps[0]), stable_only=False)}
        ok = a_h == a_b and isinstance(bumps[0].op, ast.Add) and ast.unparse(bumps[0].value) == "1"
    ctx.ob("C07-O1", "R16 PAIRED-EFFECTS", build, "hanging a node into a column and counting it in the header's size happen under the same conditions", ok, (f"size bumped under {sorted(a_b - a_h)[:3]} only" if len(hangs) == len(bumps) == 1 and not ok else "") + ": a header whose size is not the number of its nodes misleads every reader of it (the MRV scan, an emptiness test)", node=bumps[0] if bumps else build.node)
    for name in ("_cover", "_uncover"):
        g = ctx.func("dlx", name)
        exits = [n for n in own_nodes(g.node) if isinstance(n, (ast.Return, ast.Raise, ast.Break))]
        ctx.ob("C07-O1", "R12 NO-CARDINALITY-CUTOFF", g, f"{name} has no way out before it has walked the column", not exits, f"`{ast.unparse(exits[0])}` at line {exits[0].lineno}: a column that is unlinked from the header ring without hiding its rows leaves them selectable - the column can be used twice" if exits else "", node=exits[0] if exits else g.node)


def _builder_declines_for_the_matrix_only(ctx: Ctx):
    """`_build_links` returns no root - and the caller answers with the empty selection - for a matrix without rows or
    without columns, and for nothing else: what the caller passes as names or as secondary columns does not make the
    columns of the matrix go away (an empty names list means 'no names')."""
    import re

    build = ctx.func("dlx", "_build_links")
    cfg = cfg_of(build.node)
    gv = GuardView(cfg)
    outs = [n for n in own_nodes(build.node) if isinstance(n, ast.Return) and isinstance(n.value, ast.Tuple) and n.value.elts and isinstance(n.value.elts[0], ast.Constant) and n.value.elts[0].value is None]
    ctx.floor("no-root returns of _build_links", len(outs), 1)
    for r in outs:
        at = gv.guard_atoms(cfg.node_of(r), stable_only=False)
        names = {w for a in at for w in re.findall(r"[A-Za-z_]\w*", a)} - {"OR", "NAND", "AND", "F", "T", "not", "None", "is", "in", "and", "or", "len", "IN", "LOOP", "AFTER"}
        ctx.ob("C07-O6", "R1 STATUS-GUARD", build, "the builder declines (no root: the caller answers the empty selection) only for a matrix without rows or without columns", bool(at) and names <= {"matrix"}, f"declines under {sorted(at)}: a names list or a secondary set that is empty says nothing about the columns of the matrix, and a matrix with primary columns is answered OPTIMAL with the empty selection", node=r)


def run(ctx: Ctx):
    ctx.step(_builder_declines_for_the_matrix_only)
    cover = ctx.func("dlx", "_cover")
    uncover = ctx.func("dlx", "_uncover")
    api = ctx.func("dlx", "solve_exact_cover")
    ctx.step(_links_change_only_in_search, api)
    ctx.step(_secondary_set_is_the_callers, ctx.func("dlx", "_build_links"))
    ctx.step(_sizes_are_exact_and_cover_is_total)
    # ---- O2 (shape-independent part, decided before any search anchor is needed): wherever a closure of
    # solve_exact_cover covers a sequence of columns in a loop and uncovers it in another, the second loop runs the
    # sequence backwards - a ring walked right is undone walking left, a list walked forwards is undone reversed
    n_pairs = 0
    for q, g in sorted(ctx.repo.module("dlx").funcs.items()):
        if not q.startswith("solve_exact_cover."):
            continue

        def sig(loop):
            if isinstance(loop, ast.For):
                it = loop.iter
                if isinstance(it, ast.Name):
                    return ("list", it.id, "fwd")
                if isinstance(it, ast.Call) and ast.unparse(it.func) == "reversed" and len(it.args) == 1 and isinstance(it.args[0], ast.Name):
                    return ("list", it.args[0].id, "rev")
                if isinstance(it, ast.Subscript) and isinstance(it.value, ast.Name) and ast.unparse(it.slice) == "::-1":
                    return ("list", it.value.id, "rev")
                return ("list", ast.unparse(it), "?")
            for v, adv, lp in _loops(g.node):
                if lp is loop:
                    anchor = ast.unparse(loop.test.comparators[0])
                    return ("ring", anchor, adv)
            return None

        cov, unc = [], []
        for lp in [n for n in own_nodes(g.node) if isinstance(n, (ast.For, ast.While))]:
            direct = [c for st_ in lp.body for c in ast.walk(st_) if isinstance(c, ast.Call) and isinstance(c.func, ast.Name) and c.func.id in ("_cover", "_uncover")]
            inner_loops = [x for st_ in lp.body for x in ast.walk(st_) if isinstance(x, (ast.For, ast.While))]
            direct = [c for c in direct if not any(c in list(ast.walk(il)) for il in inner_loops)]
            for c in direct:
                (cov if c.func.id == "_cover" else unc).append((sig(lp), lp))
        for sc, lc_ in cov:
            for su, lu_ in unc:
                if sc is None or su is None or sc[:2] != su[:2]:
                    continue
                n_pairs += 1
                ctx.touch(g)
                opposite = {"fwd": "rev", "rev": "fwd", "right": "left", "left": "right", "down": "up", "up": "down"}
                ctx.ob("C07-O2", "R15 INVERSE-PAIR", g, f"{q.split('.', 1)[1]}: the columns covered over `{sc[1]}` ({sc[2]}) are uncovered in the reverse order", opposite.get(sc[2]) == su[2], f"cover runs {sc[2]}, uncover runs {su[2]}: uncovering in covering order relinks a column while later covers still hide part of its rows - sizes and links end up corrupted, covers go missing or INFEASIBLE is reported for a matrix that has one", node=lu_)
    ctx.floor("cover/uncover loop pairs in the search closures", n_pairs, 1)
    search = ctx.func("dlx", "solve_exact_cover.search")
    build = ctx.func("dlx", "_build_links")

    # ---- O1 inverse
    lc, lu = _loops(cover.node), _loops(uncover.node)
    ctx.require(len(lc) == 2 and len(lu) == 2, "cover/uncover no longer have two nested ring walks each")
    dirs_c = sorted(a for _, a, _ in lc if a)
    dirs_u = sorted(a for _, a, _ in lu if a)
    ctx.ob("C07-O1", "R15 INVERSE-PAIR", cover, "cover walks (down, right), uncover walks (up, left)", dirs_c == ["down", "right"] and dirs_u == ["left", "up"], f"cover {dirs_c}, uncover {dirs_u}", node=cover.node)
    # start of each walk = one step in the walk's own direction from the anchor
    for f, loops in ((cover, lc), (uncover, lu)):
        for v, adv, loop in loops:
            inits = [s for s in ast.walk(f.node) if isinstance(s, ast.Assign) and isinstance(s.targets[0], ast.Name) and s.targets[0].id == v and isinstance(s.value, ast.Attribute) and s.value.value.id != v]
            ok = len(inits) == 1 and inits[0].value.attr == adv and inits[0].value.value.id == loop.test.comparators[0].id
            ctx.ob("C07-O1", "R15 INVERSE-PAIR", f, f"ring walk `{v}` starts one `{adv}` step from its anchor and stops at the anchor", ok, "", node=loop)
    oc, ou = _link_ops(cover.node), _link_ops(uncover.node)
    un = {(o[1], o[2]) for o in oc if o[0] == "unlink"}
    un_ok = all(o[5] == o[2] and OPP[o[1]] == o[2] for o in oc if o[0] == "unlink")
    re_ = {(o[1], o[2]) for o in ou if o[0] == "relink"}
    re_ok = all(OPP[o[1]] == o[2] for o in ou if o[0] == "relink")
    want = {("down", "up"), ("up", "down"), ("left", "right"), ("right", "left")}
    ctx.ob("C07-O1", "R15 INVERSE-PAIR", cover, "cover unlinks {down.up, up.down} per row node and {right.left, left.right} for the header, nothing else", un == want and un_ok and not [o for o in oc if o[0] == "relink"], f"{sorted(un)}", node=cover.node)
    ctx.ob("C07-O1", "R15 INVERSE-PAIR", uncover, "uncover relinks exactly what cover unlinks", re_ == un and re_ok and not [o for o in ou if o[0] == "unlink"], f"cover {sorted(un)} / uncover {sorted(re_)}", node=uncover.node)
    sz_c = [o[1] for o in oc if o[0] == "size"]
    sz_u = [o[1] for o in ou if o[0] == "size"]
    ctx.ob("C07-O1", "R15 INVERSE-PAIR", cover, "column size decremented once per unlinked node, incremented once per relinked node", sz_c == [-1] and sz_u == [+1], f"cover {sz_c}, uncover {sz_u}", node=cover.node)
    # vertical (un)links and size live in the inner walk; header (un)link outside the loops, first in cover, last in uncover
    def header_pos(f, kind):
        body = f.node.body
        idx = [i for i, s in enumerate(body) if isinstance(s, ast.Assign) and any(o[4] is s for o in _link_ops(f.node) if o[0] == kind and o[1] in ("left", "right"))]
        loop_idx = [i for i, s in enumerate(body) if isinstance(s, ast.While)]
        return idx, loop_idx
    hi, li = header_pos(cover, "unlink")
    ctx.ob("C07-O1", "R15 INVERSE-PAIR", cover, "header is unlinked before the rows are unlinked", len(hi) == 2 and li and max(hi) < min(li), "", node=cover.node)
    hi, li = header_pos(uncover, "relink")
    ctx.ob("C07-O1", "R15 INVERSE-PAIR", uncover, "header is relinked after the rows are relinked", len(hi) == 2 and li and min(hi) > max(li), "", node=uncover.node)
    for f, ops, kinds in ((cover, oc, "unlink"), (uncover, ou, "relink")):
        inner = [l for l in _loops(f.node) if l[1] in ("right", "left")][0][2]
        inner_stmts = {id(s) for s in ast.walk(inner)}
        vert = [o for o in ops if o[0] == kinds and o[1] in ("up", "down")]
        ctx.ob("C07-O1", "R15 INVERSE-PAIR", f, "vertical links and size change happen in the inner (row) walk on the walked node", all(id(o[4]) in inner_stmts and o[3] == _loops(f.node)[0][0] or id(o[4]) in inner_stmts for o in vert) and all(id(o[2]) in inner_stmts for o in ops if o[0] == "size"), "", node=inner)
        walker = [l for l in _loops(f.node) if l[1] in ("right", "left")][0][0]
        sizes = [n for n in ast.walk(inner) if isinstance(n, ast.AugAssign) and isinstance(n.target, ast.Attribute) and n.target.attr == "size"]
        ctx.ob("C07-O1", "R15 INVERSE-PAIR", f, "the size that changes is that of the column the walked node hangs in (`<walked node>.column.size`)", bool(sizes) and all(ast.unparse(n.target) == f"{walker}.column.size" for n in sizes), f"{[ast.unparse(n.target) for n in sizes]} in the walk of `{walker}`: counting on another node's column leaves the counters of the columns that do lose (or regain) a node wrong after the first cover / uncover pair - a column that still has rows reads 0, the search takes it for a dead end, and covers are missed", node=sizes[0] if sizes else f.node)

    # ---- O2 pairing in search
    cfg = cfg_of(search.node)
    gv = GuardView(cfg)

    def calls(name, argtext=None):
        out = []
        for n in own_nodes(search.node):
            if isinstance(n, ast.Call) and isinstance(n.func, ast.Name) and n.func.id == name and (argtext is None or ast.unparse(n.args[0]) == argtext):
                out.append(cfg.stmt_node_containing(n))
        return out

    def true_return(n):
        return n.kind == "return" and n.ast is not None and isinstance(n.ast.value, ast.Constant) and n.ast.value.value is True

    def must_release(acq, rel, what):
        reach = cfg.forward(acq, avoid={r.id for r in rel})
        leaks = [cfg.nodes[i] for i in reach if cfg.nodes[i].kind == "return" and not true_return(cfg.nodes[i])]
        ctx.ob("C07-O2", "R16 PAIRED-EFFECTS", search, f"{what}: every continuing exit passes the release", bool(rel) and not leaks, f"{len(leaks)} continuing return(s) reachable without release" if leaks else "only `return True` (structure abandoned) skips it", node=acq.ast)

    cm = calls("_cover", "min_col")
    um = calls("_uncover", "min_col")
    ctx.require(len(cm) == 1, "_cover(min_col) not found exactly once in search")
    must_release(cm[0], um, "_cover(min_col)")
    # row loop
    row_loops = [l for l in _loops(search.node) if l[1] == "down"]
    ctx.require(len(row_loops) == 1, "row loop (walking down the chosen column) not found")
    rv, _, rloop = row_loops[0]
    rhead = cfg.stmt_node_containing(rloop.test)
    def _direct(lp, name):
        inner = [x for st_ in lp.body for x in ast.walk(st_) if isinstance(x, (ast.For, ast.While))]
        return [c for st_ in lp.body for c in ast.walk(st_) if isinstance(c, ast.Call) and isinstance(c.func, ast.Name) and c.func.id == name and not any(c in list(ast.walk(il)) for il in inner)]

    in_row = [n for n in ast.walk(rloop) if isinstance(n, (ast.For, ast.While)) and n is not rloop]
    cov_any = [lp for lp in in_row if _direct(lp, "_cover")]
    unc_any = [lp for lp in in_row if _direct(lp, "_uncover")]
    ring = {id(l[2]): l for l in _loops(rloop)}
    list_form = len(cov_any) == 1 and len(unc_any) == 1 and isinstance(cov_any[0], ast.For) and isinstance(unc_any[0], ast.For)
    if list_form:
        # list idiom: the row's other columns are collected in one ring walk anchored at the row node, covered in list
        # order and uncovered in reverse list order (the order itself is C07-O2's first obligation above)
        lname = cov_any[0].iter.id if isinstance(cov_any[0].iter, ast.Name) else None
        fill = [l for l in _loops(rloop) if l[1] in ("right", "left") and lname and f"{lname}.append({l[0]}.column)" in ast.unparse(l[2]) and ast.unparse(l[2].test.comparators[0]) == rv]
        fresh = [x for x in rloop.body if isinstance(x, (ast.Assign, ast.AnnAssign)) and ast.unparse(x.targets[0] if isinstance(x, ast.Assign) else x.target) == lname and ast.unparse(x.value) == "[]"]
        tv = ast.unparse(cov_any[0].target)
        okl = len(fill) == 1 and len(fresh) == 1 and f"_cover({tv})" in ast.unparse(cov_any[0]) and f"_uncover({ast.unparse(unc_any[0].target)})" in ast.unparse(unc_any[0]) and lname in names_in(unc_any[0].iter)
        ctx.ob("C07-O2", "R16 PAIRED-EFFECTS", search, "row columns are collected in one walk around the row (a fresh list per row), covered from the list and uncovered from the same list", okl, "", node=rloop)
        ch = cfg.stmt_node_containing(cov_any[0].iter)
        uh = cfg.stmt_node_containing(unc_any[0].iter)
        cov_anchor = cov_any[0]
    else:
        cov_loops = [l for l in _loops(rloop) if l[1] == "right" and "_cover" in ast.unparse(l[2])]
        unc_loops = [l for l in _loops(rloop) if l[1] == "left" and "_uncover" in ast.unparse(l[2])]
        ctx.ob("C07-O2", "R16 PAIRED-EFFECTS", search, "row columns are covered walking right and uncovered walking left (LIFO)", len(cov_loops) == 1 and len(unc_loops) == 1, f"cover walks {[l[1] for l in _loops(rloop) if '_cover(' in ast.unparse(l[2])]}, uncover walks {[l[1] for l in _loops(rloop) if '_uncover(' in ast.unparse(l[2])]}", node=rloop)
        ch = uh = cov_anchor = None
        if cov_loops and unc_loops:
            ch = cfg.stmt_node_containing(cov_loops[0][2].test)
            uh = cfg.stmt_node_containing(unc_loops[0][2].test)
            cov_anchor = cov_loops[0][2]
            same_anchor = ast.unparse(cov_loops[0][2].test.comparators[0]) == ast.unparse(unc_loops[0][2].test.comparators[0]) == rv
            ctx.ob("C07-O2", "R16 PAIRED-EFFECTS", search, "cover and uncover walks share the row node as anchor and (un)cover `node.column`", same_anchor and "_cover(node.column)" in ast.unparse(cov_loops[0][2]) and "_uncover(node.column)" in ast.unparse(unc_loops[0][2]), "", node=cov_loops[0][2])
    if ch is not None:
        # from the cover loop, the row loop's back edge is reachable only through the uncover loop
        reach = cfg.forward(ch, avoid={uh.id})
        ctx.ob("C07-O2", "R16 PAIRED-EFFECTS", search, "row covers are undone before the next row is tried", rhead.id not in reach, "", node=cov_anchor)
        leaks = [cfg.nodes[i] for i in reach if cfg.nodes[i].kind == "return" and not true_return(cfg.nodes[i])]
        ctx.ob("C07-O2", "R16 PAIRED-EFFECTS", search, "row covers: only `return True` exits skip the uncover walk", not leaks, "", node=cov_anchor)
    push = [cfg.stmt_node_containing(n) for n in own_nodes(search.node) if isinstance(n, ast.Call) and ast.unparse(n.func) == "current.append"]
    pop = [cfg.stmt_node_containing(n) for n in own_nodes(search.node) if isinstance(n, ast.Call) and ast.unparse(n.func) == "current.pop"]
    ctx.require(len(push) == 1, "partial-solution push not found")
    reach = cfg.forward(push[0], avoid={p.id for p in pop})
    ctx.ob("C07-O2", "R16 PAIRED-EFFECTS", search, "partial solution: push of the row is popped before the next row", bool(pop) and rhead.id not in reach, "", node=push[0].ast)
    ctx.ob("C07-O2", "R16 PAIRED-EFFECTS", search, "partial solution records the row index of the tried row", ast.unparse(push[0].ast) == f"current.append({rv}.row)", "", node=push[0].ast)

    # ---- O3 every row tried
    adv = [cfg.node_of(s) for s in rloop.body if isinstance(s, ast.Assign) and isinstance(s.targets[0], ast.Name) and s.targets[0].id == rv]
    ctx.require(len(adv) == 1, "row advance statement not found at the top level of the row loop")
    skip = rhead.id in cfg.forward([cfg.nodes[i] for i in cfg.succ[rhead.id] if cfg.nodes[i].pol is True][0], avoid={adv[0].id})
    ctx.ob("C07-O3", "R29 EXACTLY-ONCE", search, "every continuing path through the row loop advances to the next row (no row skipped, none retried)", not skip, "", node=rloop)
    inits = [s for s in own_nodes(search.node) if isinstance(s, ast.Assign) and isinstance(s.targets[0], ast.Name) and s.targets[0].id == rv and s not in rloop.body]
    ctx.ob("C07-O3", "R29 EXACTLY-ONCE", search, "row loop starts at the first row of the chosen column and ends at its header", len(inits) == 1 and ast.unparse(inits[0].value) == "min_col.down" and ast.unparse(rloop.test.comparators[0]) == "min_col", "", node=rloop)
    # prune guard before covering
    prunes = [n for n in cfg.nodes if n.kind == "return" and n.ast is not None and isinstance(n.ast.value, ast.Constant) and n.ast.value.value is False and cfg.dominates(n, n) and n.id in cfg.backward(cm[0]) | set()]
    pre = [n for n in cfg.nodes if n.kind == "return" and n.ast is not None and not cfg.dominates(cm[0], n) and n.id not in cfg.forward(cm[0])]
    for n in pre:
        at = gv.guard_atoms(n)
        v = ast.unparse(n.ast.value) if n.ast.value is not None else "None"
        if v == "False":
            ok = atom_of("iterations > max_iter") in at or any(a.startswith("OR(") and "0 == min_size" in a for a in at) or atom_of("min_size == 0") in at or "T:root.right is root" in at or "root is root.right" in at or "root.right is root" in at
            ctx.ob("C07-O3", "R1 STATUS-GUARD", search, "branch abandoned before covering only on budget, on a column of size 0, or after recording a solution", ok, f"guards {sorted(at)}", node=n.ast)
    # min column selection: strict < comparison over the primary ring from root.right to root
    col_loops = [l for l in _loops(search.node) if l[1] == "right" and l[0] == "col"]
    ok = len(col_loops) == 1 and ast.unparse(col_loops[0][2].test.comparators[0]) == "root"
    txt = ast.unparse(col_loops[0][2]) if col_loops else ""
    ctx.ob("C07-O3", "R29 EXACTLY-ONCE", search, "column choice scans the whole primary ring for the minimum size", ok and "col.size < min_size" in txt and "min_col = col" in txt, "", node=search.node)
    sol_rec = [n for n in own_nodes(search.node) if isinstance(n, ast.Call) and ast.unparse(n.func) == "solutions.append"]
    ctx.require(len(sol_rec) == 1, "solution record not found")
    at = gv.guard_atoms(cfg.stmt_node_containing(sol_rec[0]))
    ctx.ob("C07-O3", "R1 STATUS-GUARD", search, "a selection is recorded only when the primary ring is empty, as a snapshot of the partial solution", ("root is root.right" in at or "root.right is root" in at) and ast.unparse(sol_rec[0].args[0]) == "tuple(current)", f"{sorted(at)}", node=sol_rec[0])

    # ---- O4 ring separation
    bcfg = cfg_of(build.node)
    bgv = GuardView(bcfg)
    ring_stores = []
    for n in own_nodes(build.node):
        if isinstance(n, ast.Assign) and ast.unparse(n.targets[0]) == "col.left":
            at = bgv.guard_atoms(bcfg.node_of(n))
            ring_stores.append((ast.unparse(n.value), at, n))
    ctx.floor("header ring link sites", len(ring_stores), 2)
    prim = [r for r in ring_stores if "name not in secondary_set" in r[1]]
    sec = [r for r in ring_stores if "name in secondary_set" in r[1]]
    ctx.ob("C07-O4", "R1 STATUS-GUARD", build, "a header joins the primary ring iff it is not secondary, the secondary ring iff it is", len(prim) == 1 and len(sec) == 1 and prim[0][0] != sec[0][0], f"link sites {[(v, sorted(a for a in at if 'secondary' in a)) for v, at, _ in ring_stores]}", node=build.node)
    rets = [n for n in own_nodes(build.node) if isinstance(n, ast.Return) and isinstance(n.value, ast.Tuple)]
    ctx.ob("C07-O4", "R1 STATUS-GUARD", build, "the search root returned is the primary ring's root", any(ast.unparse(r.value.elts[0]) == "root" for r in rets), "", node=build.node)
    # each 1-cell becomes one node appended at the bottom of its column, size incremented
    bt = ast.unparse(build.node)
    ok = all(x in bt for x in ("node.up = col.up", "node.down = col", "col.up.down = node", "col.up = node", "col.size += 1"))
    ctx.ob("C07-O4", "R15 INVERSE-PAIR", build, "cell insertion appends the node at the bottom of its column and counts it", ok, "", node=build.node)

    # the row id stored in a node is the position of that row in the caller's matrix (the solution is a tuple of them)
    mk = [n for n in own_nodes(build.node) if isinstance(n, ast.Call) and ast.unparse(n.func) == "_Node" and any(k.arg == "row" for k in n.keywords)]
    ctx.floor("row node constructions in _build_links", len(mk), 1)

    def length_preserving(e, depth=0):
        """`matrix`, or a name whose every definition maps the rows of such a list one-to-one (no filter)"""
        if isinstance(e, ast.Name) and e.id == "matrix":
            return not any(isinstance(x, ast.Name) and x.id == "matrix" and isinstance(x.ctx, ast.Store) for x in ast.walk(build.node))
        if isinstance(e, ast.Name) and depth < 3:
            defs = [d.value for d in own_nodes(build.node) if isinstance(d, ast.Assign) and ast.unparse(d.targets[0]) == e.id]
            return bool(defs) and all(isinstance(d, ast.ListComp) and len(d.generators) == 1 and not d.generators[0].ifs and length_preserving(d.generators[0].iter, depth + 1) for d in defs)
        return False

    for c in mk:
        rv = next(k.value for k in c.keywords if k.arg == "row")
        lp = bcfg.stmt_node_containing(c).loop
        idx_loop = None
        while lp is not None:
            if lp.kind == "for" and isinstance(lp.ast.target, ast.Tuple) and ast.unparse(lp.ast.target.elts[0]) == ast.unparse(rv):
                idx_loop = lp.ast
            lp = lp.loop
        ok = idx_loop is not None and isinstance(idx_loop.iter, ast.Call) and ast.unparse(idx_loop.iter.func) == "enumerate" and len(idx_loop.iter.args) == 1 and length_preserving(idx_loop.iter.args[0])
        ctx.ob("C07-O4", "R5 PAIRING", build, "the row id stored in each node is the row's index in the caller's matrix", ok, f"`row={ast.unparse(rv)}` is bound by `{ast.unparse(idx_loop.iter) if idx_loop is not None else '?'}`: enumerating a filtered or re-ordered copy renumbers the rows, and the reported selection no longer names rows of the input", node=c)

    # ---- O5 immutability / determinism
    muts = param_mutations(ctx.repo, api, {"matrix", "columns", "secondary"})
    ctx.ob("C07-O5", "R17 PARAM-IMMUTABLE", api, "matrix / columns / secondary are never mutated (through _build_links)", not muts, "; ".join(f"{g.qualname}: {k} on {p} at line {n.lineno}" for g, p, k, n in muts), node=api.node)
    nd = nondeterminism_sources(ctx.repo, api)
    ctx.ob("C07-O5", "R8 DETERMINISM", api, "no randomness, clock or global state in the solver's call closure", not nd, "; ".join(f"{g.qualname}: {w}" for g, w, _ in nd), node=api.node)
    mod = ctx.repo.module("dlx")
    mutable_globals = [ast.unparse(t) for s in mod.tree.body if isinstance(s, ast.Assign) and isinstance(s.value, (ast.List, ast.Dict, ast.Set)) for t in s.targets if ast.unparse(t) != "__all__"]
    ctx.ob("C07-O5", "R8 DETERMINISM", api, "module has no mutable module-level state", not mutable_globals, f"{mutable_globals}", node=api.node)

    # ---- O6 verdicts
    acfg = cfg_of(api.node)
    agv = GuardView(acfg)
    sites = result_sites(api)
    ctx.floor("Result sites in solve_exact_cover", len(sites), 7)
    # under find_all the solution field is a list of covers at every site that publishes covers (a bare tuple read as a
    # list of covers is 'no cover'), without find_all it is one cover
    parents = {id(c): p_ for p_ in ast.walk(api.node) for c in ast.iter_child_nodes(p_)}
    n_forms = 0
    for k, s in enumerate(sites):
        sol = s.arg("solution")
        if sol is None or ast.unparse(sol) == "None":
            continue
        if isinstance(sol, ast.Name) and sol.id != "solutions":
            ds = [d.value for d in own_nodes(api.node) if isinstance(d, ast.Assign) and ast.unparse(d.targets[0]) == sol.id]
            if len(ds) == 1:
                sol = ds[0]
        fa = None
        at0 = agv.guard_atoms(s.node, stable_only=False)
        if "T:find_all" in at0:
            fa = True
        elif "F:find_all" in at0:
            fa = False
        par = parents.get(id(s.call))
        if isinstance(par, ast.IfExp) and ast.unparse(par.test) == "find_all":
            fa = par.body is s.call
        forms = []
        for e in ([sol.body, sol.orelse] if isinstance(sol, ast.IfExp) and ast.unparse(sol.test) == "find_all" else [sol]):
            forms.append("list" if isinstance(e, ast.List) or ast.unparse(e) == "solutions" else "one")
        if isinstance(sol, ast.IfExp) and ast.unparse(sol.test) == "find_all":
            okf = forms == ["list", "one"]
        elif fa is None:
            okf = False
        else:
            okf = forms == (["list"] if fa else ["one"])
        n_forms += 1
        ctx.ob("C07-O6", "R18 table", api, f"Result#{k} publishes a list of covers exactly under find_all", okf, f"solution `{ast.unparse(sol)[:40]}` with find_all {'on' if fa else 'off' if fa is False else 'undetermined'}: a caller that iterates over the covers of an empty matrix gets none, although the empty selection is the one cover", node=s.call)
    ctx.floor("cover-publishing Result sites", n_forms, 5)
    for k, s in enumerate(sites):
        at = agv.guard_atoms(s.node)
        if "INFEASIBLE" in s.statuses:
            ctx.ob("C07-O6", "R1 STATUS-GUARD", api, f"Result#{k} INFEASIBLE only when no solution was found and the iteration budget did not fire", "F:solutions" in at and atom_of("iterations <= max_iter") in at, f"{sorted(at)}", node=s.call)
        if "MAX_ITER" in s.statuses:
            ctx.ob("C07-O6", "R1 STATUS-GUARD", api, f"Result#{k} MAX_ITER only under the exhausted iteration budget", atom_of("iterations > max_iter") in at, f"{sorted(at)}", node=s.call)
        if "OPTIMAL" in s.statuses and not any(a in at for a in ("F:matrix", "root is None")):
            budget_ok = atom_of("iterations <= max_iter") in at
            ctx.ob("C07-O6", "R2 BUDGET-EXIT", api, f"Result#{k} OPTIMAL not reachable after the iteration budget fired", budget_ok, f"{sorted(at)}", node=s.call)
            st = s.arg("status")
            if isinstance(st, ast.Name):
                defs = [d.value for d in own_nodes(api.node) if isinstance(d, ast.Assign) and ast.unparse(d.targets[0]) == st.id]
                ok = len(defs) == 1 and isinstance(defs[0], ast.IfExp)
                if ok:
                    d = defs[0]
                    cut = "max_solutions and len(solutions) >= max_solutions"
                    ok = (ast.unparse(d.test) == cut and ast.unparse(d.orelse) == "Status.OPTIMAL" and ast.unparse(d.body) != "Status.OPTIMAL") or (ast.unparse(d.test) == f"not ({cut})" and ast.unparse(d.body) == "Status.OPTIMAL")
                ctx.ob("C07-O6", "R2 BUDGET-EXIT", api, f"Result#{k} find_all OPTIMAL only when the max_solutions cut did not fire", ok, "", node=s.call)
    # ---- O7 construction of the links and the steps of Algorithm X, statement group by statement group
    from .sat_common import _need

    ctx.step(_need, "C07-O7", "R16 PAIRED-EFFECTS", build, "primary headers are chained left to right behind the root and the ring is closed; secondary headers form their own closed ring", ["if name not in secondary_set:\n            col.left = prev\n            prev.right = col\n            prev = col", "prev.right = root\n    root.left = prev", "if name in secondary_set:\n            col.left = prev_sec\n            prev_sec.right = col\n            prev_sec = col", "prev_sec.right = secondary_root\n    secondary_root.left = prev_sec", "col_headers.append(col)"])
    ctx.step(_need, "C07-O7", "R16 PAIRED-EFFECTS", build, "the nodes of a row are chained in column order and closed into a ring; only cells holding a 1 get a node", ["for col_idx, val in enumerate(row):\n            if val:", "if first is None:\n                    first = node\n                    prev_node = node\n                else:\n                    node.left = prev_node\n                    prev_node.right = node\n                    prev_node = node", "if first is not None and prev_node is not None:\n            first.left = prev_node\n            prev_node.right = first"])
    ctx.step(_need, "C07-O7", "R1 STATUS-GUARD", search, "a cover is complete exactly when the primary ring is empty; it is recorded as the current row stack", ["if root.right is root:\n        solutions.append(tuple(current))\n        if not find_all:\n            return True\n        if max_solutions and len(solutions) >= max_solutions:\n            return True\n        return False"])
    ctx.step(_need, "C07-O7", "R21 search discipline", search, "the column with the fewest candidate rows is chosen; an uncoverable column ends the branch", ["min_col = None\n    min_size = float('inf')\n    col = root.right\n    while col is not root:\n        if col.size < min_size:\n            min_size = col.size\n            min_col = col\n            if min_size == 0:\n                break\n        col = col.right", "if min_size == 0 or min_col is None:\n        return False"])
    ctx.step(_need, "C07-O7", "R15 INVERSE-PAIR", search, "trying a row: push it, cover its other columns left to right, recurse, pop it, uncover them right to left; finally uncover the chosen column", ["_cover(min_col)", "current.append(row_node.row)\n        node = row_node.right\n        while node is not row_node:\n            _cover(node.column)\n            covers += 1\n            node = node.right", "current.pop()\n        node = row_node.left\n        while node is not row_node:\n            _uncover(node.column)\n            node = node.left\n        row_node = row_node.down", "_uncover(min_col)\n    return False", "if search():\n            if not find_all:\n                return True\n            if max_solutions and len(solutions) >= max_solutions:\n                return True"])
    ctx.step(_need, "C07-O7", "R1 STATUS-GUARD", search, "the iteration budget is counted per call and ends the search", ["iterations += 1\n    if iterations > max_iter:\n        return False"])
    generic_sweeps(ctx)


# ---------------------------------------------------------------------------------------------
from sa import mutate as M  # noqa: E402

DLX = "solvor/dlx.py"


def _v_builder_declines_for_empty_names(tree):
    g = M.find_func(tree, "_build_links")
    M.replace_expr(g, lambda e: M.src_is(e, "not matrix or not matrix[0]"), M.expr("not matrix or not matrix[0] or (columns is not None and not columns)"))


def _v_uncover_same_direction(tree):
    g = M.find_func(tree, "_uncover")
    M.replace_expr(g, lambda e: M.src_is(e, "node.left"), M.expr("node.right"))
    M.replace_expr(g, lambda e: M.src_is(e, "row_node.left"), M.expr("row_node.right"))


def _v_uncover_no_size(tree):
    g = M.find_func(tree, "_uncover")
    M.replace_stmt(g, lambda s: M.src_is(s, "row_node.column.size += 1"), [])


def _v_uncover_missing_link(tree):
    g = M.find_func(tree, "_uncover")
    M.replace_stmt(g, lambda s: M.src_is(s, "row_node.up.down = row_node"), [])


def _v_no_final_uncover(tree):
    g = M.find_func(tree, "solve_exact_cover.search")
    M.replace_stmt(g, lambda s: M.src_is(s, "_uncover(min_col)"), [])


def _v_uncover_walk_right(tree):
    g = M.find_func(tree, "solve_exact_cover.search")
    M.replace_stmt(g, lambda s: M.src_is(s, "node = row_node.left"), M.stmts("node = row_node.right"))
    M.replace_stmt(g, lambda s: M.src_is(s, "node = node.left"), M.stmts("node = node.right"))


def _v_pop_skipped(tree):
    g = M.find_func(tree, "solve_exact_cover.search")
    M.replace_stmt(g, lambda s: M.src_is(s, "current.pop()"), M.stmts("if find_all:\n    current.pop()"))


def _v_row_skipped(tree):
    g = M.find_func(tree, "solve_exact_cover.search")
    M.replace_stmt(g, lambda s: M.src_is(s, "current.append(row_node.row)"), M.stmts("if row_node.row < 0:\n    continue\ncurrent.append(row_node.row)"))


def _v_infeasible_on_budget(tree):
    g = M.find_func(tree, "solve_exact_cover")
    M.replace_stmt(g, lambda s: isinstance(s, ast.If) and M.src_is(s.test, "iterations > max_iter"), M.stmts("if iterations > max_iter and solutions:\n    sol = solutions if find_all else solutions[0]\n    return Result(sol, len(solutions) if find_all else len(sol), iterations, covers, Status.MAX_ITER)"))


def _v_matrix_mutated(tree):
    g = M.find_func(tree, "_build_links")
    M.replace_stmt(g, lambda s: isinstance(s, ast.For) and M.src_has(s.iter, "enumerate(matrix)"), lambda s: [s] + M.stmts("matrix.sort()"))


def _v_secondary_in_primary(tree):
    g = M.find_func(tree, "_build_links")
    M.replace_expr(g, lambda e: M.src_is(e, "name not in secondary_set"), M.expr("True"))


def _v_optimal_with_cut(tree):
    g = M.find_func(tree, "solve_exact_cover")
    M.replace_expr(g, lambda e: isinstance(e, ast.IfExp) and M.src_has(e, "Status.FEASIBLE"), M.expr("Status.OPTIMAL"))


def _v_row_ring_not_closed(tree):
    g = M.find_func(tree, "_build_links")
    M.replace_stmt(g, lambda s: isinstance(s, ast.If) and M.src_is(s.test, "first is not None and prev_node is not None"), [])


def _v_rows_renumbered(tree):
    g = M.find_func(tree, "_build_links")
    M.replace_stmt(g, lambda s: isinstance(s, ast.For) and M.src_is(s.iter, "enumerate(matrix)"), lambda s: M.stmts("rows = [row for row in matrix if any(row)]") + [s])
    M.replace_expr(g, lambda e: M.src_is(e, "enumerate(matrix)"), M.expr("enumerate(rows)"))


def _t_rows_sparse_view(tree):
    """equally valid: a one-to-one sparse view of the rows keeps the numbering"""
    g = M.find_func(tree, "_build_links")
    M.replace_stmt(g, lambda s: isinstance(s, ast.For) and M.src_is(s.iter, "enumerate(matrix)"), lambda s: M.stmts("rows = [list(row) for row in matrix]") + [s])
    M.replace_expr(g, lambda e: M.src_is(e, "enumerate(matrix)"), M.expr("enumerate(rows)"))


def _t_reformat(tree):
    pass


def _t_rename(tree):
    M.rename_local(M.find_func(tree, "_cover"), "row_node", "rn")
    M.rename_local(M.find_func(tree, "_uncover"), "row_node", "rn")


def _t_swap_commuting(tree):
    g = M.find_func(tree, "_uncover")
    inner = [n for n in ast.walk(g) if isinstance(n, ast.While) and M.src_has(n.test, "row_node is not node")][0]
    inner.body[0], inner.body[1] = inner.body[1], inner.body[0]


def _list_idiom(tree, undo_iter):
    g = M.find_func(tree, "solve_exact_cover.search")
    rl = [n for n in ast.walk(g) if isinstance(n, ast.While) and M.src_is(n.test, "row_node is not min_col")]
    if not rl:
        raise M.Skip("row loop not found")
    body = rl[0].body
    ci = [i for i, st_ in enumerate(body) if isinstance(st_, ast.While) and M.src_has(st_, "_cover(node.column)")]
    ui = [i for i, st_ in enumerate(body) if isinstance(st_, ast.While) and M.src_has(st_, "_uncover(node.column)")]
    if not ci or not ui:
        raise M.Skip("cover / uncover walks not found")
    body[ui[0]] = M.stmts(f"for other in {undo_iter}:\n    _uncover(other)")[0]
    body[ci[0]] = M.stmts("while node is not row_node:\n    others.append(node.column)\n    node = node.right")[0]
    body.insert(ci[0] + 1, M.stmts("for other in others:\n    _cover(other)\n    covers += 1")[0])
    body.insert(ci[0] - 1, M.stmts("others = []")[0])
    for i, st_ in enumerate(list(body)):
        if isinstance(st_, ast.Assign) and M.src_is(st_, "node = row_node.left"):
            body.remove(st_)


def _v_list_uncover_forward(tree):
    _list_idiom(tree, "others")


def _v_shared_trivial_result(tree):
    g = M.find_func(tree, "solve_exact_cover")
    tree.body.insert(tree.body.index(M.find_func(tree, "_build_links")), M.stmts("_EMPTY_COVERS = Result([()], 1, 0, 0)")[0])
    if not M.replace_expr(g, lambda e: isinstance(e, ast.Call) and M.src_is(e, "Result([()], 1, 0, 0)"), M.expr("_EMPTY_COVERS")):
        raise M.Skip("trivial find_all answer not found")


def _v_presolve_forced_rows(tree):
    g = M.find_func(tree, "solve_exact_cover")
    k = [i for i, st in enumerate(g.body) if isinstance(st, ast.FunctionDef) and st.name == "search"]
    if not k:
        raise M.Skip("search closure not found")
    g.body[k[0]:k[0]] = M.stmts("col = root.right\nwhile col is not root:\n    if col.size == 1:\n        row_node = col.down\n        _cover(col)\n        current.append(row_node.row)\n        node = row_node.right\n        while node is not row_node:\n            _cover(node.column)\n            node = node.right\n    col = col.right")


def _v_duplicate_columns_demoted(tree):
    g = M.find_func(tree, "_build_links")
    k = [i for i, st in enumerate(g.body) if isinstance(st, ast.Assign) and M.src_is(st.targets[0], "secondary_set")]
    if not k:
        raise M.Skip("secondary_set not found")
    g.body[k[0] + 1 : k[0] + 1] = M.stmts("seen_patterns = set()\nfor idx, name in enumerate(col_names):\n    pattern = tuple(bool(row[idx]) for row in matrix)\n    if pattern in seen_patterns:\n        secondary_set.add(name)\n    else:\n        seen_patterns.add(pattern)")


def _v_result_post_init(tree):
    cls = [n for n in tree.body if isinstance(n, ast.ClassDef) and n.name == "Result"]
    if not cls:
        raise M.Skip("Result not found")
    cls[0].body.extend(M.stmts("def __post_init__(self):\n    if self.status is Status.OPTIMAL and self.iterations > 0 and isinstance(self.solution, (list, tuple)) and not self.solution:\n        object.__setattr__(self, 'status', Status.INFEASIBLE)"))


def _v_secondary_sizes_not_counted(tree):
    g = M.find_func(tree, "_build_links")
    M.replace_stmt(g, lambda s: M.src_is(s, "col.size += 1"), M.stmts("if col.name not in secondary_set:\n    col.size += 1"))


def _v_cover_skips_empty_column(tree):
    g = M.find_func(tree, "_cover")
    M.insert(g, "node = col.down", "if col.size < 1:\n    return")


def _v_cover_counts_on_the_column_node(tree):
    g = M.find_func(tree, "_cover")
    M.replace_stmt(g, lambda s: M.src_is(s, "row_node.column.size -= 1"), M.stmts("node.column.size -= 1"))

VARIANTS = [
    M.Variant("_cover decrements the size of the covered column's own node instead of the walked node's column (seed C07-Y)", DLX, _v_cover_counts_on_the_column_node, "C07-O1"),
    M.Variant("an empty names list makes the builder decline: OPTIMAL with the empty selection for a matrix that has columns (seed C07-W)", DLX, _v_builder_declines_for_empty_names, "C07-O6"),
    M.Variant("Result.__post_init__ relabels an OPTIMAL answer with an empty solution as INFEASIBLE (seed C07-U)", "solvor/types.py", _v_result_post_init, "C07-G7"),
    M.Variant("secondary columns are not counted in their header's size (half of seed C07-V)", DLX, _v_secondary_sizes_not_counted, "C07-O1"),
    M.Variant("_cover returns early for a header of size 0 (other half of seed C07-V)", DLX, _v_cover_skips_empty_column, "C07-O1"),
    M.Variant("columns that repeat an earlier column's pattern are made optional (seed C07-Q)", DLX, _v_duplicate_columns_demoted, "C07-O4"),
    M.Variant("presolve loop covers forced rows while walking the header ring (seed C07-O)", DLX, _v_presolve_forced_rows, "C07-O2"),
    M.Variant("the trivial find_all answer is one module-level Result shared by all calls (seed C07-N)", DLX, _v_shared_trivial_result, "C07-G3"),
    M.Variant("row columns collected in a list, covered and uncovered in the same order (seed C07-K)", DLX, _v_list_uncover_forward, "C07-O2"),
    M.Variant("uncover walks in cover's direction", DLX, _v_uncover_same_direction, "C07-O1"),
    M.Variant("uncover does not restore the column size", DLX, _v_uncover_no_size, "C07-O1"),
    M.Variant("uncover restores only one vertical link", DLX, _v_uncover_missing_link, "C07-O1"),
    M.Variant("chosen column never uncovered", DLX, _v_no_final_uncover, "C07-O2"),
    M.Variant("row columns uncovered in cover order (not LIFO)", DLX, _v_uncover_walk_right, "C07-O2"),
    M.Variant("partial solution not popped in single-solution mode", DLX, _v_pop_skipped, "C07-O2"),
    M.Variant("a `continue` skips the row advance", DLX, _v_row_skipped, "C07-O3"),
    M.Variant("budget exit without solutions reported INFEASIBLE", DLX, _v_infeasible_on_budget, "C07-O6"),
    M.Variant("input matrix sorted in place", DLX, _v_matrix_mutated, "C07-O5"),
    M.Variant("secondary headers also linked into the primary ring", DLX, _v_secondary_in_primary, "C07-O4"),
    M.Variant("find_all OPTIMAL although max_solutions cut fired", DLX, _v_optimal_with_cut, "C07-O6"),
    M.Variant("all-zero rows dropped before the rows are numbered (seed C07-C)", DLX, _v_rows_renumbered, "C07-O4"),
    M.Variant("twin: rows numbered over a one-to-one copy of the matrix", DLX, _t_rows_sparse_view, None),
    M.Variant("row nodes are chained but the ring is never closed", DLX, _v_row_ring_not_closed, "C07-O7"),
    M.Variant("twin: reformat", DLX, _t_reformat, None),
    M.Variant("twin: rename walk variable", DLX, _t_rename, None),
    M.Variant("twin: commuting statements of the relink swapped", DLX, _t_swap_commuting, None),
]
