"""C17 - cutting stock solve_cg / solve_bp (structural part): cg.py, bp.py, utils/pricing.py."""

from __future__ import annotations

import ast

from sa.cfg import cfg_of
from sa.facts import result_sites
from sa.guards import atoms as _atoms
from sa.guards import GuardView, atom_of, names_in
from sa.index import own_nodes
from sa.report import Ctx

from .common import generic_sweeps

from .sat_common import _enclosing_block

EXPLANATION = (
    "Decides structural necessary conditions of the cutting-stock contract: (O1) demand gate - which publications of a "
    "plan with a usable status pass a demand-coverage check (siblings compared; ungated ones are reported as "
    "information because no failing input is known on the repaired tree); (O2) OPTIMAL needs proven bounds - in both "
    "column-generation loops of cg.py and in bp's node LP the convergence flag becomes true only on the pricing test's "
    "own exit (never on the iteration budget, a progress stop, a stalled pricing round or an infeasible restricted "
    "master), every OPTIMAL status is conditioned on it, bp folds the flags of all node LPs into one 'bounds proven' "
    "fact that only ever goes from true to false and conditions every OPTIMAL, and the post-loop OPTIMAL also "
    "re-tests that the node heap is empty; (O3) the objective is the number of rolls of the returned plan - count and "
    "plan entry are written together, incumbents and the integral root are scored from the plan's own counts; (O4) "
    "the pricing DP's pattern passes the unscaled width re-check before it is returned; (O5) both two-phase master LPs "
    "pivot basic artificial variables out between phase 1 and phase 2 (sibling of simplex._phase1). (O6) the bounded master LP lays its bound rows out in the order in which the initial basis labels them. (O7) the shared LP engine (entering rule, ratio test, pivot), the pricing DP, the branching variable and the two children, statement group by statement group. NOT decided: "
    "validity of the LP bound in general, quality of FEASIBLE plans."
)


def _flag_assignments(f, flag):
    cfg = cfg_of(f.node)
    gv = GuardView(cfg)
    out = []
    for n in own_nodes(f.node):
        if isinstance(n, ast.Assign) and ast.unparse(n.targets[0]) == flag:
            out.append((n, gv.guard_atoms(cfg.node_of(n), stable_only=False), cfg.node_of(n)))
    return out


PRICING_EXIT = {
    "cut": {atom_of("pricing_value <= 1.0 + eps")},
    "custom": set(),
}


def _is_pricing_exit(at: set[str]) -> bool:
    if atom_of("pricing_value <= 1.0 + eps") in at:
        return True
    for a in at:
        if a.startswith("OR(") and "new_col is None" in a and ("-eps <= reduced_cost" in a or "-eps <= pricing_value" in a):
            return True
    return False


def check_cg_loop(ctx: Ctx, f):
    cfg = cfg_of(f.node)
    gv = GuardView(cfg)
    loops = [n for n in cfg.nodes if n.kind == "test" and n.note == "while" and "max_iter" in names_in(n.ast)]
    ctx.require(len(loops) == 1, f"column generation loop with max_iter not found in {f.qualname}")
    # status expression
    for s in result_sites(f):
        if "OPTIMAL" not in s.statuses:
            continue
        st = s.arg("status")
        d = [n.value for n in own_nodes(f.node) if isinstance(st, ast.Name) and isinstance(n, ast.Assign) and ast.unparse(n.targets[0]) == st.id]
        flags = set()
        ok = len(d) == 1 and isinstance(d[0], ast.IfExp) and ast.unparse(d[0].body) == "Status.OPTIMAL" and ast.unparse(d[0].orelse) != "Status.OPTIMAL"
        if ok:
            t = d[0].test
            conj = t.values if isinstance(t, ast.BoolOp) and isinstance(t.op, ast.And) else [t]
            flags = {c.id for c in conj if isinstance(c, ast.Name)}
        good = []
        for fl in flags:
            asg = _flag_assignments(f, fl)
            trues = [(n, at, nd) for n, at, nd in asg if ast.unparse(n.value) == "True"]
            falses = [(n, at, nd) for n, at, nd in asg if ast.unparse(n.value) == "False"]
            if trues and all(_is_pricing_exit(at) and nd.loop is loops[0] for _, at, nd in trues) and any(nd.loop is None and cfg.dominates(nd, loops[0]) for _, _, nd in falses) and len(trues) + len(falses) == len(asg):
                good.append(fl)
        ctx.ob("C17-O2", "R2 BUDGET-EXIT", f, "OPTIMAL is conditioned on a flag that becomes true only on the pricing test's own exit", bool(good), f"status `{ast.unparse(d[0]) if d else ast.unparse(st) if st is not None else 'default'}`; the loop also ends on max_iter and on a progress stop, where the restricted master's value is not a lower bound", node=s.call)
        if ok:
            conj_txt = [ast.unparse(c) for c in (d[0].test.values if isinstance(d[0].test, ast.BoolOp) else [d[0].test])]
            ctx.ob("C17-O2", "R1 STATUS-GUARD", f, "OPTIMAL additionally requires rolls <= ceil(LP bound)", any("<= lb" in c for c in conj_txt) and any(ast.unparse(n) == "lb = ceil(lp_obj - eps)" for n in own_nodes(f.node)), f"{conj_txt}", node=s.call)


def _pricing_scale_written_once(ctx: Ctx, kpf):
    """The DP runs on `cap_int` and `sizes_int`, both scaled by the same factor.  A later rescaling has to keep the
    capacity on the safe side: the capacity may only be floor-divided (a pattern that fits the reduced roll fits the
    real one), the sizes only divided exactly by the same divisor."""
    for name in ("cap_int", "sizes_int"):
        defs = [n for n in own_nodes(kpf.node) if isinstance(n, (ast.Assign, ast.AugAssign)) and ast.unparse(n.targets[0] if isinstance(n, ast.Assign) else n.target) == name]
        ctx.require(len(defs) >= 1, f"`{name}` not defined in knapsack_pricing")
        defs.sort(key=lambda d_: (d_.lineno, d_.col_offset))
        bad = []
        for d in defs[1:]:
            v = d.value
            if isinstance(d, ast.AugAssign):
                ok = isinstance(d.op, ast.FloorDiv)
            elif name == "cap_int":
                ok = isinstance(v, ast.BinOp) and isinstance(v.op, ast.FloorDiv) and ast.unparse(v.left) == name
            else:
                ok = isinstance(v, ast.ListComp) and isinstance(v.elt, ast.BinOp) and isinstance(v.elt.op, ast.FloorDiv)
            if not ok:
                bad.append(d)
        ctx.ob("C17-O1", "R32 EXACT-DIVISION", kpf, f"`{name}` is scaled once; a later reduction divides it downwards (`//`) only", not bad, f"`{ast.unparse(bad[0])[:70]}`: a capacity rounded to nearest can exceed the real roll, the best DP pattern then fails the width re-check, the greedy fallback prices at most 1 and column generation stops before the optimum" if bad else "", node=bad[0] if bad else defs[0])


def run(ctx: Ctx):
    cs = ctx.func("cg", "_solve_cutting_stock")
    cu = ctx.func("cg", "_solve_custom")
    bnp = ctx.func("bp", "_branch_and_price")
    nlp = ctx.func("bp", "_solve_node_lp")
    rnd = ctx.func("bp", "_round_solution")
    bld = ctx.func("bp", "_build_solution")

    from .sat_common import _need as _need_

    mlp = ctx.func("cg", "_solve_master_lp")
    ctx.step(_need_, "C17-O7", "R16 PAIRED-EFFECTS", mlp, "cg master LP: one row per demand [columns | -surplus | +artificial | demand]; phase 1 minimises the artificials from the basis of artificials, and a positive phase-1 optimum means no covering combination exists", ["for i in range(m):\n        for j, col in enumerate(columns):\n            tab[i][j] = float(col[i])\n        tab[i][n + i] = -1.0\n        tab[i][n + m + i] = 1.0\n        tab[i][-1] = float(demands[i])", "for i in range(m):\n        for j in range(n_vars + 1):\n            tab[-1][j] -= tab[i][j]\n        tab[-1][n + m + i] = 0.0", "basis = list(range(n + m, n + 2 * m))", "if tab[-1][-1] < -eps:\n        return ([0.0] * n, [0.0] * m, float('inf'))", "if n == 0:\n        return ([], [0.0] * m, float('inf'))"], "the value of this LP is the lower bound that licenses OPTIMAL, and its point (rounded up) is the plan")
    ctx.step(_need_, "C17-O7", "R16 PAIRED-EFFECTS", mlp, "cg master LP: phase 2 minimises the number of rolls (cost 1 per column, priced out against the basis); point, duals and value are read from the final tableau", ["for j in range(n_vars + 1):\n        tab[-1][j] = 0.0\n    for j in range(n):\n        tab[-1][j] = 1.0", "for i, b in enumerate(basis):\n        cost = 1.0 if b < n else 0.0\n        if abs(cost) > eps:\n            for j in range(n_vars + 1):\n                tab[-1][j] -= cost * tab[i][j]", "x_vals = [0.0] * n\n    for i, b in enumerate(basis):\n        if b < n:\n            x_vals[b] = max(0.0, tab[i][-1])", "duals = [tab[-1][n + i] for i in range(m)]\n    objective = -tab[-1][-1]\n    return (x_vals, duals, objective)"])
    ctx.step(_need_, "C17-O7", "R16 PAIRED-EFFECTS", cs, "cutting-stock loop: a priced pattern joins the list once; the final LP point is rounded up pattern by pattern into the plan and its roll count", ["if new_pattern not in patterns:\n            patterns.append(new_pattern)\n        iteration += 1", "x_vals, duals, lp_obj = _solve_master_lp(patterns, demands, eps)\n    solution: dict[tuple[int, ...], int] = {}\n    total_rolls = 0\n    for pattern, x in zip(patterns, x_vals):\n        if x > eps:\n            count = ceil(x - eps)\n            if count > 0:\n                solution[pattern] = count\n                total_rolls += count", "lb = ceil(lp_obj - eps)\n    status = Status.OPTIMAL if converged and total_rolls <= lb else Status.FEASIBLE\n    return Result(solution, float(total_rolls), iteration, iteration, status)"])
    ctx.step(_need_, "C17-O7", "R16 PAIRED-EFFECTS", cu, "custom loop: a priced column joins list and set together; the final LP point is rounded up column by column into the plan and its count", ["new_col_tuple = tuple(new_col)\n        if new_col_tuple not in column_set:\n            columns.append(new_col_tuple)\n            column_set.add(new_col_tuple)\n        iteration += 1", "x_vals, duals, lp_obj = _solve_master_lp(columns, demands, eps)\n    solution: dict[tuple[int, ...], int] = {}\n    total = 0\n    for col, x in zip(columns, x_vals):\n        if x > eps:\n            count = ceil(x - eps)\n            if count > 0:\n                solution[col] = count\n                total += count", "lb = ceil(lp_obj - eps)\n    status = Status.OPTIMAL if converged and total <= lb else Status.FEASIBLE\n    return Result(solution, float(total), iteration, iteration, status)"])

    # ---- O1 demand gate (siblings)
    def gated(f):
        t = ast.unparse(f.node)
        return "produced < demands[i]" in t
    g_cs, g_rnd, g_cu = gated(cs), gated(rnd), gated(cu)
    ctx.ob("C17-O1", "R14 GATE", cs, "cutting-stock plan is checked against every demand before a usable status is published", g_cs, "", node=cs.node)
    if g_cs:
        cfg = cfg_of(cs.node)
        gv = GuardView(cfg)
        for s in result_sites(cs):
            at = gv.guard_atoms(s.node)
            if "INFEASIBLE" in s.statuses:
                ctx.ob("C17-O1", "R14 GATE", cs, "a plan that misses a demand is published as INFEASIBLE", atom_of("produced < demands[i]") in at, "", node=s.call)
            else:
                vloop = [n for n in cfg.nodes if n.kind == "for" and "produced" in ast.unparse(n.ast)]
                ctx.ob("C17-O1", "R14 GATE", cs, "usable status only after the verification loop completed", bool(vloop) and any(cfg.dominates(v, s.node) for v in vloop), "", node=s.call)
    ctx.ob("C17-O1", "R14 GATE", rnd, "rounded incumbent is checked against every demand", g_rnd, "", node=rnd.node)
    ctx.ob("C17-O1", "R18 SIBLING-AGREEMENT (policy)", cu, "custom-mode plan checked against demands (sibling of the cutting-stock path)", g_cu, "ungated: relies on ceil-rounding of a feasible LP point (sufficient for >= rows with non-negative columns); no failing input known", node=cu.node, severity="note")
    ctx.ob("C17-O1", "R18 SIBLING-AGREEMENT (policy)", bld, "plan built from an integral node LP checked against demands", gated(bld), "ungated: relies on the node LP being feasible (see O5) and integral; no failing input known on the repaired tree", node=bld.node, severity="note")

    # ---- O2
    ctx.step(check_cg_loop, cs)
    ctx.step(check_cg_loop, cu)
    # node LP flag
    cfg = cfg_of(nlp.node)
    gv = GuardView(cfg)
    rets = [n for n in own_nodes(nlp.node) if isinstance(n, ast.Return) and isinstance(n.value, ast.Tuple)]
    ctx.floor("returns of _solve_node_lp", len(rets), 1)
    widths = {len(r.value.elts) for r in rets}
    ctx.ob("C17-O2", "R3 STATUS-USE", nlp, "node LP returns its convergence flag with the LP value at every return", widths == {4}, f"tuple widths {sorted(widths)}", node=nlp.node)
    flagname = None
    for r in rets:
        last = r.value.elts[-1]
        at = gv.guard_atoms(cfg.node_of(r), stable_only=False)
        if isinstance(last, ast.Name):
            flagname = last.id
        elif isinstance(last, ast.Constant):
            ok = last.value is False or _is_pricing_exit(at)
            ctx.ob("C17-O2", "R2 BUDGET-EXIT", nlp, "a return with a constant flag claims a proven bound only on the pricing test's own exit", ok, f"returns {last.value!r} under {sorted(a for a in at if 'lp_obj' in a or 'pricing' in a)}", node=r)
    if flagname is None:
        ctx.ob("C17-O2", "R2 BUDGET-EXIT", nlp, "node convergence flag becomes true only on the pricing test's own exit", False, "no return forwards a convergence variable", node=nlp.node)
        flagname = "converged"
    asg = _flag_assignments(nlp, flagname)
    trues = [(n, at, nd) for n, at, nd in asg if ast.unparse(n.value) == "True"]
    ctx.ob("C17-O2", "R2 BUDGET-EXIT", nlp, "node convergence flag becomes true only on the pricing test's own exit", bool(trues) and all(_is_pricing_exit(at) for _, at, _ in trues) and any(ast.unparse(n.value) == "False" and nd.loop is None for n, _, nd in asg), f"{len(trues)} true-assignments", node=nlp.node)
    feas = {atom_of("lp_obj != float('inf')"), atom_of("lp_obj < float('inf')")}
    ctx.ob("C17-O2", "R2 BUDGET-EXIT", nlp, "the pricing test proves a node's bound only for a feasible restricted master (an infeasible one leaves before pricing, flag false)", bool(trues) and all(at & feas for _, at, _ in trues), f"{[sorted(a for a in at if 'lp_obj' in a) for _, at, _ in trues]}: an infeasible master reports zero duals, pricing against them finds no improving column, and the node is taken for proven infeasible although columns nobody priced would restore feasibility - the subtree is pruned and a non-minimal incumbent is published as OPTIMAL", node=trues[0][0] if trues else nlp.node)
    # stall: pricing re-proposing a known column ends the loop without convergence
    brk = [n for n in cfg.nodes if n.kind == "stmt" and isinstance(n.ast, ast.Break)]
    stall = [b for b in brk if any("in column_set" in a and "not in" not in a for a in gv.guard_atoms(b, stable_only=False)) or any(a.startswith("OR(") and "new_col in column_set" in a for a in gv.guard_atoms(b, stable_only=False))]
    ctx.ob("C17-O2", "R22 STUTTER-FREE", nlp, "a pricing round that can add no new column ends the node's column generation (no spinning until max_iter)", bool(stall), "", node=nlp.node)
    # consumer: every call unpacks the flag and folds it
    bcfg = cfg_of(bnp.node)
    bgv = GuardView(bcfg)
    calls = sorted((n for n in own_nodes(bnp.node) if isinstance(n, ast.Assign) and isinstance(n.value, ast.Call) and ast.unparse(n.value.func) == "_solve_node_lp"), key=lambda n: n.lineno)
    ctx.floor("node LP calls in _branch_and_price", len(calls), 2)
    proven = None
    for c in calls:
        ok = isinstance(c.targets[0], ast.Tuple) and len(c.targets[0].elts) == 4
        ctx.ob("C17-O2", "R3 STATUS-USE", bnp, "node LP call unpacks the convergence flag", ok, "", node=c)
        if not ok:
            continue
        fl = ast.unparse(c.targets[0].elts[3])
        cn = bcfg.node_of(c)
        if cn.loop is None:
            d = [n for n in own_nodes(bnp.node) if isinstance(n, ast.Assign) and isinstance(n.value, ast.Name) and n.value.id == fl and bcfg.node_of(n).loop is None]
            if d:
                proven = ast.unparse(d[0].targets[0])
            ctx.ob("C17-O2", "R3 STATUS-USE", bnp, "root convergence initialises the 'bounds proven' fact", bool(d), "", node=c)
        else:
            blk = _enclosing_block(bnp.node, c)
            rest = blk[blk.index(c) + 1 :]
            fold = [s for s in rest if isinstance(s, ast.If) and ast.unparse(s.test) == f"not {fl}" and proven and any(ast.unparse(x) == f"{proven} = False" for x in s.body)]
            ctx.ob("C17-O2", "R3 STATUS-USE", bnp, "a node whose column generation did not converge clears the 'bounds proven' fact", bool(fold), "", node=c)
            if fold:
                before = rest[: rest.index(fold[0])]
                leaves = [x for st_ in before for x in ast.walk(st_) if isinstance(x, (ast.Continue, ast.Break, ast.Return))]
                ctx.ob("C17-O2", "R3 STATUS-USE", bnp, "the fact is cleared before anything can prune or leave the node (no continue/break/return between the node LP and the clearing)", not leaves, f"a `{type(leaves[0]).__name__.lower()}` at line {leaves[0].lineno} comes first: a node pruned because its restricted master was infeasible (value inf, not converged) is discarded as if its subtree were proven empty, and the incumbent is labelled OPTIMAL" if leaves else "", node=leaves[0] if leaves else c)
    ctx.require(proven is not None, "'bounds proven' variable not found in _branch_and_price")
    # a `break` out of the node loop abandons the node that was just popped: the fact must be cleared first
    main_loops = [n for n in own_nodes(bnp.node) if isinstance(n, ast.While) and "tree" in names_in(n.test)]
    ctx.require(len(main_loops) == 1, "node loop of _branch_and_price not found")
    n_brk = 0
    for b in [x for x in ast.walk(main_loops[0]) if isinstance(x, ast.Break)]:
        bn = bcfg.node_of(b)
        if bn.loop is None or bn.loop.ast is not main_loops[0].test:
            continue  # break of an inner loop
        n_brk += 1
        blk = _enclosing_block(bnp.node, b)
        before = blk[: blk.index(b)]
        ctx.ob("C17-O2", "R2 BUDGET-EXIT", bnp, "leaving the node loop with a popped node unprocessed clears the 'bounds proven' fact", any(ast.unparse(x) == f"{proven} = False" for x in before), "the abandoned node is no longer in the tree: `not tree` then looks like an exhausted search and the incumbent is labelled OPTIMAL", node=b)
    ctx.floor("breaks out of the node loop", n_brk, 1)
    sets_true = [n for n in own_nodes(bnp.node) if isinstance(n, ast.Assign) and ast.unparse(n.targets[0]) == proven and ast.unparse(n.value) == "True"]
    ctx.ob("C17-O2", "R2 BUDGET-EXIT", bnp, "'bounds proven' never goes back to true", not sets_true, "", node=bnp.node)
    for k, s in enumerate(result_sites(bnp)):
        if "OPTIMAL" not in s.statuses:
            continue
        at = bgv.guard_atoms(s.node, stable_only=False)
        st = s.arg("status")
        cond = set(a for a in at)
        if isinstance(st, ast.Name):
            for d in own_nodes(bnp.node):
                if isinstance(d, ast.Assign) and ast.unparse(d.targets[0]) == st.id and isinstance(d.value, ast.IfExp) and ast.unparse(d.value.body) == "Status.OPTIMAL":
                    t = d.value.test
                    for c in (t.values if isinstance(t, ast.BoolOp) and isinstance(t.op, ast.And) else [t]):
                        cond.add("T:" + ast.unparse(c) if not isinstance(c, ast.UnaryOp) else "F:" + ast.unparse(c.operand))
        ok = f"T:{proven}" in cond or "T:converged" in cond
        ctx.ob("C17-O2", "R2 BUDGET-EXIT", bnp, f"Result#{k} OPTIMAL is conditioned on proven bounds", ok, f"conditions {sorted(c for c in cond if 'proven' in c or 'converged' in c or 'tree' in c or 'gap' in c)}", node=s.call)
        if s.node.loop is None and s.node.id in bcfg.forward([n for n in bcfg.nodes if n.kind == "test" and n.note == "while"][0]):
            ctx.ob("C17-O2", "R2 BUDGET-EXIT", bnp, f"Result#{k} post-loop OPTIMAL re-tests that no open node is left (max_nodes / progress stop)", "F:tree" in cond, "", node=s.call)

    # ---- O3 objective = rolls of the plan
    for f, tot in ((cs, "total_rolls"), (cu, "total")):
        cfg = cfg_of(f.node)
        acc = [n for n in own_nodes(f.node) if isinstance(n, ast.AugAssign) and ast.unparse(n.target) == tot]
        ok = len(acc) == 1
        if ok:
            blk = [ast.unparse(x) for x in _enclosing_block(f.node, acc[0])]
            amount = ast.unparse(acc[0].value)
            ok = any(x.startswith("solution[") and x.endswith(f"= {amount}") for x in blk)
        ctx.ob("C17-O3", "R30 ACCUMULATOR-PAIRING", f, "roll count grows by exactly the count stored in the plan, in the same block", ok, "", node=acc[0] if acc else f.node)
        for s in result_sites(f):
            ctx.ob("C17-O3", "R5 PAIRING", f, "published objective is the plan's roll count", ast.unparse(s.arg("objective")) == f"float({tot})" and ast.unparse(s.arg("solution")) == "solution", "", node=s.call)
    t = ast.unparse(bnp.node)
    inc = [n for n in own_nodes(bnp.node) if isinstance(n, ast.Assign) and ast.unparse(n.targets[0]) == "best_obj" and ast.unparse(n.value) != "float('inf')"]
    for n in inc:
        blk = _enclosing_block(bnp.node, n)
        v = ast.unparse(n.value)
        mate = [x for x in blk if isinstance(x, ast.Assign) and ast.unparse(x.targets[0]) == "best_solution"]
        ok = False
        if v == "obj" and mate:
            od = [x.value for x in own_nodes(bnp.node) if isinstance(x, ast.Assign) and ast.unparse(x.targets[0]) == "obj"]
            ok = len(od) == 1 and ast.unparse(od[0]) == f"float(sum({ast.unparse(mate[0].value)}.values()))"
        ctx.ob("C17-O3", "R5 PAIRING", bnp, "incumbent objective = sum of the counts of the incumbent plan itself", ok, f"best_obj = {v}; best_solution = {ast.unparse(mate[0].value) if mate else '?'}", node=n)
    pair = [n for n in own_nodes(bnp.node) if isinstance(n, ast.Assign) and ast.unparse(n.targets[0]) == "(best_solution, best_obj)"]
    ctx.ob("C17-O3", "R5 PAIRING", bnp, "rounded incumbent arrives as one (plan, roll count) pair", len(pair) == 1 and ast.unparse(pair[0].value) == "rounded", "", node=bnp.node)
    tr = ast.unparse(rnd.node)
    ctx.ob("C17-O3", "R30 ACCUMULATOR-PAIRING", rnd, "rounding helper counts exactly the rolls it stores", "solution[columns[j]] = rounded[j]" in tr and "total += rounded[j]" in tr and "return (solution, float(total))" in tr, "", node=rnd.node)
    for k, s in enumerate(result_sites(bnp)):
        sol, obj = ast.unparse(s.arg("solution")), ast.unparse(s.arg("objective"))
        if sol == "None":
            continue
        ok = (sol, obj) in (("best_solution", "best_obj"), ("solution", "float(sum(solution.values()))"))
        ctx.ob("C17-O3", "R5 PAIRING", bnp, f"Result#{k} publishes a plan with its own roll count", ok, f"({sol}, {obj})", node=s.call)
    tb = ast.unparse(bld.node)
    ctx.ob("C17-O3", "R5 PAIRING", bld, "plan entries are the rounded integral LP values of their own column", "count = int(round(x))" in tb and "solution[columns[i]] = count" in tb and "for i, x in enumerate(x_vals)" in tb, "", node=bld.node)

    # ---- O4 pricing re-check
    kp = ctx.func("utils.pricing", "knapsack_pricing")
    cfg = cfg_of(kp.node)
    gv = GuardView(cfg)
    rets = [n for n in own_nodes(kp.node) if isinstance(n, ast.Return) and isinstance(n.value, ast.Tuple) and ast.unparse(n.value.elts[0]).startswith("tuple(")]
    for r in rets:
        at = gv.guard_atoms(cfg.node_of(r))
        ts = [n.value for n in own_nodes(kp.node) if isinstance(n, ast.Assign) and ast.unparse(n.targets[0]) == "total_size"]
        ok = atom_of("total_size <= capacity + eps") in at and len(ts) == 1 and ast.unparse(ts[0]) == "sum((best_pat[i] * sizes[i] for i in range(n)))" and ast.unparse(r.value.elts[0]) == "tuple(best_pat)"
        ctx.ob("C17-O4", "R14 GATE", kp, "the DP's pattern is returned only after the re-check against the unscaled sizes and width", ok, f"{sorted(at)}", node=r)
    ctx.floor("pattern returns of knapsack_pricing", len(rets), 1)
    gk = ctx.func("utils.pricing", "greedy_knapsack")
    tg = ast.unparse(gk.node)
    ctx.ob("C17-O4", "R14 GATE", gk, "greedy fallback never exceeds the remaining width", "copies = min(max_copies[i], int(remaining / sizes[i]))" in tg and "remaining -= copies * sizes[i]" in tg, "", node=gk.node)

    # ---- O5 artificials driven out between the phases (sibling: simplex._phase1)
    for mod, q in (("cg", "_solve_master_lp"), ("bp", "_solve_bounded_master_lp")):
        f = ctx.func(mod, q)
        cfg = cfg_of(f.node)
        phases = [cfg.stmt_node_containing(n) for n in own_nodes(f.node) if isinstance(n, ast.Call) and ast.unparse(n.func) == "simplex_phase"]
        ctx.require(len(phases) == 2, f"two simplex_phase calls expected in {q}")
        phases.sort(key=lambda n: n.lineno)
        drive = [cfg.stmt_node_containing(n) for n in own_nodes(f.node) if isinstance(n, ast.Call) and ast.unparse(n.func) == "drive_out_artificials"]
        ok = any(cfg.dominates(phases[0], d) and cfg.dominates(d, phases[1]) for d in drive)
        ctx.ob("C17-O5", "R18 SIBLING-AGREEMENT (policy)", f, "basic artificial variables are pivoted out between phase 1 and phase 2", ok, "phase 2 never lets a basic artificial leave through a non-positive entry: it can grow back and the LP 'solution' violates its row (solve_lp's phase 1 pivots them out)", node=phases[1].ast)
        if ok:
            d = [x for x in drive if cfg.dominates(phases[0], x)][0]
            call = [n for n in ast.walk(d.ast) if isinstance(n, ast.Call) and ast.unparse(n.func) == "drive_out_artificials"][0]
            c1 = [n for n in ast.walk(phases[0].ast) if isinstance(n, ast.Call) and ast.unparse(n.func) == "simplex_phase"][0]
            ctx.ob("C17-O5", "R18 SIBLING-AGREEMENT (expression)", f, "the pivot-out uses the same structural/artificial column boundary as the simplex phases", [ast.unparse(a) for a in call.args] == [ast.unparse(a) for a in c1.args], "", node=call)
    do = ctx.func("utils.pricing", "drive_out_artificials")
    td = ast.unparse(do.node)
    ctx.ob("C17-O5", "R18 SIBLING-AGREEMENT (policy)", do, "pivot-out replaces only artificial basics (index >= n_orig) by a non-basic structural column with a non-zero entry", "if basis[i] < n_orig:\n            continue" in td and "abs(tab[i][j]) > eps" in td and "basis[i] = j" in td and "for j in range(n_orig)" in td, "", node=do.node)
    from .sat_common import _need as _need2

    ctx.step(_need2, "C17-O5", "R16 PAIRED-EFFECTS", do, "pivot-out: the first non-basic structural column with a non-zero entry replaces the artificial; the row is scaled to a unit entry, every other row (objective row included) is cleared in that column, and the basis label follows", ["in_basis = set(basis)\n        for j in range(n_orig):\n            if j not in in_basis and abs(tab[i][j]) > eps:\n                piv = tab[i][j]\n                for c in range(n_cols):\n                    tab[i][c] /= piv\n                for r in range(n_rows + 1):\n                    if r != i:\n                        factor = tab[r][j]\n                        if abs(factor) > eps:\n                            for c in range(n_cols):\n                                tab[r][c] -= factor * tab[i][c]\n                basis[i] = j\n                break"])
    sp = ctx.func("simplex", "_phase1")
    ctx.ob("C17-O5", "R18 SIBLING-AGREEMENT (policy)", sp, "reference sibling: solve_lp's phase 1 pivots basic artificials out", "if basis[i] in art_cols" in ast.unparse(sp.node) and "_pivot(" in ast.unparse(sp.node), "", node=sp.node)
    # O6 row layout of the bounded master LP = order of the initial basis labels
    bm = ctx.func("bp", "_solve_bounded_master_lp")
    row_loops = [n for n in own_nodes(bm.node) if isinstance(n, ast.For) and "col_bounds" in names_in(n.iter) and any(isinstance(x, ast.AugAssign) and ast.unparse(x.target) == "row_idx" for x in ast.walk(n))]
    row_loops.sort(key=lambda n: n.lineno)
    ctx.floor("bound-row loops in _solve_bounded_master_lp", len(row_loops), 1)
    kinds_per_loop = []
    for lp_ in row_loops:
        kinds = []
        for x in ast.walk(lp_):
            if isinstance(x, ast.Assign) and ast.unparse(x.targets[0]).startswith("tab[row_idx]["):
                cexp = names_in(x.targets[0])
                if "art_idx" in cexp and "art" not in kinds:
                    kinds.append("art")
                elif "slack_idx" in cexp and "slack" not in kinds:
                    kinds.append("slack")
        kinds_per_loop.append(kinds)
    layout = [k for ks in kinds_per_loop for k in ks]
    grouped = all(len(ks) == 1 for ks in kinds_per_loop)
    basis_groups = []
    for n in own_nodes(bm.node):
        if isinstance(n, ast.For) and any(isinstance(x, ast.Call) and ast.unparse(x.func) == "basis.append" for x in ast.walk(n)):
            it = ast.unparse(n.iter)
            basis_groups.append((n.lineno, {"range(m)": "demand", "range(n_lower)": "art", "range(n_upper)": "slack"}.get(it, it)))
    order_b = [k for _, k in sorted(basis_groups)]
    ctx.ob("C17-O6", "R5 PAIRING", bm, "bound rows are laid out group by group (all lower-bound rows, then all upper-bound rows), in the order in which the initial basis labels them", grouped and layout == ["art", "slack"] and order_b == ["demand", "art", "slack"], f"row groups per loop {kinds_per_loop}, basis groups {order_b}: with interleaved rows a slack is recorded as basic in an artificial's row, the pivot-out works on the wrong rows and the LP point violates a demand", node=row_loops[0] if row_loops else bm.node)
    # ---- O7 the LP engine, the pricing DP and the branching step, obligation by obligation
    from .sat_common import _need

    sp_ = ctx.func("utils.pricing", "simplex_phase")
    ctx.step(_need, "C17-O7", "R21 search discipline", sp_, "entering column: the first non-basic structural column with a negative reduced cost (Bland); none -> the phase is over", ["enter = -1\n        for j in range(n_orig):\n            if j not in basis_set and tab[-1][j] < -eps:\n                enter = j\n                break", "if enter == -1:\n            return"])
    ctx.step(_need, "C17-O7", "R30 ACCUMULATOR-PAIRING", sp_, "leaving row: minimum ratio rhs / entry over the rows with a positive entry, ties broken by the smaller basic index; no such row -> stop", ["leave = -1\n        min_ratio = float('inf')", "if tab[i][enter] > eps:\n                ratio = tab[i][-1] / tab[i][enter]\n                if ratio < min_ratio - eps:\n                    min_ratio = ratio\n                    leave = i\n                elif abs(ratio - min_ratio) <= eps and leave >= 0 and (basis[i] < basis[leave]):\n                    leave = i", "if leave == -1:\n            return"])
    ctx.step(_need, "C17-O7", "R16 PAIRED-EFFECTS", sp_, "pivot: the leaving row is scaled by the pivot element, every other row (objective row included) is cleared in the entering column, the basis label and the basis set move together", ["piv = tab[leave][enter]\n        for j in range(n_cols):\n            tab[leave][j] /= piv", "for i in range(n_rows + 1):\n            if i != leave:\n                factor = tab[i][enter]\n                if abs(factor) > eps:\n                    for j in range(n_cols):\n                        tab[i][j] -= factor * tab[leave][j]", "basis_set.discard(basis[leave])\n        basis[leave] = enter\n        basis_set.add(enter)"])
    kpf = ctx.func("utils.pricing", "knapsack_pricing")
    ctx.step(_need, "C17-O7", "R30 ACCUMULATOR-PAIRING", kpf, "pricing DP: a state is extended only from a reachable state, on strict improvement, and value and pattern are updated together (one more copy of item i)", ["dp_val[0] = 0.0", "prev_w = w - size_i\n                if dp_val[prev_w] > -float('inf'):\n                    new_val = dp_val[prev_w] + values[i]\n                    if new_val > dp_val[w] + eps:\n                        dp_val[w] = new_val\n                        dp_pat[w] = list(dp_pat[prev_w])\n                        dp_pat[w][i] += 1", "for _ in range(max_copies[i]):\n            for w in range(cap_int, size_i - 1, -1):"])
    ctx.step(_need, "C17-O7", "R30 ACCUMULATOR-PAIRING", kpf, "the best state over all weights is returned with its own pattern", ["for w in range(cap_int + 1):\n        if dp_val[w] > best_val + eps:\n            best_val = dp_val[w]\n            best_w = w", "best_w = 0\n    best_val = 0.0", "best_pat = dp_pat[best_w] if best_val > eps else [0] * n", "return (tuple(best_pat), best_val)"])
    ctx.step(_pricing_scale_written_once, kpf)
    # an item is left out of the pricing DP only when its dual value is not positive: every other skip under-reports the
    # best pattern value, column generation stops early and the unproven master LP value is used as a bound
    kcfg = cfg_of(kpf.node)
    kgv = GuardView(kcfg)
    ext = [n for n in own_nodes(kpf.node) if isinstance(n, ast.Assign) and ast.unparse(n.targets[0]) == "dp_val[w]"]
    ctx.floor("DP state updates in knapsack_pricing", len(ext), 1)
    for x in ext:
        xn = kcfg.node_of(x)
        outer = xn.loop
        while outer is not None and outer.loop is not None:
            outer = outer.loop
        inside = {id(y) for y in ast.walk(outer.ast)} if outer is not None else set()
        at = set()
        for br in kcfg.guards(xn):
            if br.test.kind == "test" and id(br.test.ast) in inside:
                at |= _atoms(br.test.ast, br.pol)
        item_level = at - {atom_of("dp_val[prev_w] > -float('inf')"), atom_of("new_val > dp_val[w] + eps")}
        ctx.ob("C17-O7", "R12 NO-CARDINALITY-CUTOFF", kpf, "every item with a positive value takes part in the pricing DP", item_level <= {atom_of("values[i] > eps")}, f"items are also skipped under {sorted(item_level - {atom_of('values[i] > eps')})}: the DP then under-reports the best pattern value, pricing finds 'no improving column' too early and a non-minimal plan is labelled OPTIMAL", node=x)
    mfr = ctx.func("bp", "_most_fractional")
    ctx.step(_need, "C17-O7", "R18 table", mfr, "branching variable: the positive entry farthest from an integer; none -> the point is integral", ["if x > eps:\n            frac = abs(x - round(x))\n            if frac > eps and frac > best_frac:\n                best_idx, best_frac = (i, frac)", "if best_idx is not None:\n        return (best_idx, x_vals[best_idx])\n    return (None, None)"])
    ctx.step(_need, "C17-O7", "R16 PAIRED-EFFECTS", bnp, "branching creates two children that together cover the node: x <= floor(v) and x >= ceil(v) on the same column, each with the node's own bounds and the node's LP value as bound", ["left_bounds = list(node.column_bounds)\n        left_bounds.append((frac_idx, 0.0, floor(val)))\n        heappush(tree, (lp_obj, counter, _BPNode(lp_obj, tuple(left_bounds), node.depth + 1)))\n        counter += 1", "right_bounds = list(node.column_bounds)\n        right_bounds.append((frac_idx, ceil(val), float('inf')))\n        heappush(tree, (lp_obj, counter, _BPNode(lp_obj, tuple(right_bounds), node.depth + 1)))\n        counter += 1"])
    ctx.step(_need, "C17-O7", "R1 STATUS-GUARD", bnp, "a node is skipped only when its bound cannot beat the incumbent; an integral node LP replaces the incumbent only when it is strictly better", ["if node.bound >= best_obj - eps:\n            continue", "if lp_obj == float('inf') or lp_obj >= best_obj - eps:\n            continue", "if obj < best_obj - eps:\n                best_solution = candidate\n                best_obj = obj"])
    nlp_ = ctx.func("bp", "_solve_node_lp")
    ctx.step(_need, "C17-O7", "R16 PAIRED-EFFECTS", nlp_, "a priced column joins the column list and the column set together, and the master is solved again before the node's value is reported", ["columns.append(new_col)\n        column_set.add(new_col)", "x_vals, duals, lp_obj = _solve_bounded_master_lp(columns, demands, col_bounds, eps)\n    return (x_vals, lp_obj, cg_iters, converged)"])
    _need(ctx, "C17-O7", "R1 STATUS-GUARD", bnp, "root of the search: an infeasible root LP is the only INFEASIBLE, an integral root LP is returned at once, otherwise the root is the first open node and the rounded root point the first incumbent", ["if lp_obj == float('inf'):\n        return Result(None, float('inf'), 0, total_cg_iters, Status.INFEASIBLE)", "frac_idx, frac_val = _most_fractional(x_vals, eps)\n    if frac_idx is None:\n        solution = _build_solution(x_vals, columns, eps)", "rounded = _round_solution(x_vals, columns, demands, eps)\n    if rounded is not None:\n        best_solution, best_obj = rounded", "heappush(tree, (lp_obj, counter, _BPNode(lp_obj, (), 0)))\n    counter += 1"], "without the root in the tree the loop never runs and the rounded point is labelled OPTIMAL")
    bcfg_ = cfg_of(bnp.node)
    cbs = [n for n in own_nodes(bnp.node) if isinstance(n, (ast.Assign, ast.AnnAssign)) and ast.unparse(n.targets[0] if isinstance(n, ast.Assign) else n.target) == "col_bounds"]
    okcb = len(cbs) == 1 and isinstance(cbs[0].value, ast.DictComp) and "node.column_bounds" in ast.unparse(cbs[0].value) and bcfg_.node_of(cbs[0]).loop is not None
    stores = [n for n in own_nodes(bnp.node) if isinstance(n, ast.Assign) and ast.unparse(n.targets[0]).startswith("col_bounds[")]
    ctx.ob("C17-O7", "R33 NO-CROSS-CALL-STATE", bnp, "the bound map of a node is built afresh from that node's own branching decisions, inside the node loop", okcb and not stores, f"{[ast.unparse(x)[:50] for x in cbs + stores]}: a map that lives across iterations keeps the bounds of columns branched on in other subtrees; the node LP is then over-constrained, its value is no lower bound, and the subtree holding the optimum is pruned", node=(cbs + stores)[0] if cbs or stores else bnp.node)
    gaps = [n for n in own_nodes(bnp.node) if isinstance(n, ast.Assign) and ast.unparse(n.targets[0]) == "gap"]
    ctx.floor("gap computations in _branch_and_price", len(gaps), 1)
    for g_ in gaps:
        nm = names_in(g_.value)
        ctx.ob("C17-O2", "R7 PROVENANCE", bnp, "the gap that licenses an early OPTIMAL is measured against the popped node's bound (nodes are popped in bound order, so it underestimates every open node)", "node" in nm and "lp_obj" not in nm and "node.bound" in ast.unparse(g_.value), f"`{ast.unparse(g_)[:80]}`: the node's own LP value is integral where an incumbent is found, so the gap is ~0 whatever is still open, and the first improving integral node is labelled OPTIMAL with a better plan in an open sibling", node=g_)
    sbp = ctx.func("bp", "solve_bp")
    _need(ctx, "C17-O7", "R14 GATE", sbp, "solve_bp: the empty plan is returned only when there is no demand; exactly one of the two modes is chosen from the arguments given", ["if m == 0:\n        return Result({}, 0.0, 0, 0, Status.OPTIMAL)", "if all((d == 0 for d in demands)):\n        return Result({}, 0.0, 0, 0, Status.OPTIMAL)", "cutting_stock = roll_width is not None and piece_sizes is not None\n    custom = pricing_fn is not None", "if cutting_stock and custom:\n        raise ValueError", "if not cutting_stock and (not custom):\n        raise ValueError", "if cutting_stock:"])
    for mod_, fn_ in (("bp", "_solve_bp_custom"), ("cg", "_solve_custom")):
        cf = ctx.func(mod_, fn_)
        _need(ctx, "C17-O3", "R5 PAIRING", cf, "custom mode: the column list holds every initial column once (a plan is a dict keyed by column), and the column set mirrors the list", ["columns: list[tuple[int, ...]] = list(dict.fromkeys((tuple(c) for c in initial_columns)))\n    column_set: set[tuple[int, ...]] = set(columns)"], "a column listed twice becomes two LP variables whose counts overwrite each other in the plan: rolls are lost from the plan and from the objective, and a plan that misses a demand is labelled OPTIMAL")
    bml = ctx.func("bp", "_solve_bounded_master_lp")
    _need(ctx, "C17-O7", "R18 table", bml, "bounded master LP, demand rows: sum_j a_ij x_j - s_i + art_i = d_i", ["for i in range(m):\n        for j, col in enumerate(columns):\n            tab[i][j] = float(col[i])\n        tab[i][n + i] = -1.0\n        tab[i][n + n_surplus + n_slack + n_surplus_bounds + i] = 1.0\n        tab[i][-1] = float(demands[i])"], "a node LP that misses part of a demand row is a relaxation of the wrong problem: its value is not a lower bound, and a plan is labelled OPTIMAL against it")
    _need(ctx, "C17-O7", "R18 table", bml, "bounded master LP, branching rows: x_idx - s + art = lo for a positive lower bound, x_idx + slack = hi for a finite upper bound, one row and one auxiliary column each", ["if lo > eps:\n            tab[row_idx][idx] = 1.0\n            tab[row_idx][n + n_surplus + n_slack + surplus_idx] = -1.0\n            tab[row_idx][n + n_surplus + n_slack + n_surplus_bounds + art_idx] = 1.0\n            tab[row_idx][-1] = lo\n            lower_bound_rows[idx] = row_idx\n            row_idx += 1\n            art_idx += 1\n            surplus_idx += 1", "if hi < float('inf'):\n            tab[row_idx][idx] = 1.0\n            tab[row_idx][n + n_surplus + slack_idx] = 1.0\n            tab[row_idx][-1] = hi\n            row_idx += 1\n            slack_idx += 1", "n_lower = sum((1 for idx in col_bounds if col_bounds[idx][0] > eps))", "n_upper = sum((1 for idx in col_bounds if col_bounds[idx][1] < float('inf')))", "n_vars = n + n_surplus + n_slack + n_surplus_bounds + n_artificial\n    n_rows = m + n_lower + n_upper"], "a branching bound that does not reach the LP leaves both children equal to their parent: the search loops on the same fractional point or prunes on a bound that was never enforced")
    _need(ctx, "C17-O7", "R16 PAIRED-EFFECTS", bml, "bounded master LP, phase 1: the objective row is minus the sum of the rows that hold an artificial, with the artificial columns cleared; a positive artificial sum after phase 1 means the node is infeasible", ["for r in range(n_rows):\n            if abs(tab[r][art_col] - 1.0) < eps:\n                for j in range(n_vars + 1):\n                    tab[-1][j] -= tab[r][j]\n                tab[-1][art_col] = 0.0\n                break", "if tab[-1][-1] < -eps:\n        return ([0.0] * n, [0.0] * m, float('inf'))"])
    _need(ctx, "C17-O7", "R16 PAIRED-EFFECTS", bml, "bounded master LP, phase 2: cost 1 on every pattern column, priced out against the basis; the point is read from the basic pattern columns, the duals from the demand surplus columns, the value from the objective cell", ["for j in range(n_vars + 1):\n        tab[-1][j] = 0.0\n    for j in range(n):\n        tab[-1][j] = 1.0", "for i, b in enumerate(basis):\n        cost = 1.0 if b < n else 0.0\n        if abs(cost) > eps:\n            for j in range(n_vars + 1):\n                tab[-1][j] -= cost * tab[i][j]", "for i, b in enumerate(basis):\n        if b < n:\n            x_vals[b] = max(0.0, tab[i][-1])", "duals = [tab[-1][n + i] for i in range(m)]\n    objective = -tab[-1][-1]", "return (x_vals, duals, objective)"])
    bsol = ctx.func("bp", "_build_solution")
    _need(ctx, "C17-O7", "R5 PAIRING", bsol, "a plan holds exactly the patterns with a positive rounded count", ["if x > eps:\n            count = int(round(x))\n            if count > 0:\n                solution[columns[i]] = count", "return solution"])
    generic_sweeps(ctx)


# ---------------------------------------------------------------------------------------------
from sa import mutate as M  # noqa: E402

CG, BP, PRI = "solvor/cg.py", "solvor/bp.py", "solvor/utils/pricing.py"


def _v_cg_no_flag(tree):
    g = M.find_func(tree, "_solve_cutting_stock")
    M.replace_expr(g, lambda e: M.src_is(e, "converged and total_rolls <= lb"), M.expr("total_rolls <= lb"))


def _v_cg_flag_on_progress(tree):
    g = M.find_func(tree, "_solve_custom")
    M.replace_stmt(g, lambda s: isinstance(s, ast.If) and M.src_has(s.test, "report_progress("), lambda s: [ast.If(test=s.test, body=M.stmts("converged = True\nbreak"), orelse=[])])


def _v_cg_flag_init_true(tree):
    g = M.find_func(tree, "_solve_cutting_stock")
    M.replace_stmt(g, lambda s: M.src_is(s, "converged = False"), M.stmts("converged = True"))


def _v_bp_ignore_flag(tree):
    g = M.find_func(tree, "_branch_and_price")
    M.replace_expr(g, lambda e: M.src_is(e, "not tree and bounds_proven"), M.expr("not tree"))


def _v_bp_gap_unproven(tree):
    g = M.find_func(tree, "_branch_and_price")
    M.replace_expr(g, lambda e: M.src_is(e, "gap < gap_tol and bounds_proven"), M.expr("gap < gap_tol"))


def _v_bp_no_fold(tree):
    g = M.find_func(tree, "_branch_and_price")
    M.replace_stmt(g, lambda s: isinstance(s, ast.If) and M.src_is(s.test, "not converged"), [])


def _v_nlp_flag_after_budget(tree):
    g = M.find_func(tree, "_solve_node_lp")
    M.replace_stmt(g, lambda s: isinstance(s, ast.Return) and M.src_has(s, "cg_iters, converged"), M.stmts("return (x_vals, lp_obj, cg_iters, True)"))


def _v_nlp_infeasible_proven(tree):
    g = M.find_func(tree, "_solve_node_lp")
    M.replace_stmt(g, lambda s: isinstance(s, ast.Return) and M.src_has(s, "cg_iters, False"), M.stmts("return (x_vals, lp_obj, cg_iters, True)"))


def _v_nlp_infeasible_prices(tree):
    g = M.find_func(tree, "_solve_node_lp")
    M.replace_stmt(g, lambda s: isinstance(s, ast.If) and M.src_has(s.test, "lp_obj == float('inf')"), [])


def _v_bp_float_objective(tree):
    g = M.find_func(tree, "_branch_and_price")
    M.replace_stmt(g, lambda s: M.src_is(s, "obj = float(sum(candidate.values()))"), M.stmts("obj = sum((x for x in x_vals if x > eps))"))


def _v_root_lp_obj(tree):
    g = M.find_func(tree, "_branch_and_price")
    M.replace_expr(g, lambda e: M.src_is(e, "float(sum(solution.values()))"), M.expr("lp_obj"))


def _v_pricing_dominance_skip(tree):
    g = M.find_func(tree, "knapsack_pricing")
    M.replace_stmt(g, lambda s: isinstance(s, ast.Assign) and M.src_is(s.targets[0], "size_i"), lambda s: [s] + M.stmts("if any(sizes_int[k] == size_i and values[k] >= values[i] for k in range(n) if k != i):\n    continue"))


def _v_root_integrality_gap_tol(tree):
    g = M.find_func(tree, "_branch_and_price")
    if not M.replace_expr(g, lambda e: M.src_is(e, "_most_fractional(x_vals, eps)"), M.expr("_most_fractional(x_vals, gap_tol)"), count=1):
        raise M.Skip("root integrality test not found")


def _v_bound_map_hoisted(tree):
    g = M.find_func(tree, "_branch_and_price")
    wl = [n for n in ast.walk(g) if isinstance(n, ast.While) and M.src_has(n.test, "max_nodes")]
    if not wl:
        raise M.Skip("node loop not found")
    if not M.replace_stmt(wl[0], lambda s: isinstance(s, ast.Assign) and M.src_is(s.targets[0], "col_bounds"), M.stmts("for idx, lo, hi in node.column_bounds:\n    col_bounds[idx] = (lo, hi)")):
        raise M.Skip("bound map not found")
    g.body.insert(g.body.index(wl[0]), M.stmts("col_bounds = {}")[0])


def _v_gap_against_own_lp(tree):
    g = M.find_func(tree, "_branch_and_price")
    M.replace_expr(g, lambda e: M.src_is(e, "(best_obj - node.bound) / max(abs(best_obj), 1e-10)"), M.expr("(best_obj - lp_obj) / max(abs(best_obj), 1e-10)"))


def _v_duplicate_initial_columns(tree):
    g = M.find_func(tree, "_solve_bp_custom")
    M.replace_expr(g, lambda e: M.src_is(e, "list(dict.fromkeys((tuple(c) for c in initial_columns)))"), M.expr("[tuple(c) for c in initial_columns]"))


def _v_no_drive_out(tree):
    g = M.find_func(tree, "_solve_bounded_master_lp")
    M.replace_stmt(g, lambda s: M.src_has(s, "drive_out_artificials("), [])


def _v_cs_no_verify(tree):
    g = M.find_func(tree, "_solve_cutting_stock")
    M.replace_stmt(g, lambda s: isinstance(s, ast.For) and M.src_has(s, "produced < demands[i]"), [])


def _v_pricing_no_recheck(tree):
    g = M.find_func(tree, "knapsack_pricing")
    M.replace_stmt(g, lambda s: isinstance(s, ast.If) and M.src_has(s.test, "total_size > capacity"), [])


def _v_clear_after_prune(tree):
    g = M.find_func(tree, "_branch_and_price")
    holder = {}

    def grab(s):
        holder["s"] = s
        return []

    M.replace_stmt(g, lambda s: isinstance(s, ast.If) and M.src_is(s.test, "not converged") and M.src_has(s, "bounds_proven = False"), grab)
    M.replace_stmt(g, lambda s: isinstance(s, ast.If) and M.src_has(s.test, "lp_obj == float('inf')") and any(isinstance(x, ast.Continue) for x in ast.walk(s)), lambda s: [s, holder["s"]])


def _v_progress_stop_keeps_proof(tree):
    g = M.find_func(tree, "_branch_and_price")
    M.replace_stmt(g, lambda s: isinstance(s, ast.If) and M.src_has(s.test, "report_progress") and any(isinstance(x, ast.Break) for x in s.body), lambda s: [ast.If(test=s.test, body=[ast.Break()], orelse=[])])


def _v_ratio_test_any_sign(tree):
    g = M.find_func(tree, "simplex_phase")
    M.replace_expr(g, lambda e: M.src_is(e, "tab[i][enter] > eps"), M.expr("abs(tab[i][enter]) > eps"))


def _v_right_child_floor(tree):
    g = M.find_func(tree, "_branch_and_price")
    M.replace_expr(g, lambda e: M.src_is(e, "ceil(val)"), M.expr("floor(val)"))


def _v_pricing_scans_tail_only(tree):
    g = M.find_func(tree, "knapsack_pricing")
    loops = [n for n in ast.walk(g) if isinstance(n, ast.For) and M.src_is(n.iter, "range(cap_int + 1)") and M.src_has(n, "best_w = w")]
    if not loops:
        raise M.Skip("best-cell scan not found")
    loops[0].iter = M.expr("range(max(0, cap_int - min(sizes_int) + 1), cap_int + 1)")


def _v_bound_rows_interleaved(tree):
    g = M.find_func(tree, "_solve_bounded_master_lp")
    loops = [n for n in g.body if isinstance(n, ast.For) and M.src_has(n.iter, "col_bounds")]
    if len(loops) != 2:
        raise M.Skip("two bound-row loops expected")
    upper_if = [x for x in loops[1].body if isinstance(x, ast.If)]
    loops[0].body.extend(upper_if)
    g.body.remove(loops[1])
    slack_init = [x for x in g.body if M.src_is(x, "slack_idx = 0")]
    for x in slack_init:
        g.body.remove(x)
        g.body.insert(g.body.index(loops[0]), x)


def _t_reformat(tree):
    pass


def _v_pricing_capacity_rounded_after_gcd(tree):
    g = M.find_func(tree, "knapsack_pricing")
    k = [i for i, st in enumerate(g.body) if isinstance(st, ast.Assign) and M.src_is(st.targets[0], "sizes_int")]
    if not k:
        raise M.Skip("sizes_int not found")
    g.body[k[0] + 1 : k[0] + 1] = M.stmts("g_ = min(sizes_int)\nif g_ > 1 and all(s_ % g_ == 0 for s_ in sizes_int):\n    cap_int = int(cap_int / g_ + 0.5)\n    sizes_int = [s_ // g_ for s_ in sizes_int]")


def _t_pricing_capacity_floor_after_gcd(tree):
    g = M.find_func(tree, "knapsack_pricing")
    k = [i for i, st in enumerate(g.body) if isinstance(st, ast.Assign) and M.src_is(st.targets[0], "sizes_int")]
    if not k:
        raise M.Skip("sizes_int not found")
    g.body[k[0] + 1 : k[0] + 1] = M.stmts("g_ = min(sizes_int)\nif g_ > 1 and all(s_ % g_ == 0 for s_ in sizes_int):\n    cap_int = cap_int // g_\n    sizes_int = [s_ // g_ for s_ in sizes_int]")


def _v_bp_custom_pricing_wrapped(tree):
    g = M.find_func(tree, "_solve_bp_custom")
    M.insert(g, "return _branch_and_price(", "def pricing(duals):\n    col, reduced_cost = pricing_fn(duals)\n    if col is None or tuple(col) in column_set:\n        return None, reduced_cost\n    return tuple(col), reduced_cost")
    ret = [x for x in g.body if isinstance(x, ast.Return)][0]
    ret.value.args[3] = ast.Name(id="pricing", ctx=ast.Load())


VARIANTS = [
    M.Variant("custom branch-and-price hands the node LP a wrapper that answers None for a column the master holds (seed C17-Q)", BP, _v_bp_custom_pricing_wrapped, "C17-G8"),
    M.Variant("pricing DP: common factor divided out, the capacity rounded to nearest (seed C17-M)", PRI, _v_pricing_capacity_rounded_after_gcd, "C17-O1"),
    M.Variant("twin: common factor divided out, the capacity floor-divided", PRI, _t_pricing_capacity_floor_after_gcd, None),
    M.Variant("custom mode keeps duplicate initial columns (original defect)", BP, _v_duplicate_initial_columns, "C17-O3"),
    M.Variant("the gap is measured against the node's own LP value (original defect)", BP, _v_gap_against_own_lp, "C17-O2"),
    M.Variant("the per-node bound map is hoisted out of the node loop and never cleared (seed C17-L)", BP, _v_bound_map_hoisted, "C17-O7"),
    M.Variant("pricing DP skips an item when another of the same size is worth at least as much (seed C17-G)", PRI, _v_pricing_dominance_skip, "C17-O7"),
    M.Variant("root integrality test of branch-and-price uses gap_tol instead of eps (seed C17-H)", BP, _v_root_integrality_gap_tol, "C17-G8"),
    M.Variant("cg OPTIMAL without the convergence flag (original defect)", CG, _v_cg_no_flag, "C17-O2"),
    M.Variant("cg sets the flag on a progress stop", CG, _v_cg_flag_on_progress, "C17-O2"),
    M.Variant("cg flag starts true", CG, _v_cg_flag_init_true, "C17-O2"),
    M.Variant("bp post-loop OPTIMAL ignores unproven bounds (original defect)", BP, _v_bp_ignore_flag, "C17-O2"),
    M.Variant("bp gap return ignores unproven bounds", BP, _v_bp_gap_unproven, "C17-O2"),
    M.Variant("bp does not fold node flags", BP, _v_bp_no_fold, "C17-O2"),
    M.Variant("node LP claims convergence after the budget", BP, _v_nlp_flag_after_budget, "C17-O2"),
    M.Variant("infeasible restricted master counted as proven", BP, _v_nlp_infeasible_proven, "C17-O2"),
    M.Variant("node LP prices against the zero duals of an infeasible restricted master (seed C17-U)", BP, _v_nlp_infeasible_prices, "C17-O2"),
    M.Variant("bp incumbent scored with the float LP value (original defect)", BP, _v_bp_float_objective, "C17-O3"),
    M.Variant("bp integral root publishes lp_obj (original defect)", BP, _v_root_lp_obj, "C17-O3"),
    M.Variant("bounded master LP keeps basic artificials (original defect)", BP, _v_no_drive_out, "C17-O5"),
    M.Variant("cutting-stock plan published without demand verification", CG, _v_cs_no_verify, "C17-O1"),
    M.Variant("pricing returns the DP pattern without width re-check", PRI, _v_pricing_no_recheck, "C17-O4"),
    M.Variant("'bounds proven' cleared only after the prune (seed C17-B)", BP, _v_clear_after_prune, "C17-O2"),
    M.Variant("progress stop abandons the popped node without clearing 'bounds proven' (original defect)", BP, _v_progress_stop_keeps_proof, "C17-O2"),
    M.Variant("branching-bound rows written in one interleaved pass while the basis assumes grouped rows (seed C17-C)", BP, _v_bound_rows_interleaved, "C17-O6"),
    M.Variant("ratio test accepts rows with a negative entry", PRI, _v_ratio_test_any_sign, "C17-O7"),
    M.Variant("right branch repeats the floor bound", BP, _v_right_child_floor, "C17-O7"),
    M.Variant("pricing looks for the best DP cell only near the capacity (seed C17-F)", PRI, _v_pricing_scans_tail_only, "C17-O7"),
    M.Variant("twin: reformat cg", CG, _t_reformat, None),
    M.Variant("twin: reformat bp", BP, _t_reformat, None),
    M.Variant("twin: reformat pricing", PRI, _t_reformat, None),
]
