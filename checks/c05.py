"""C05 - CP Model.solve never breaks an added constraint (structural part): cp.py, cp_encoder.py."""

from __future__ import annotations

import ast

from sa.cfg import cfg_of
from sa.facts import result_sites
from sa.guards import GuardView, atom_of, names_in
from sa.index import own_nodes
from sa.report import Ctx

from .common import generic_sweeps

from .sat_common import check_binary_add, check_input_copy
from .cp_common import check_alldiff_coverage, check_constraint_table, check_small_semantics, check_cumulative_horizon, check_id_allocation, check_solve_is_read_only, check_domain_fields_fixed, check_report_filter, check_unsat_sites, default_raises, dispatcher_tags, flattener_tags, produced_tags, shape_dispatch_falls_through, structural_len_subjects

EXPLANATION = (
    "Decides structural necessary conditions of 'no returned assignment breaks an added constraint / INFEASIBLE only "
    "if none exists' on cp.py + cp_encoder.py: (O1) every constraint tag a public constructor or comparison operator "
    "can produce is consumed by the DFS dispatcher or routed to SAT, and by the encoder's dispatcher; (O2) every "
    "expression tag the arithmetic operators can produce (add, sub, rsub, mul) is consumed by each flattener, or the "
    "flattener raises on unknown tags; (O3) the linear-shape dispatchers of both back-ends are total (the all-shapes-"
    "false path ends in a general handler or a raise, not in a silent return); (O4) a DFS leaf is recorded only behind "
    "a total decision of every constraint (explicit leaf certifier, or O2 and O3 hold for the propagator); (O5) values "
    "derived from `hints` reach domains/assumptions only if every INFEASIBLE publication is guarded by 'no hints in "
    "force' (hint-free retry); (O6) the two copies of the SAT-required tag set agree; (O7) domains are only ever "
    "narrowed and decode reads each named variable's own literals. (O10) each boolean-id counter is written only by its initialisation and its allocator, auxiliary variables draw their literals from the encoder's allocator, and the encoder stores nothing in the model. (O11) cumulative emits its capacity clauses for every instant up to and including the latest possible start. (O12) nothing on the solve path writes a field of the model. (O13) producer/consumer agreement of constraint and expression tuples, position by position. (O14) the unit-sized propagators agree with their definition clause by clause. NOT decided: semantic correctness of each "
    "propagator/encoding, back-end agreement."
)


def run(ctx: Ctx):
    # ownership / table obligations first: they do not depend on the shape of the back-end selection code
    ctx.step(check_solve_is_read_only, "C05-O12")
    ctx.step(check_domain_fields_fixed, "C05-O12")
    ctx.step(check_report_filter, "C05-O13")
    ctx.step(check_id_allocation, "C05-O10")
    ctags, etags = produced_tags(ctx)
    ctx.floor("constraint tags produced by cp.py", len(ctags), 12)
    ctx.floor("expression tags produced by cp.py", len(etags), 4)
    model_prop = ctx.func("cp", "Model._propagate_constraint")
    enc = ctx.func("cp_encoder", "SATEncoder._encode_constraint")
    dfs = ctx.func("cp", "Model._solve_dfs")
    choose = ctx.func("cp", "Model._choose_solver")

    # O1 / O6
    sat_sets = {}
    for f in (dfs, choose):
        sets = [n for n in own_nodes(f.node) if isinstance(n, ast.Assign) and isinstance(n.value, ast.Set) and all(isinstance(e, ast.Constant) for e in n.value.elts)]
        ctx.require(len(sets) == 1, f"SAT-required tag set not found in {f.qualname}")
        sat_sets[f.qualname] = {e.value for e in sets[0].value.elts}
    ctx.ob("C05-O6", "R18 SIBLING-AGREEMENT", dfs, "SAT-required tag sets of _choose_solver and _solve_dfs agree", len({frozenset(v) for v in sat_sets.values()}) == 1, f"{ {k: sorted(v) for k, v in sat_sets.items()} }", node=dfs.node)
    dfs_tags = dispatcher_tags(model_prop, "constraint")
    enc_tags = dispatcher_tags(enc, "constraint")
    routed = sat_sets[dfs.qualname]
    for tag in sorted(ctags):
        f0, n0 = ctags[tag][0]
        ok = tag in dfs_tags or tag in routed or default_raises(model_prop, "constraint")
        ctx.ob("C05-O1", "R10 TAG-EXHAUSTIVE", model_prop, f"tag:{tag} handled by the DFS dispatcher or routed to SAT", ok, f"produced by {f0.qualname}; the dispatcher's default arm returns 'consistent'", node=n0, rel=model_prop.module.rel)
        ok2 = tag in enc_tags or default_raises(enc, "constraint")
        ctx.ob("C05-O1", "R10 TAG-EXHAUSTIVE", enc, f"tag:{tag} handled by the encoder dispatcher", ok2, f"produced by {f0.qualname}; an unknown tag emits no clause", node=n0, rel=enc.module.rel)
    # a constraint routed to SAT must be encodable
    for tag in sorted(routed):
        ctx.ob("C05-O1", "R10 TAG-EXHAUSTIVE", enc, f"tag:{tag} (SAT-required) handled by the encoder dispatcher", tag in enc_tags, "", node=enc.node)

    # O2 expression tags vs flatteners
    flatteners = [ctx.func("cp", "Model._flatten_sum"), ctx.func("cp_encoder", "SATEncoder._flatten_sum")]
    o2_ok = {}
    for fl in flatteners:
        tags, raises = flattener_tags(fl, ctx.repo)
        o2_ok[fl.module.rel] = True
        for tag in sorted(etags):
            ok = tag in tags or raises
            o2_ok[fl.module.rel] &= ok
            ctx.ob("C05-O2", "R10 TAG-EXHAUSTIVE", fl, f"tag:{tag}->{fl.name}", ok, f"expression tag `{tag}` (from {etags[tag][0][0].qualname}) is neither consumed ({sorted(tags)}) nor rejected: the sub-expression contributes nothing and the constraint is silently weakened", node=fl.node)

    # O3 total shape dispatch (structural shapes only: lengths of term lists coming from the flattener)
    o3_ok = {}
    n_shape_tests = 0
    for q, mod in (("Model._propagate_ne_expr", "cp"), ("SATEncoder._encode_ne_expr", "cp_encoder")):
        f = ctx.func(mod, q)
        subj = structural_len_subjects(f)
        n_arms, falls = shape_dispatch_falls_through(f, subj) if subj else (0, False)
        n_shape_tests += n_arms
        o3_ok[f.module.rel] = not falls
        ctx.ob("C05-O3", "R11 TOTAL-DISPATCH", f, "linear-shape dispatch is total", not falls, f"{n_arms} structural shape tests" + ("; the path on which all are false reaches a normal return without any handler: constraints of other shapes are dropped" if falls else " (none: the linear form is handled generally)" if not n_arms else ""), node=f.node)
    ctx.counters["structural shape tests"] = n_shape_tests
    ctx.step(_fixture_must_fire)

    # O4 leaf gate
    bt = ctx.func("cp", "Model._solve_dfs.backtrack")
    cfg = cfg_of(bt.node)
    gv = GuardView(cfg)
    rec = [n for n in own_nodes(bt.node) if isinstance(n, ast.Call) and isinstance(n.func, ast.Attribute) and n.func.attr == "append" and ast.unparse(n.func.value) == "solutions"]
    ctx.require(len(rec) >= 1, "leaf record site `solutions.append` not found in backtrack")
    # a solution is recorded only at a leaf: every variable has been assigned, i.e. every constraint saw its last
    # variable bound by a propagation of its own.  A record site with variables still open relies on "propagation is at
    # a fixpoint", which the propagators do not promise (x != x, all_different with a repeated variable decide only
    # once the variable is assigned)
    leaf_atoms = ("F:unassigned", atom_of("len(unassigned) == 0"))
    for r_ in rec:
        at_ = gv.guard_atoms(cfg.stmt_node_containing(r_), stable_only=False)
        ctx.ob("C05-O4", "R14 GATE", bt, "a solution is recorded only when no variable is left unassigned", any(a in at_ for a in leaf_atoms), f"`{ast.unparse(r_)[:50]}` under {sorted(a for a in at_ if 'unassigned' in a)}: values of an open domain are emitted without the propagation that assigning them would run", node=r_)
    leafs = [r_ for r_ in rec if any(a in gv.guard_atoms(cfg.stmt_node_containing(r_), stable_only=False) for a in leaf_atoms)]
    ctx.require(len(leafs) >= 1, "no record site behind the leaf test in backtrack")
    rec = leafs[:1] + [r_ for r_ in rec if r_ is not leafs[0]]
    rn = cfg.stmt_node_containing(rec[0])
    at = gv.guard_atoms(rn, stable_only=False)
    certifier = [a for a in at if a.startswith("T:") and "self._" in a and "_propagate" not in a and ("sol" in a or "domains" in a)]
    total_propagator = o2_ok["solvor/cp.py"] and o3_ok["solvor/cp.py"]
    ctx.ob("C05-O4", "R14 GATE", bt, "leaf recorded only behind a total decision of every constraint", bool(certifier) or total_propagator, f"explicit certifier on the record path: {certifier or 'none'}; propagator total: {total_propagator}", node=rec[0])
    # the linear propagator decides the constraint once no variable is free (leaf-complete)
    pn = ctx.func("cp", "Model._propagate_ne_expr")
    pcfg = cfg_of(pn.node)
    pgv = GuardView(pcfg)
    free_lists = set()
    for n in own_nodes(pn.node):
        if isinstance(n, ast.Call) and isinstance(n.func, ast.Attribute) and n.func.attr == "append" and isinstance(n.func.value, ast.Name):
            at2 = pgv.guard_atoms(pcfg.stmt_node_containing(n), stable_only=False)
            if any("len(domains[" in a and ("!= 1" in a or "1 !=" in a or "1 <" in a) for a in at2):
                free_lists.add(n.func.value.id)
    decided = False
    for n in own_nodes(pn.node):
        if isinstance(n, ast.Return) and n.value is not None and not isinstance(n.value, ast.Constant):
            at2 = pgv.guard_atoms(pcfg.node_of(n), stable_only=False)
            if any(a == f"F:{fl}" or a == f"0 == len({fl})" for fl in free_lists for a in at2) and "is_ne" in names_in(n.value):
                decided = True
    if free_lists or not certifier:
        ctx.ob("C05-O4", "R14 GATE", pn, "linear propagator decides (==, !=) on the ground constraint when no variable is free", decided or bool(certifier), f"free-variable lists {sorted(free_lists)}", node=pn.node)

    # the leaf test covers every named variable: unassigned == named vars with |domain| > 1
    un = [n for n in own_nodes(bt.node) if isinstance(n, ast.Assign) and ast.unparse(n.targets[0]) == "unassigned"]
    ctx.require(len(un) == 1, "`unassigned` computation not found")
    txt = ast.unparse(un[0].value)
    ctx.ob("C05-O4", "R14 GATE", bt, "leaf test: no named variable has more than one value left", "len(domains[n]) > 1" in txt and "for n in domains" in txt, txt, node=un[0])
    ifs = [ast.unparse(c) for g_ in un[0].value.generators for c in g_.ifs] if isinstance(un[0].value, ast.ListComp) else ["?"]
    ctx.ob("C05-O4", "R12 NO-CARDINALITY-CUTOFF", bt, "the search branches on every variable that still has more than one value (unnamed ones included)", ifs == ["len(domains[n]) > 1"], f"branching set filtered by {ifs}: a variable that is never branched on is never decided - a model whose constraints over such variables cannot hold is answered with a solution (all_different over three unnamed 0..1 variables)", node=un[0])

    from .sat_common import _need

    ctx.step(_need, "C05-O4", "R18 table", pn, "linear propagator, one free variable: `!=` drops the one forbidden value (when it is a whole number), `==` keeps the values that solve the equation", ["if is_ne:\n    if const % k == 0:\n        domains[name].discard(-const // k)\nelse:\n    domains[name] = {v for v in domains[name] if k * v + const == 0}", "return bool(domains[name])"], "a value pruned by the wrong test is lost for every solution below this node")
    ctx.step(_need, "C05-O4", "R18 table", pn, "linear propagator, two free variables (== only): each variable keeps the values for which the other has a matching one - every coefficient multiplies values of its own variable", ["n1, n2 = free", "k1, k2 = (coefs[n1], coefs[n2])", "targets2 = {k2 * v for v in domains[n2]}", "valid1 = {v for v in domains[n1] if -(k1 * v + const) in targets2}", "targets1 = {k1 * v for v in valid1}", "valid2 = {v for v in domains[n2] if -(k2 * v + const) in targets1}", "if not valid1 or not valid2:\n    return False", "domains[n1] = valid1\ndomains[n2] = valid2"], "with the other variable's coefficient the supports are computed for a different equation: values that do have a partner are pruned, and a satisfiable model is answered INFEASIBLE (or loses solutions) under the DFS back-end only")

    ctx.step(_need, "C05-O4", "R14 GATE", ctx.func("cp", "Model._propagate"), "propagation fails on an empty domain before and after every constraint pass (a variable with an empty range has no value even in a model without constraints)", ["if any((not d for d in domains.values())):\n        return False", "for n, d in domains.items():\n                if not d:\n                    return False"], "without the test in front a model whose only flaw is an empty range reaches the leaf, where the value of that variable is read from an empty set")
    ctx.step(_need, "C05-O13", "R14 GATE", ctx.func("cp", "Model.int_var"), "a variable name is used once per model (both back-ends look variables up by name)", ["if name in self._vars:\n        raise ValueError"], "a second variable of the same name replaces the first in the name table: constraints on the first are then evaluated against the second's domain and the back-ends disagree")
    ctx.step(_need, "C05-O13", "R14 GATE", ctx.func("cp", "Model.add"), "only constraint tuples are stored", ["if not isinstance(constraint, tuple):\n        raise TypeError", "self._constraints.append(constraint)"], "anything else (a comparison Python already evaluated to False) is skipped by both back-ends, so a model with an unsatisfiable 'constraint' is answered with a solution")
    ctx.step(_need, "C05-O13", "R14 GATE", ctx.func("cp", "Model.cumulative"), "cumulative rejects negative demands (the capacity encoding enumerates minimal overloading subsets, which presumes loads only grow)", ["if any((d < 0 for d in demands)):\n        raise ValueError"])
    # O5 hints
    ctx.step(check_hints, dfs, sink="domains")
    ctx.step(check_hints, ctx.func("cp_encoder", "SATEncoder.solve"), sink="assumptions")

    # O7 domains only narrowed by propagators
    ctx.step(check_narrowing)
    ctx.step(check_exact_division)
    ctx.step(check_alldiff_coverage, "C05-O9")
    ctx.step(check_cumulative_horizon, "C05-O11")
    ctx.step(check_constraint_table, "C05-O13")
    ctx.step(check_small_semantics, "C05-O14", encoder=True, dfs=True)
    ctx.step(check_unsat_sites, "C05-O14")
    # the encoder emits two-literal clauses with a repeated literal ([-b, -b] for x != x): the SAT back-end files them
    ctx.step(check_binary_add, "C05-O14")
    ctx.step(check_input_copy, "C05-O14")  # the encoder emits clauses with a repeated literal ([-a, -a] for x != x, for a variable listed twice): none may be filtered away
    generic_sweeps(ctx, skip_stutter_modules=("solvor/sat.py",))


def check_hints(ctx: Ctx, f, sink: str):
    cfg = cfg_of(f.node)
    gv = GuardView(cfg)
    tainted = False
    for n in own_nodes(f.node):
        if isinstance(n, ast.For) and "hints" in names_in(n.iter):
            for s in ast.walk(n):
                if isinstance(s, ast.Assign) and isinstance(s.targets[0], ast.Subscript) and ast.unparse(s.targets[0].value) == sink:
                    tainted = True
                if isinstance(s, ast.Call) and isinstance(s.func, ast.Attribute) and s.func.attr in ("append", "add") and ast.unparse(s.func.value) == sink:
                    tainted = True
    ctx.count(f"hint taint into {sink}", int(tainted))
    n_inf = 0
    for k, s in enumerate(result_sites(f)):
        if "INFEASIBLE" not in s.statuses:
            continue
        at = gv.guard_atoms(s.node, stable_only=False)
        pre = any("len(c)" in a or "any(" in a for a in at) and sink == "assumptions" and not any("sat_result" in a for a in at)
        if pre:
            continue  # decided before hints are applied (empty clause in the encoding)
        n_inf += 1
        guarded = (not tainted) or "F:hints" in at or "hints is None" in at or any(a.startswith("NAND(") and "n_given" in a for a in at) or any("n_given" in a and "<=" in a for a in at)
        if not guarded and sink == "assumptions":
            # SAT path: the INFEASIBLE status must come from a solve made after a hint-free retry: a retry call exists,
            # guarded by 'hints were added', and it dominates-or-bypasses the publication
            retry = sorted((n for n in own_nodes(f.node) if isinstance(n, ast.Call) and isinstance(n.func, ast.Name) and n.func.id == "solve_sat"), key=lambda n: n.lineno)
            if len(retry) >= 2:
                rnode = cfg.stmt_node_containing(retry[-1])
                rat = gv.guard_atoms(rnode, stable_only=False)
                guarded = any("INFEASIBLE" in a for a in rat) and any("n_given" in a or "hints" in a for a in rat) and rnode.id in cfg.backward(s.node) and "n_given" in ast.unparse(retry[-1])
        ctx.ob("C05-O5", "R1 STATUS-GUARD", f, f"INFEASIBLE#{k} cannot be caused by hints (guarded by 'no hints in force' or preceded by a hint-free retry)", guarded, f"hints flow into `{sink}`; guards {sorted(at)[:5]}", node=s.call)
    ctx.floor(f"INFEASIBLE sites after hints in {f.qualname}", n_inf, 1)


def check_exact_division(ctx: Ctx):
    """R32 EXACT-DIVISION: a floor division whose result names a domain value to remove or keep is the solution of
    `k * v + c == 0` only when k divides c; the use must be dominated by a divisibility test on the same operands."""
    m = ctx.repo.module("cp")
    n_sites = 0
    for q in sorted(m.funcs):
        if not q.startswith("Model._propagate"):
            continue
        f = m.funcs[q]
        cfg = cfg_of(f.node)
        gv = GuardView(cfg)
        for n in own_nodes(f.node):
            if isinstance(n, ast.BinOp) and isinstance(n.op, ast.FloorDiv):
                n_sites += 1
                sn = cfg.stmt_node_containing(n)
                at = gv.guard_atoms(sn, stable_only=False)
                num = n.left.operand if isinstance(n.left, ast.UnaryOp) else n.left
                want = {f"0 == {ast.unparse(num)} % {ast.unparse(n.right)}", f"{ast.unparse(num)} % {ast.unparse(n.right)} == 0"}
                ok = bool(want & at)
                ctx.ob("C05-O8", "R32 EXACT-DIVISION", f, f"`{ast.unparse(n)}` is used as an exact quotient only under a divisibility test", ok, f"guards {sorted(a for a in at if '%' in a)}: without it the floor of a non-integral solution is removed from the domain although it is a legal value", node=n)
    ctx.count("floor divisions in propagators", n_sites)


def check_narrowing(ctx: Ctx):
    m = ctx.repo.module("cp")
    n = 0
    for q in sorted(m.funcs):
        if not q.startswith("Model._propagate"):
            continue
        f = m.funcs[q]
        ctx.touch(f)
        for s in own_nodes(f.node):
            if isinstance(s, ast.Assign) and isinstance(s.targets[0], ast.Subscript) and ast.unparse(s.targets[0].value) == "domains":
                n += 1
                v = s.value
                src = ast.unparse(v)
                ok = False
                if isinstance(v, ast.Set) and len(v.elts) == 1:
                    # {val}: must be under `val in domains[..]` (false branch of `val not in domains[...]`)
                    cfg = cfg_of(f.node)
                    at = GuardView(cfg).guard_atoms(cfg.node_of(s), stable_only=False)
                    ok = any(" in domains[" in a and "not in" not in a for a in at)
                elif isinstance(v, ast.SetComp):
                    g0 = v.generators[0]
                    ok = ast.unparse(g0.iter) == ast.unparse(s.targets[0]) and ast.unparse(v.elt) == ast.unparse(g0.target)
                elif isinstance(v, (ast.Name, ast.Call)):
                    nm = v.id if isinstance(v, ast.Name) else (v.func.value.id if isinstance(v.func, ast.Attribute) and isinstance(v.func.value, ast.Name) else None)
                    defs = [ast.unparse(d.value) for d in own_nodes(f.node) if isinstance(d, ast.Assign) and isinstance(d.targets[0], ast.Name) and d.targets[0].id == nm]
                    ok = bool(defs) and all(("domains[" in d and ("&" in d or "for v in domains[" in d)) for d in defs)
                ctx.ob("C05-O7", "R17 narrowing", f, f"domain store `{ast.unparse(s)[:50]}` only narrows the domain", ok, src, node=s)
    ctx.floor("domain stores in propagators", n, 4)


def _fixture_must_fire(ctx: Ctx):
    """Vacuity control for rules whose expected count on the tree is zero: the positive fixture must still match."""
    import os

    from sa.index import AnalysisError, Func, Module

    path = os.path.join(os.path.dirname(os.path.dirname(os.path.abspath(__file__))), "fixtures", "cp_shapes.py")
    src = open(path, encoding="utf-8").read()
    tree = ast.parse(src)
    m = Module("fixture", "fixtures/cp_shapes.py", path, src, tree)
    cls = tree.body[0]
    funcs = {n.name: Func(m, f"Fixture.{n.name}", n, None, "Fixture") for n in cls.body if isinstance(n, ast.FunctionDef)}
    for n in funcs["_flatten_sum"].node.body:
        if isinstance(n, ast.FunctionDef):
            funcs["_flatten_sum"].children[n.name] = Func(m, f"Fixture._flatten_sum.{n.name}", n, funcs["_flatten_sum"], "Fixture")
    f = funcs["shape_dispatch"]
    n_arms, falls = shape_dispatch_falls_through(f, structural_len_subjects(f))
    tags, raises = flattener_tags(funcs["_flatten_sum"])
    if not (n_arms == 2 and falls and tags == {"add"} and not raises):
        raise AnalysisError(f"{ctx.prop}: positive fixture no longer matched by R10/R11 (arms={n_arms}, falls={falls}, tags={tags})")
    ctx.count("fixture matches (R10/R11)", 2)


# ---------------------------------------------------------------------------------------------
from sa import mutate as M  # noqa: E402

CP, ENC = "solvor/cp.py", "solvor/cp_encoder.py"


def _v_drop_sub_tag(tree):
    g = M.find_func(tree, "Model._flatten_sum.flatten")
    # remove the `sub` arm and the final raise: unknown tags are silently ignored again (original defect)
    def strip(ifnode):
        cur = ifnode
        while cur.orelse and isinstance(cur.orelse[0], ast.If):
            nxt = cur.orelse[0]
            if M.src_has(nxt.test, "'sub'"):
                cur.orelse = nxt.orelse
                continue
            cur = nxt
        if cur.orelse and isinstance(cur.orelse[0], ast.Raise):
            cur.orelse = []
    top = next(s for s in g.body if isinstance(s, ast.If))
    strip(top)


def _v_new_tag_unhandled(tree):
    cls = M.find_func(tree, "IntVar")
    cls.body.extend(M.stmts("def __neg__(self):\n    return Expr(('neg', self))"))


def _v_new_constraint_unhandled(tree):
    cls = M.find_func(tree, "Model")
    cls.body.extend(M.stmts("def at_most(self, variables, k):\n    return ('at_most', tuple(variables), k)"))


def _v_shape_dispatch_again(tree):
    g = M.find_func(tree, "Model._propagate_ne_expr")
    g.body = M.stmts(
        "left_terms, left_const = self._flatten_sum(left)\nright_terms, right_const = self._flatten_sum(right)\n"
        "if len(left_terms) == 1 and len(right_terms) == 1:\n    domains[left_terms[0]].discard(0)\nreturn True"
    )


def _v_no_ground_decision(tree):
    g = M.find_func(tree, "Model._propagate_ne_expr")
    M.replace_stmt(g, lambda s: isinstance(s, ast.If) and M.src_is(s.test, "not free"), M.stmts("if not free:\n    return True"))


def _v_hints_hard_dfs(tree):
    g = M.find_func(tree, "Model._solve_dfs")
    M.replace_stmt(g, lambda s: isinstance(s, ast.If) and M.src_is(s.test, "hints") and M.src_has(s, "return self._solve_dfs"), [], count=2)


def _v_hints_hard_sat(tree):
    g = M.find_func(tree, "SATEncoder.solve")
    M.replace_stmt(g, lambda s: isinstance(s, ast.If) and M.src_has(s.test, "n_given") , [])


def _v_sat_sets_differ(tree):
    g = M.find_func(tree, "Model._choose_solver")
    M.replace_expr(g, lambda e: isinstance(e, ast.Set), lambda e: ast.Set(elts=e.elts[:-1]))


def _v_domain_widened(tree):
    g = M.find_func(tree, "Model._propagate_constraint")
    M.replace_stmt(g, lambda s: M.src_is(s, "domains[var1.name] = common"), M.stmts("domains[var1.name] = domains[var1.name] | domains[var2.name]"))


def _v_resync_counter(tree):
    g = M.find_func(tree, "SATEncoder._create_int_var")
    M.replace_stmt(g, lambda s: isinstance(s, ast.Assign) and M.src_has(s.value, "IntVar(self, lb, ub, name)"), M.stmts("var = IntVar(self.model, lb, ub, name)\nself._next_bool = self.model._next_bool"))


def _v_aux_registered(tree):
    g = M.find_func(tree, "SATEncoder._create_int_var")
    M.replace_stmt(g, lambda s: isinstance(s, ast.Return), lambda s: M.stmts("self.model._vars[name] = var") + [s])


def _v_cumulative_last_start_unchecked(tree):
    g = M.find_func(tree, "SATEncoder._encode_cumulative")
    M.replace_expr(g, lambda e: M.src_is(e, "max((s.ub + d for s, d in zip(starts, durations)))"), M.expr("max((s.ub for s in starts))"))


def _t_cumulative_start_instants(tree):
    """equally valid: scan up to and including the latest start"""
    g = M.find_func(tree, "SATEncoder._encode_cumulative")
    M.replace_expr(g, lambda e: M.src_is(e, "max((s.ub + d for s, d in zip(starts, durations)))"), M.expr("max((s.ub for s in starts))"))
    M.replace_expr(g, lambda e: M.src_is(e, "range(min_start, max_end)"), M.expr("range(min_start, max_end + 1)"))


def _v_dfs_plan_cached_on_model(tree):
    g = M.find_func(tree, "Model._solve_dfs")
    first = next(s for s in g.body if not (isinstance(s, ast.Expr) and isinstance(s.value, ast.Constant)))
    M.replace_stmt(g, lambda s: s is first, lambda s: M.stmts("if getattr(self, '_dfs_plan', None) is None:\n    self._dfs_plan = list(self._constraints)") + [s])


def _v_cumulative_args_swapped(tree):
    g = M.find_func(tree, "Model.cumulative")
    M.replace_expr(g, lambda e: isinstance(e, ast.Tuple) and M.src_has(e, "'cumulative'"), M.expr("('cumulative', tuple(starts), tuple(demands), tuple(durations), capacity)"))


def _v_rsub_as_sub(tree):
    g = M.find_func(tree, "IntVar.__rsub__")
    M.replace_expr(g, lambda e: isinstance(e, ast.Tuple) and M.src_has(e, "'rsub'"), M.expr("('sub', self, other)"))


def _v_dispatcher_drops_ne_var(tree):
    g = M.find_func(tree, "SATEncoder._encode_constraint")
    M.replace_expr(g, lambda e: isinstance(e, ast.Compare) and M.src_is(e, "kind == 'ne_var'"), M.expr("kind == 'ne_var_'"))


def _v_ne_var_wrong_side(tree):
    g = M.find_func(tree, "Model._propagate_constraint")
    M.replace_expr(g, lambda e: M.src_is(e, "domains[var2.name].discard(val)"), M.expr("domains[var1.name].discard(val)"))


def _v_sum_stores_callers_list(tree):
    g = M.find_func(tree, "Model.sum_le")
    M.replace_expr(g, lambda e: M.src_is(e, "tuple(variables)"), M.expr("variables"))


def _v_duplicate_names_accepted(tree):
    g = M.find_func(tree, "Model.int_var")
    M.replace_stmt(g, lambda s: isinstance(s, ast.If) and M.src_is(s.test, "name in self._vars"), [])


def _v_add_accepts_anything(tree):
    g = M.find_func(tree, "Model.add")
    M.replace_stmt(g, lambda s: isinstance(s, ast.If) and M.src_has(s.test, "isinstance(constraint, tuple)"), [])


def _v_alldiff_identity(tree):
    g = M.find_func(tree, "Model._propagate_all_different")
    M.replace_expr(g, lambda e: M.src_is(e, "j != i"), M.expr("other is not var"))


def _v_dfs_skips_unnamed(tree):
    g = M.find_func(tree, "Model._solve_dfs")
    M.replace_expr(g, lambda e: isinstance(e, ast.ListComp) and M.src_has(e, "len(domains[n]) > 1"), M.expr("[n for n in domains if len(domains[n]) > 1 and not n.startswith('_')]"))


def _v_aux_through_model(tree):
    g = M.find_func(tree, "SATEncoder._create_int_var")
    M.replace_expr(g, lambda e: M.src_is(e, "IntVar(self, lb, ub, name)"), M.expr("IntVar(self.model, lb, ub, name)"))


def _v_sum_le_empty_unchecked(tree):
    g = M.find_func(tree, "SATEncoder._encode_sum_le")
    M.replace_stmt(g, lambda s: isinstance(s, ast.If) and M.src_is(s.test, "target < 0"), [])


def _v_empty_range_ignored(tree):
    g = M.find_func(tree, "SATEncoder._encode_exactly_one")
    M.replace_stmt(g, lambda s: isinstance(s, ast.Expr) and M.src_is(s.value, "self._clauses.append([])"), [])


def _v_propagate_no_initial_wipeout(tree):
    g = M.find_func(tree, "Model._propagate")
    M.replace_stmt(g, lambda s: isinstance(s, ast.If) and M.src_has(s.test, "any("), [])


def _v_alldiff_propagator_gutted(tree):
    g = M.find_func(tree, "Model._propagate_all_different")
    g.body = M.stmts("return True")


def _t_reformat(tree):
    pass


def _t_rename(tree):
    g = M.find_func(tree, "Model._propagate_ne_expr")
    M.rename_local(g, "free", "open_vars")


def _v_no_divisibility(tree):
    g = M.find_func(tree, "Model._propagate_ne_expr")
    M.replace_stmt(g, lambda s: isinstance(s, ast.If) and M.src_is(s.test, "const % k == 0"), lambda s: s.body)


def _v_alldiff_min_ub(tree):
    g = M.find_func(tree, "SATEncoder._encode_all_different")
    g.body = M.stmts("lo = min((v.lb for v in variables))\nhi = min((v.ub for v in variables))\nfor val in range(lo, hi + 1):\n    lits = []\n    for var in variables:\n        if val in var.bool_vars:\n            lits.append(var.bool_vars[val])\n    if len(lits) > 1:\n        self._encode_at_most_one(lits)")


def _v_linear_chain_without_empty_domain_guard(tree):
    g = M.find_func(tree, "SATEncoder._encode_ne_expr")
    M.replace_stmt(g, lambda st: isinstance(st, ast.If) and M.src_is(st.test, "not sums"), [])


def _v_add_trims_bounds(tree):
    g = M.find_func(tree, "Model.add")
    M.insert(g, "self._constraints.append(constraint)", "if constraint[0] == 'ne_const' and constraint[2] == constraint[1].lb:\n    constraint[1].lb += 1\n    return")


def _v_last_variable_shortcut(tree):
    g = M.find_func(tree, "Model._solve_dfs.backtrack")
    M.insert(g, "var_name = min(", "if len(unassigned) == 1:\n    for val in domains[unassigned[0]]:\n        solutions.append({n: val if n == unassigned[0] else next(iter(d)) for n, d in domains.items() if not n.startswith('_')})\n        if len(solutions) >= solution_limit:\n            return True\n    return False")


def _v_binary_add_same_variable_guard(tree):
    g = M.find_func(tree, "BinaryImplications.add")
    g.body[0:0] = M.stmts("if lit_var(lit_a) == lit_var(lit_b):\n    return")


def _v_report_filter_by_spelling(tree):
    g = M.find_func(tree, "Model._solve_dfs.backtrack")
    M.replace_expr(g, lambda e: M.src_is(e, "n not in self._unnamed"), M.expr("not n.startswith('_')"))


def _v_named_variable_recorded_as_unnamed(tree):
    g = M.find_func(tree, "Model.int_var")
    M.replace_stmt(g, lambda s: M.src_is(s, "self._vars[name] = var"), M.stmts("self._vars[name] = var\nif name.startswith('_'):\n    self._unnamed.add(name)"))


def _v_two_free_wrong_coefficient(tree):
    g = M.find_func(tree, "Model._propagate_ne_expr")
    M.replace_expr(g, lambda e: M.src_is(e, "{k2 * v for v in domains[n2]}"), M.expr("{k1 * v for v in domains[n2]}"))

def _v_sat_drops_repeated_literal_clauses(tree):
    g = M.find_func(tree, "solve_sat")
    M.replace_expr(g, lambda e: isinstance(e, ast.ListComp) and M.src_is(e, "[list(c) for c in clauses]"), M.expr("[list(c) for c in clauses if len({abs(lit) for lit in c}) == len(c)]"))


VARIANTS = [
    M.Variant("solve_sat leaves out every clause that mentions a variable twice, [-a, -a] included (seed C05-AA)", "solvor/sat.py", _v_sat_drops_repeated_literal_clauses, "C05-O14"),
    M.Variant("two-free-variable pruning multiplies the second variable's values by the first coefficient (seed C05-Y)", CP, _v_two_free_wrong_coefficient, "C05-O4"),
    M.Variant("the DFS report drops every name that starts with an underscore, the caller's own included (original defect, ledger row 80)", CP, _v_report_filter_by_spelling, "C05-O13"),
    M.Variant("int_var records every underscore name as made up by the model", CP, _v_named_variable_recorded_as_unnamed, "C05-O13"),
    M.Variant("BinaryImplications.add drops a clause whose two literals share a variable: [-b, -b] from x != x vanishes (seed C05-U)", "solvor/sat.py", _v_binary_add_same_variable_guard, "C05-O14"),
    M.Variant("Model.add turns `x != lb` into a raised lower bound (seed C05-S)", CP, _v_add_trims_bounds, "C05-O12"),
    M.Variant("DFS emits every value of the last open variable without assigning it (seed C05-T)", CP, _v_last_variable_shortcut, "C05-O4"),
    M.Variant("linear chain takes min() of an empty set when a term has no values (original defect: the SAT back-end crashes where DFS says INFEASIBLE)", ENC, _v_linear_chain_without_empty_domain_guard, "C05-O14"),
    M.Variant("a second variable may take a name already in use (original defect)", CP, _v_duplicate_names_accepted, "C05-O13"),
    M.Variant("Model.add stores whatever it is given (original defect)", CP, _v_add_accepts_anything, "C05-O13"),
    M.Variant("sum_le stores the caller's list instead of a snapshot (seed C05-N)", CP, _v_sum_stores_callers_list, "C05-O13"),
    M.Variant("auxiliary variables are built through the model: every solve advances the model's literal counter (original defect)", ENC, _v_aux_through_model, "C05-O10"),
    M.Variant("sum_le over no variables emits nothing (original defect)", ENC, _v_sum_le_empty_unchecked, "C05-O14"),
    M.Variant("a variable with an empty range is skipped by the encoder (original defect)", ENC, _v_empty_range_ignored, "C05-O14"),
    M.Variant("DFS propagation tests for an empty domain only after a constraint pass (original defect)", CP, _v_propagate_no_initial_wipeout, "C05-O4"),
    M.Variant("DFS all_different tells positions apart by identity: all_different([x, x]) is accepted (original defect)", CP, _v_alldiff_identity, "C05-O14"),
    M.Variant("DFS never branches on unnamed (`_v...`) variables (original defect)", CP, _v_dfs_skips_unnamed, "C05-O4"),
    M.Variant("linear != removes the floored quotient without divisibility test (seed C05-A)", CP, _v_no_divisibility, "C05-O8"),
    M.Variant("all_different enumerates values up to the smallest upper bound (seed C05-B)", ENC, _v_alldiff_min_ub, "C05-O9"),

    M.Variant("DFS flattener ignores 'sub' and no longer rejects unknown tags (original defect)", CP, _v_drop_sub_tag, "C05-O2"),
    M.Variant("twin: new operator whose tag the flattener rejects loudly", CP, _v_new_tag_unhandled, None, "raises at run time instead of weakening: flattener rejects unknown tags, so the tag rule is discharged; listed to document that a loud failure is accepted"),
    M.Variant("new constraint constructor without dispatcher arms", CP, _v_new_constraint_unhandled, "C05-O1"),
    M.Variant("DFS propagator dispatches on one shape again (original defect)", CP, _v_shape_dispatch_again, "C05-O3"),
    M.Variant("linear propagator never decides the ground constraint", CP, _v_no_ground_decision, "C05-O4"),
    M.Variant("DFS hints are hard again (original defect)", CP, _v_hints_hard_dfs, "C05-O5"),
    M.Variant("SAT hints are hard again (original defect)", ENC, _v_hints_hard_sat, "C05-O5"),
    M.Variant("solver routing sets disagree", CP, _v_sat_sets_differ, "C05-O6"),
    M.Variant("eq_var propagator widens a domain", CP, _v_domain_widened, "C05-O7"),
    M.Variant("auxiliary variables keep the model's literals and the encoder counter is re-synchronised (seed C05-D)", ENC, _v_resync_counter, "C05-O10"),
    M.Variant("auxiliary variables are registered in the model and re-encoded by the next solve (original defect)", ENC, _v_aux_registered, "C05-O10"),
    M.Variant("cumulative scans start instants with an exclusive upper end (seeds C05-E / C06-F)", ENC, _v_cumulative_last_start_unchecked, "C05-O11"),
    M.Variant("twin: cumulative scans up to and including the latest start", ENC, _t_cumulative_start_instants, None),
    M.Variant("DFS constraint plan cached on the model, never invalidated by add() (seed C05-F)", CP, _v_dfs_plan_cached_on_model, "C05-O12"),
    M.Variant("cumulative constructor stores demands and durations in swapped order", CP, _v_cumulative_args_swapped, "C05-O13"),
    M.Variant("int - x builds a 'sub' tuple (read as x - int)", CP, _v_rsub_as_sub, "C05-O13"),
    M.Variant("encoder dispatcher has no arm for ne_var", ENC, _v_dispatcher_drops_ne_var, "C05-O13"),
    M.Variant("ne_var propagation discards from the assigned variable's own domain", CP, _v_ne_var_wrong_side, "C05-O14"),
    M.Variant("DFS all_different propagator does nothing", CP, _v_alldiff_propagator_gutted, "C05-O14"),
    M.Variant("twin: reformat cp", CP, _t_reformat, None),
    M.Variant("twin: reformat encoder", ENC, _t_reformat, None),
    M.Variant("twin: rename free-variable list", CP, _t_rename, None),
]
