"""C15 - cut vertices, bridges, k-cores, PageRank, Louvain (structural part)."""

from __future__ import annotations

import ast

from sa.cfg import cfg_of
from sa.facts import result_sites
from sa.guards import GuardView, atom_of, names_in
from sa.index import own_nodes
from sa.report import Ctx

from .common import generic_sweeps
from .sat_common import _enclosing_block as _blk_of

from .graph_common import neighbor_loops, node_derived_sets, node_universe_filtered, symmetrised_before_use
from .sat_common import _enclosing_block

EXPLANATION = (
    "Decides structural necessary conditions on articulation.py, kcore.py, pagerank.py, community.py: (O1) undirected "
    "policy - in articulation_points, bridges, kcore_decomposition and louvain the callback's neighbours enter a "
    "symmetric adjacency (both orientations stored, restricted to the node set, no self loops) before any algorithmic "
    "use, so the answer cannot depend on which endpoint lists an edge; pagerank filters neighbours by the node set; "
    "(O2) k-core bucket moves - removal from the old bucket, degree decrement and insertion into bucket "
    "max(k, new degree) occur on one path, only for unpeeled neighbours of degree above k; kcore(k) is {v : core >= k} "
    "of the decomposition; (O3) Louvain bookkeeping - a node removed from its community (membership and degree sum) is "
    "re-added to exactly one community on every path, the reported modularity is a fold over the returned "
    "communities; (O4) PageRank verdict - the converged return is under max_diff < tol, otherwise MAX_ITER; scores "
    "start uniform, dangling mass is redistributed uniformly; (O5) low-link publication guards - cut vertex: root with "
    ">= 2 DFS children, or non-root with low[child] >= disc[v]; bridge: low[child] > disc[v] (strict); the back-edge "
    "update skips exactly the DFS parent. NOT decided: that low-link values are computed correctly, the PageRank "
    "fixed point, modularity arithmetic."
)


def run(ctx: Ctx):
    art = ctx.func("articulation", "articulation_points")
    bri = ctx.func("articulation", "bridges")
    kc = ctx.func("kcore", "kcore_decomposition")
    lou = ctx.func("community", "louvain")
    pr = ctx.func("pagerank", "pagerank")

    # ---- O1 undirected policy (through the shared helper where one is used)
    for f in (art, bri, kc, lou):
        helper = None
        for n in own_nodes(f.node):
            if isinstance(n, ast.Call) and "neighbors" in {a.id for a in n.args if isinstance(a, ast.Name)}:
                g = ctx.repo.resolve_call(f, n)
                if g is not None:
                    helper = g
        target = helper or f
        ctx.touch(target)
        loops = neighbor_loops(target)
        direct = [l for l in neighbor_loops(f)] if helper else []
        ok, detail = (False, "no neighbour loop found") if not loops else symmetrised_before_use(target)
        if direct:
            ok, detail = False, f"{f.qualname} also walks neighbors() directly besides using {helper.qualname}"
        ctx.ob("C15-O1", "R18 SIBLING-AGREEMENT (policy)", f, "callback neighbours enter a symmetric adjacency before use", ok, detail + (" - an edge listed from one endpoint only is invisible from the other, so the answer depends on who lists it" if not ok else ""), node=f.node)
        sets = node_derived_sets(target)
        for g, loop, w in loops:
            bad = node_universe_filtered(g, loop, w, sets)
            cfg = cfg_of(g.node)
            gv = GuardView(cfg)
            v = ast.unparse(loop.iter.args[0])
            noself = all(atom_of(f"{w} != {v}") in gv.guard_atoms(cfg.stmt_node_containing(s), stable_only=False) for s in ast.walk(loop) if isinstance(s, (ast.Assign, ast.AugAssign)) or (isinstance(s, ast.Expr) and isinstance(s.value, ast.Call)))
            ctx.ob("C15-O1", "R18 SIBLING-AGREEMENT (policy)", g, f"{f.name}: adjacency is restricted to the node set and has no self loops", not bad and noself, "", node=loop)
    for g, loop, w in neighbor_loops(pr):
        bad = node_universe_filtered(g, loop, w, node_derived_sets(pr))
        ctx.ob("C15-O1", "R18 SIBLING-AGREEMENT (policy)", pr, "pagerank ignores neighbours outside the node set", not bad, "", node=loop)

    # ---- O5 low-link publication guards
    for f, kind in ((art, "ap"), (bri, "bridge")):
        d = f.children.get("dfs")
        ctx.require(d is not None, f"nested dfs vanished from {f.qualname}")
        ctx.touch(d)
        cfg = cfg_of(d.node)
        gv = GuardView(cfg)
        v = d.params[0]
        loops = [n for n in own_nodes(d.node) if isinstance(n, ast.For)]
        ctx.require(len(loops) == 1, "dfs neighbour loop not found")
        w = ast.unparse(loops[0].target)
        t = ast.unparse(d.node)
        ok = f"discovery[{v}] = time[0]" in t and f"low[{v}] = time[0]" in t and "time[0] += 1" in t
        ctx.ob("C15-O5", "R1 STATUS-GUARD", d, "discovery time and low-link start from one counter", ok, "", node=d.node)
        lows = [n for n in own_nodes(d.node) if isinstance(n, ast.Assign) and ast.unparse(n.targets[0]) == f"low[{v}]" and isinstance(n.value, ast.Call) and ast.unparse(n.value.func) == "min"]
        tree = back = False
        for n in lows:
            args = {ast.unparse(a) for a in n.value.args}
            at = gv.guard_atoms(cfg.node_of(n), stable_only=False)
            if args == {f"low[{v}]", f"low[{w}]"} and f"{w} not in discovery" in at:
                blk = _enclosing_block(d.node, n)
                i = blk.index(n)
                tree = i > 0 and ast.unparse(blk[i - 1]) == f"dfs({w})" and any(ast.unparse(x) == f"parent[{w}] = {v}" for x in blk[:i])
            if args == {f"low[{v}]", f"discovery[{w}]"} and f"{w} in discovery" in at and atom_of(f"{w} != parent[{v}]") in at:
                back = True
        # every neighbour is looked at: a back edge anywhere in the list lowers low[v].  The scan has no way out but its end
        exits = [n for n in ast.walk(loops[0]) if isinstance(n, (ast.Break, ast.Return)) or (isinstance(n, ast.Raise))]
        exits = [n for n in exits if not any(isinstance(fn_, (ast.FunctionDef, ast.Lambda)) and any(n is y for y in ast.walk(fn_)) for fn_ in ast.walk(loops[0]) if fn_ is not loops[0])]
        ctx.ob("C15-O5", "R12 NO-CARDINALITY-CUTOFF", d, "the neighbour scan of the DFS runs to the end of the list (no break / return inside it)", not exits, f"`{ast.unparse(exits[0])}` at line {exits[0].lineno}: a neighbour that is not looked at can be a back edge to an ancestor - without it low[{v}] stays too high and tree edges / vertices on the cycle are reported as bridges / cut vertices" if exits else "", node=exits[0] if exits else loops[0])
        ctx.ob("C15-O5", "R1 STATUS-GUARD", d, "tree edge: set parent, recurse, then low = min(own, child's low)", tree, "", node=d.node)
        ctx.ob("C15-O5", "R1 STATUS-GUARD", d, "back edge: low = min(own, target's discovery time), skipping exactly the DFS parent", back, "", node=d.node)
        if kind == "ap":
            adds = [n for n in own_nodes(d.node) if isinstance(n, ast.Call) and ast.unparse(n.func) == "ap.add"]
            ctx.floor("cut-vertex publication sites", len(adds), 2)
            root_ok = nonroot_ok = False
            for a in adds:
                at = gv.guard_atoms(cfg.stmt_node_containing(a), stable_only=False)
                if f"parent[{v}] is _ROOT" in at and (atom_of("children >= 2") in at or atom_of("children > 1") in at):
                    root_ok = True
                if f"parent[{v}] is not _ROOT" in at and atom_of(f"low[{w}] >= discovery[{v}]") in at:
                    nonroot_ok = True
                ctx.ob("C15-O5", "R1 STATUS-GUARD", d, "cut vertex is published for the visited vertex itself, after the child returned", ast.unparse(a.args[0]) == v and f"{w} not in discovery" in at, "", node=a)
            ctx.ob("C15-O5", "R1 STATUS-GUARD", d, "root is a cut vertex iff it has two or more DFS children", root_ok and "children += 1" in t and "children = 0" in t, "", node=d.node)
            ctx.ob("C15-O5", "R1 STATUS-GUARD", d, "non-root is a cut vertex iff some child has low >= its discovery time", nonroot_ok, "", node=d.node)
        else:
            apps = [n for n in own_nodes(d.node) if isinstance(n, ast.Call) and ast.unparse(n.func) == "bridge_list.append"]
            ctx.floor("bridge publication sites", len(apps), 1)
            for a in apps:
                at = gv.guard_atoms(cfg.stmt_node_containing(a), stable_only=False)
                ctx.ob("C15-O5", "R1 STATUS-GUARD", d, "bridge iff low[child] > discovery[v] (strict), for tree edges only", atom_of(f"low[{w}] > discovery[{v}]") in at and f"{w} not in discovery" in at, f"{sorted(at)}", node=a)
                edge = [n for n in own_nodes(d.node) if isinstance(n, ast.Assign) and ast.unparse(n.targets[0]) == ast.unparse(a.args[0])]
                scope_ = d.node
                arg0 = a.args[0]
                if not edge and isinstance(arg0, ast.Call) and isinstance(arg0.func, ast.Name) and [ast.unparse(x) for x in arg0.args] == [v, w] and ctx.repo.has_func("articulation", arg0.func.id):
                    # the orientation lives in a helper called with (v, child): its returns are read as the assignments,
                    # with its parameters standing for the two labels
                    hf = ctx.repo.func("articulation", arg0.func.id)
                    ps = [p_.arg for p_ in hf.node.args.args]
                    if len(ps) == 2:
                        ren = {ps[0]: v, ps[1]: w}

                        class _Ren(ast.NodeTransformer):
                            def visit_Name(self, n_):
                                return ast.copy_location(ast.Name(id=ren.get(n_.id, n_.id), ctx=n_.ctx), n_)

                        import copy as _copy

                        scope_ = _Ren().visit(_copy.deepcopy(hf.node))
                        edge = [ast.copy_location(ast.Assign(targets=[ast.Name(id="edge", ctx=ast.Store())], value=r_.value), r_) for r_ in ast.walk(scope_) if isinstance(r_, ast.Return) and r_.value is not None]
                        for t_ in ast.walk(scope_):
                            if isinstance(t_, ast.Try):
                                t_.body = [next((e_ for e_ in edge if e_.value is b_.value), b_) if isinstance(b_, ast.Return) else b_ for b_ in t_.body]
                forms = sorted(ast.unparse(e_.value) for e_ in edge)
                canon_f = f"({v}, {w}) if {v} < {w} else ({w}, {v})"
                ctx.ob("C15-O5", "R1 STATUS-GUARD", d, "published edge is the tree edge (v, child): smaller label first, or in tree direction when the labels cannot be compared", canon_f in forms and set(forms) <= {canon_f, f"({v}, {w})", f"({w}, {v})"}, f"{forms}", node=a)
                cmp_sites = [e_ for e_ in edge if ast.unparse(e_.value) == canon_f]
                guarded = all(any(isinstance(t_, ast.Try) and any(e_ is x for b_ in t_.body for x in ast.walk(b_)) and any(h.type is not None and "TypeError" in ast.unparse(h.type) for h in t_.handlers) for t_ in ast.walk(scope_)) for e_ in cmp_sites)
                ctx.ob("C15-O5", "R31 NO-UNDEFINED", d, "comparing the two labels of a bridge cannot end the call (labels are any hashables: None next to ints, strings next to ints)", bool(cmp_sites) and guarded, f"`{canon_f}` outside a `try .. except TypeError`: bridges of a graph with unorderable labels are not returned, the call raises (ledger row 81)", node=a)
        tt = ast.unparse(f.node)
        ctx.ob("C15-O5", "R29 EXACTLY-ONCE", f, "every undiscovered node starts a DFS as a root", "for v in node_list:\n        if v not in discovery:\n            parent[v] = _ROOT\n            dfs(v)" in tt, "", node=f.node)
        rootdef = [n for n in ctx.repo.module("articulation").tree.body if isinstance(n, ast.Assign) and ast.unparse(n.targets[0]) == "_ROOT"]
        ctx.ob("C15-O5", "R1 STATUS-GUARD", f, "the mark of a DFS root is a private object, not a value a node label can take", len(rootdef) == 1 and ast.unparse(rootdef[0].value) == "object()", f"`{ast.unparse(rootdef[0]) if rootdef else '?'}`: with None (or any other ordinary value) as the mark, a node with that label is taken for 'no parent': its children look like roots and the back edge to it is skipped, so cut vertices and bridges next to it are missed", node=rootdef[0] if rootdef else f.node)

    # ---- O2 k-core
    cfg = cfg_of(kc.node)
    gv = GuardView(cfg)
    rm = [n for n in own_nodes(kc.node) if isinstance(n, ast.Call) and isinstance(n.func, ast.Attribute) and n.func.attr in ("remove", "discard") and ast.unparse(n.func.value).startswith("buckets[")]
    ctx.require(len(rm) == 1, "bucket removal not found in kcore_decomposition")
    r = rm[0]
    w = ast.unparse(r.args[0])
    blk = _enclosing_block(kc.node, cfg.stmt_node_containing(r).ast)
    txt = [ast.unparse(x) for x in blk]
    old = ast.unparse(r.func.value.slice)
    ok = f"degree[{w}] = {old} - 1" in txt and any(x == f"new_bucket = max(k, degree[{w}])" for x in txt) and f"buckets[new_bucket].add({w})" in txt and txt.index(ast.unparse(r)) < txt.index(f"buckets[new_bucket].add({w})")
    rnode = cfg.stmt_node_containing(r)
    adds = [cfg.stmt_node_containing(n) for n in own_nodes(kc.node) if isinstance(n, ast.Call) and ast.unparse(n.func) == "buckets[new_bucket].add"]
    escaped = True
    if adds:
        reach = cfg.forward(rnode, avoid={a.id for a in adds})
        escaped = any(cfg.nodes[i].kind in ("for", "return") or (cfg.nodes[i].kind == "test" and cfg.nodes[i].note == "while") for i in reach)
    ctx.ob("C15-O2", "R16 PAIRED-EFFECTS", kc, "bucket move: remove from old bucket, decrement degree, add to bucket max(k, new degree) - on one path", ok and not escaped, "; ".join(txt) + (" | a path from the removal reaches the next iteration without the re-insertion" if escaped else ""), node=r)
    at = gv.guard_atoms(cfg.stmt_node_containing(r), stable_only=False)
    ctx.ob("C15-O2", "R16 PAIRED-EFFECTS", kc, "only unpeeled neighbours whose degree exceeds k are moved", f"{w} not in core_number" in at and atom_of(f"{old} > k") in at and any(ast.unparse(n) == f"{old} = degree[{w}]" for n in own_nodes(kc.node)), f"{sorted(at)}", node=r)
    t = ast.unparse(kc.node)
    ctx.ob("C15-O2", "R16 PAIRED-EFFECTS", kc, "peeling takes nodes from bucket k while it is non-empty, for k ascending, and fixes core number k", "for k in range(max_degree + 1):\n        while buckets[k]:" in t and "v = buckets[k].pop()" in t and "core_number[v] = k" in t, "", node=kc.node)
    ctx.ob("C15-O2", "R16 PAIRED-EFFECTS", kc, "initial buckets hold every node at its degree in the symmetric adjacency", "degree: dict[S, int] = {v: len(adj[v]) for v in node_list}" in t and "buckets[degree[v]].add(v)" in t, "", node=kc.node)
    kk = ctx.func("kcore", "kcore")
    tk = ast.unparse(kk.node)
    ctx.ob("C15-O2", "R5 PAIRING", kk, "kcore(k) = nodes whose core number is at least k, from the decomposition of the same graph", "decomp = kcore_decomposition(nodes, neighbors)" in tk and "{v for v, core in decomp.solution.items() if core >= k}" in tk, "", node=kk.node)

    # ---- O3 Louvain
    cfg = cfg_of(lou.node)
    rem = [n for n in own_nodes(lou.node) if isinstance(n, ast.Call) and isinstance(n.func, ast.Attribute) and n.func.attr == "remove" and ast.unparse(n.func.value).startswith("comm_nodes[")]
    add = [n for n in own_nodes(lou.node) if isinstance(n, ast.Call) and isinstance(n.func, ast.Attribute) and n.func.attr == "add" and ast.unparse(n.func.value).startswith("comm_nodes[")]
    ctx.require(len(rem) == 1 and len(add) == 1, "louvain community removal / insertion sites not found")
    rn, an = cfg.stmt_node_containing(rem[0]), cfg.stmt_node_containing(add[0])
    loop_head = rn.loop
    reach = cfg.forward(rn, avoid={an.id})
    ctx.ob("C15-O3", "R16 PAIRED-EFFECTS", lou, "a node removed from its community is re-added to one community before the next node is processed", loop_head.id not in reach and not any(cfg.nodes[i].kind == "return" for i in reach), "", node=rem[0])
    bl_r = [ast.unparse(x) for x in _enclosing_block(lou.node, rn.ast)]
    ok = "comm_degree[current_comm] -= v_degree" in bl_r and "comm_degree[best_comm] += v_degree" in bl_r and "node_to_comm[v] = best_comm" in bl_r and ast.unparse(add[0]) == "comm_nodes[best_comm].add(v)" and ast.unparse(rem[0]) == "comm_nodes[current_comm].remove(v)"
    ctx.ob("C15-O3", "R16 PAIRED-EFFECTS", lou, "membership set, degree sum and node->community map move together, by the node's own degree", ok, "", node=rem[0])
    lcfg_ = cfg_of(lou.node)
    lgv_ = GuardView(lcfg_)
    for s in result_sites(lou):
        ob_ = s.arg("objective")
        if isinstance(ob_, ast.Constant):
            at_ = lgv_.guard_atoms(s.node, stable_only=False)
            free = any(a_ in at_ for a_ in (atom_of("total_weight == 0"), atom_of("n == 0"), atom_of("n == 1"), atom_of("n <= 1"), "F:node_list", atom_of("len(node_list) == 1"), atom_of("len(node_list) == 0")))
            ctx.ob("C15-O3", "R5 PAIRING", lou, f"a modularity written as the constant {ast.unparse(ob_)} is published only for a graph without edges or with at most one node", free, f"guards {sorted(at_)[:6]}: the modularity of a partition depends on the resolution (one community holding every edge scores 1 - resolution), a constant is right for one resolution only", node=s.call)
    for s in result_sites(lou):
        if ast.unparse(s.arg("solution")) == "communities":
            t = ast.unparse(lou.node)
            ok = ast.unparse(s.arg("objective")) == "modularity" and "for comm in communities:" in t and "communities = [c for c in comm_nodes.values() if c]" in t
            ctx.ob("C15-O3", "R5 PAIRING", lou, "reported modularity is a fold over the returned communities (all non-empty member sets)", ok, "", node=s.call)
            folds = [n for n in own_nodes(lou.node) if isinstance(n, ast.AugAssign) and ast.unparse(n.target) == "modularity"]
            okf = len(folds) == 1
            if okf:
                fn_ = cfg.node_of(folds[0]) if False else cfg_of(lou.node).node_of(folds[0])
                lp_ = fn_.loop
                lcfg_ = cfg_of(lou.node)
                inside = {id(x) for x in ast.walk(lp_.ast)} if lp_ is not None and lp_.kind == "for" else set()
                gs = [b for b in lcfg_.guards(fn_) if b.test.kind == "test" and id(b.test.ast) in inside]
                okf = lp_ is not None and lp_.kind == "for" and ast.unparse(lp_.ast.iter) == "communities" and not gs
            ctx.ob("C15-O3", "R12 NO-CARDINALITY-CUTOFF", lou, "every returned community contributes its term to the reported modularity (internal edges minus the null-model term), unconditionally", bool(okf), "a community that is skipped (e.g. singletons: 'no internal edges') also loses its null-model term -resolution*(deg/2m)^2, so the reported value is not the partition's modularity", node=folds[0] if folds else s.call)

    # the null-model term is linear in `resolution` wherever it is used (gain of a move, gain of staying, final modularity)
    def depends_on_resolution(e, depth=0):
        for x in ast.walk(e):
            if isinstance(x, ast.Name):
                if x.id == "resolution":
                    return True
                if depth < 4:
                    ds = [d.value for d in own_nodes(lou.node) if isinstance(d, ast.Assign) and len(d.targets) == 1 and ast.unparse(d.targets[0]) == x.id]
                    if len(ds) == 1 and depends_on_resolution(ds[0], depth + 1):
                        return True
        return False

    def res_degree(e, depth=0):
        """degree of the polynomial `e` in `resolution` (through single-definition locals)"""
        if isinstance(e, ast.Name):
            if e.id == "resolution":
                return 1
            if depth < 4:
                ds = [d.value for d in own_nodes(lou.node) if isinstance(d, ast.Assign) and len(d.targets) == 1 and ast.unparse(d.targets[0]) == e.id]
                if len(ds) == 1 and depends_on_resolution(ds[0], depth + 1):
                    return res_degree(ds[0], depth + 1)
            return 0
        if isinstance(e, ast.BinOp):
            a, b = res_degree(e.left, depth), res_degree(e.right, depth)
            if isinstance(e.op, ast.Mult):
                return a + b
            if isinstance(e.op, (ast.Div, ast.FloorDiv)):
                return a - b
            if isinstance(e.op, ast.Pow) and isinstance(e.right, ast.Constant) and isinstance(e.right.value, int):
                return a * e.right.value
            return max(a, b)
        if isinstance(e, ast.UnaryOp):
            return res_degree(e.operand, depth)
        if isinstance(e, ast.Call):
            return max([res_degree(a, depth) for a in e.args] + [0])
        return 0

    def terms(e):
        if isinstance(e, ast.BinOp) and isinstance(e.op, (ast.Add, ast.Sub)):
            return terms(e.left) + terms(e.right)
        return [e]

    n_null = 0
    for n in own_nodes(lou.node):
        tgt = val = None
        if isinstance(n, ast.Assign) and ast.unparse(n.targets[0]) in ("gain", "stay_gain"):
            tgt, val = ast.unparse(n.targets[0]), n.value
        elif isinstance(n, ast.AugAssign) and ast.unparse(n.target) == "modularity":
            tgt, val = "modularity", n.value
        if val is None:
            continue
        degs = [res_degree(t_) for t_ in terms(val)]
        n_null += 1
        ctx.ob("C15-O3", "R4 SIGN-UNIT", lou, f"`{tgt}`: the null-model term is linear in the resolution parameter, the edge term does not depend on it", sorted(degs) == [0, 1], f"degrees in `resolution` of the terms of `{ast.unparse(val)[:70]}`: {degs} (modularity is e_c/m - resolution*(d_c/2m)^2; a squared or missing factor is invisible at the default resolution 1)", node=n)
    ctx.floor("louvain null-model expressions", n_null, 3)

    # every non-empty answer of articulation_points / bridges is the container the DFS filled (no second way to an answer)
    for fn_name, cont in (("articulation_points", "ap"), ("bridges", "bridge_list")):
        ff = ctx.func("articulation", fn_name)
        fcfg = cfg_of(ff.node)
        fgv = GuardView(fcfg)
        nonempty = 0
        for s_ in result_sites(ff):
            sol = ast.unparse(s_.arg("solution"))
            if sol in ("set()", "[]"):
                at = fgv.guard_atoms(s_.node)
                ctx.ob("C15-O5", "R14 GATE", ff, "the constant empty answer is given for graphs with at most one node only", atom_of("n == 0") in at or atom_of("n <= 1") in at, f"{sorted(at)}", node=s_.call)
                continue
            nonempty += 1
            ctx.ob("C15-O5", "R14 GATE", ff, f"a non-empty answer is the container `{cont}` filled by the depth-first search", sol == cont, f"`{sol}`: an answer computed some other way (a shortcut for 'trees', a degree count) is valid only under assumptions the input need not meet, e.g. connectedness", node=s_.call)
        ctx.ob("C15-O5", "R14 GATE", ff, "exactly one publication of the search result", nonempty == 1, f"{nonempty}", node=ff.node)
    # PageRank counts every listed link, self links included (the other four modules drop them on purpose)
    pcfg = cfg_of(pr.node)
    pgv = GuardView(pcfg)
    ing = [n for n in own_nodes(pr.node) if isinstance(n, ast.Call) and isinstance(n.func, ast.Attribute) and n.func.attr == "append" and ast.unparse(n.func.value).startswith("incoming[")]
    ctx.floor("link ingestion sites in pagerank", len(ing), 1)
    for i_ in ing:
        at = {a for a in pgv.guard_atoms(pcfg.stmt_node_containing(i_), stable_only=False, after_loops=False) if not a.startswith("IN-LOOP:") and a != atom_of("n != 0")}
        ctx.ob("C15-O4", "R12 NO-CARDINALITY-CUTOFF", pr, "every listed link to a known node is counted, self links included", at == {atom_of("w in node_set")}, f"links are kept under {sorted(at)}: a dropped self link changes the out-degree the node's rank is divided by, and the scores no longer solve the PageRank equation of the given graph", node=i_)

    # ---- O4 PageRank
    cfg = cfg_of(pr.node)
    gv = GuardView(cfg)
    for s in result_sites(pr):
        at = gv.guard_atoms(s.node)
        if "MAX_ITER" in s.statuses:
            ctx.ob("C15-O4", "R2 BUDGET-EXIT", pr, "MAX_ITER only after the iteration loop ran out", s.node.loop is None and any(a.startswith("AFTER-LOOP:range(1, max_iter + 1)") for a in at), f"{sorted(at)}", node=s.call)
        elif ast.unparse(s.arg("solution")) == "scores":
            ctx.ob("C15-O4", "R1 STATUS-GUARD", pr, "converged return only under max_diff < tol, inside the loop", atom_of("max_diff < tol") in at and s.node.loop is not None, f"{sorted(at)}", node=s.call)
    t = ast.unparse(pr.node)
    ctx.ob("C15-O4", "R18 table", pr, "scores start uniform; update = (1-d)/n + d * incoming share + d * dangling mass / n", "{v: 1.0 / n for v in node_list}" in t and "base_score = (1.0 - damping) / n" in t and "dangling_contrib = damping * dangling_sum / n" in t and "new_scores[v] = base_score + damping * rank_sum + dangling_contrib" in t, "", node=pr.node)
    ctx.ob("C15-O4", "R18 table", pr, "dangling nodes are those without counted out-edges; shares divide by the counted out-degree", "if outgoing_count[v] == 0" in t and "scores[u] / outgoing_count[u] for u in incoming[v]" in t and "outgoing_count[v] += 1" in t, "", node=pr.node)
    # multiplicity agreement: the in-link container and the out-degree counter see each listed edge the same number of times
    inc_init = [n.value for n in own_nodes(pr.node) if isinstance(n, (ast.Assign, ast.AnnAssign)) and ast.unparse(n.targets[0] if isinstance(n, ast.Assign) else n.target) == "incoming" and n.value is not None]
    multiset = bool(inc_init) and all(isinstance(v, ast.DictComp) and isinstance(v.value, ast.List) for v in inc_init)
    adds = [n for n in own_nodes(pr.node) if isinstance(n, ast.Call) and isinstance(n.func, ast.Attribute) and ast.unparse(n.func.value).startswith("incoming[")]
    per_listing = all(n.func.attr == "append" for n in adds) and len(adds) == 1
    cnt = [n for n in own_nodes(pr.node) if isinstance(n, ast.AugAssign) and ast.unparse(n.target).startswith("outgoing_count[")]
    same_block = bool(adds) and bool(cnt) and _enclosing_block(pr.node, cfg.stmt_node_containing(adds[0]).ast) is _enclosing_block(pr.node, cnt[0])
    ctx.ob("C15-O4", "R16 PAIRED-EFFECTS", pr, "in-links and out-degree count every listed edge the same number of times (list + append next to the counter increment)", multiset and per_listing and same_block, "a de-duplicated in-link set with a per-listing out-degree (or the reverse) makes a node hand out only part of its score: mass leaks", node=adds[0] if adds else pr.node)
    ctx.ob("C15-O4", "R18 table", pr, "stopping rule aggregates the change |new - old| of every node of the sweep (sum or maximum), starting from zero in each iteration", ("max_diff += abs(new_scores[v] - scores[v])" in t or "max_diff = max(max_diff, abs(new_scores[v] - scores[v]))" in t) and "max_diff = 0.0" in t, "", node=pr.node)
    # ---- found missing by the statement-mutation probe
    # pagerank: the sweep's result becomes the current vector before the convergence test, and that vector is published
    pcfg = cfg_of(pr.node)
    swaps = [n for n in own_nodes(pr.node) if isinstance(n, ast.Assign) and ast.unparse(n) == "scores = new_scores"]
    okw = len(swaps) == 1
    if okw:
        sn = pcfg.node_of(swaps[0])
        okw = sn.loop is not None and sn.loop.kind == "for" and "max_iter" in ast.unparse(sn.loop.ast.iter) and all(pcfg.dominates(sn, s_.node) for s_ in result_sites(pr) if s_.node.loop is sn.loop)
    ctx.ob("C15-O4", "R16 PAIRED-EFFECTS", pr, "every sweep ends by making the new score vector the current one, before the convergence return", bool(okw), "without the hand-over every sweep starts from the uniform vector again: the loop computes the first iterate max_iter times and publishes the start vector", node=swaps[0] if swaps else pr.node)
    # louvain: the degenerate answers are given for the degenerate inputs only, and the weighted graph the modularity is
    # computed on holds every undirected edge once with both degrees counted
    lcfg = cfg_of(lou.node)
    lgv = GuardView(lcfg)
    for s_ in result_sites(lou):
        sol = ast.unparse(s_.arg("solution"))
        at = lgv.guard_atoms(s_.node, stable_only=False)
        if sol == "[{node_list[0]}]":
            ctx.ob("C15-O3", "R14 GATE", lou, "the one-community answer is given exactly for a one-node graph", atom_of("n == 1") in at, f"{sorted(at)}", node=s_.call)
        elif sol == "[{v} for v in node_list]":
            ctx.ob("C15-O3", "R14 GATE", lou, "the all-singletons answer with modularity 0 is given exactly for a graph without edges", atom_of("total_weight == 0") in at, f"{sorted(at)}", node=s_.call)
    degs = [n for n in own_nodes(lou.node) if isinstance(n, ast.AugAssign) and ast.unparse(n.target) in ("degree[v]", "degree[w]")]
    okg = len(degs) == 2
    if okg:
        blk = _blk_of(lou.node, degs[0])
        txt = [ast.unparse(x) for x in blk]
        okg = _blk_of(lou.node, degs[1]) is blk and {"adj[v][w] = 1.0", "adj[w][v] = 1.0", "degree[v] += 1.0", "degree[w] += 1.0"} <= set(txt)
        at = {a for a in lgv.guard_atoms(lcfg.node_of(degs[0]), stable_only=False, after_loops=False) if not a.startswith("IN-LOOP")}
        okg = okg and {atom_of("w not in adj[v]"), atom_of("w in node_set"), atom_of("w != v")} <= at and not (at - {atom_of("w not in adj[v]"), atom_of("w in node_set"), atom_of("w != v"), atom_of("n != 0"), atom_of("n != 1")})
    ctx.ob("C15-O3", "R16 PAIRED-EFFECTS", lou, "an undirected edge enters the weighted graph once: both adjacency entries and both degrees in one block, for neighbours inside the node set, other than the node itself, not yet recorded", bool(okg), "the reported modularity is computed from these degrees and weights: an edge counted twice, or with one degree missing, gives a modularity that is not the partition's", node=degs[0] if degs else lou.node)
    ew = [n for n in own_nodes(lou.node) if isinstance(n, ast.Assign) and ast.unparse(n.targets[0]) == "edges_within"]
    okw2 = len(ew) == 1
    if okw2:
        cmp_ = [c for c in ast.walk(ew[0].value) if isinstance(c, ast.Compare) and any(isinstance(o, (ast.Lt, ast.LtE, ast.Gt, ast.GtE)) for o in c.ops)]
        halves = isinstance(ew[0].value, ast.BinOp) and isinstance(ew[0].value.op, ast.Div) and ast.unparse(ew[0].value.right) in ("2.0", "2")
        okw2 = not cmp_ and halves and "for v in comm for w in comm" in ast.unparse(ew[0].value)
    ctx.ob("C15-O3", "R18 table", lou, "edges inside a community are counted without comparing node labels", bool(okw2), f"`{ast.unparse(ew[0])[:90] if ew else '?'}`: an order test between labels picks one end of each edge only if `<` is a total order on the labels; for frozensets (subset order) or mixed types internal edges are dropped and the reported modularity is not the partition's", node=ew[0] if ew else lou.node)
    generic_sweeps(ctx)


# ---------------------------------------------------------------------------------------------
from sa import mutate as M  # noqa: E402

AR, KC, CM, PR = "solvor/articulation.py", "solvor/kcore.py", "solvor/community.py", "solvor/pagerank.py"


def _v_direct_neighbors(tree):
    g = M.find_func(tree, "articulation_points.dfs")
    M.replace_expr(g, lambda e: M.src_is(e, "adj[v]"), M.expr("neighbors(v)"))


def _v_helper_one_way(tree):
    g = M.find_func(tree, "_undirected_adjacency")
    M.replace_stmt(g, lambda s: M.src_is(s, "adj[w][v] = None"), [])


def _v_root_one_child(tree):
    g = M.find_func(tree, "articulation_points.dfs")
    M.replace_expr(g, lambda e: M.src_is(e, "children >= 2"), M.expr("children >= 1"))


def _v_nonroot_strict(tree):
    g = M.find_func(tree, "articulation_points.dfs")
    M.replace_expr(g, lambda e: M.src_is(e, "low[w] >= discovery[v]"), M.expr("low[w] > discovery[v]"))


def _v_bridge_nonstrict(tree):
    g = M.find_func(tree, "bridges.dfs")
    M.replace_expr(g, lambda e: M.src_is(e, "low[w] > discovery[v]"), M.expr("low[w] >= discovery[v]"))


def _v_back_edge_parent(tree):
    g = M.find_func(tree, "bridges.dfs")
    M.replace_stmt(g, lambda s: isinstance(s, ast.If) and M.src_is(s.test, "w not in discovery"), lambda s: [ast.If(test=s.test, body=s.body, orelse=M.stmts("low[v] = min(low[v], discovery[w])"))])


def _v_kcore_bucket(tree):
    g = M.find_func(tree, "kcore_decomposition")
    M.replace_stmt(g, lambda s: M.src_is(s, "new_bucket = max(k, degree[w])"), M.stmts("new_bucket = degree[w]"))


def _v_kcore_no_remove(tree):
    g = M.find_func(tree, "kcore_decomposition")
    M.replace_stmt(g, lambda s: M.src_is(s, "buckets[old_deg].remove(w)"), M.stmts("buckets[old_deg].discard(w)\nif old_deg > k + 1:\n    continue"))


def _v_kcore_gt(tree):
    g = M.find_func(tree, "kcore")
    M.replace_expr(g, lambda e: M.src_is(e, "core >= k"), M.expr("core > k"))


def _v_ap_tree_shortcut(tree):
    g = M.find_func(tree, "articulation_points")
    M.replace_stmt(g, lambda s: isinstance(s, ast.AnnAssign) and M.src_is(s.target, "discovery"), lambda s: M.stmts("n_edges = sum(len(nbrs) for nbrs in adj.values()) // 2\nif n_edges == n - 1:\n    internal = {v for v in node_list if len(adj[v]) >= 2}\n    return Result(internal, len(internal), n, n)") + [s])


def _v_pagerank_drops_self_links(tree):
    g = M.find_func(tree, "pagerank")
    M.replace_expr(g, lambda e: M.src_is(e, "w in node_set"), M.expr("w in node_set and w != v"), count=1)


def _v_louvain_null_scale(tree):
    g = M.find_func(tree, "louvain")
    M.replace_stmt(g, lambda s: isinstance(s, ast.AnnAssign) and M.src_has(s.target, "node_to_comm"), lambda s: M.stmts("null_scale = resolution / (2 * total_weight)") + [s])
    M.replace_expr(g, lambda e: M.src_is(e, "resolution * (comm_deg / (2 * total_weight)) ** 2"), M.expr("(comm_deg * null_scale) ** 2"))


def _t_louvain_null_scale(tree):
    """equally valid: hoisted factor used linearly"""
    g = M.find_func(tree, "louvain")
    M.replace_stmt(g, lambda s: isinstance(s, ast.AnnAssign) and M.src_has(s.target, "node_to_comm"), lambda s: M.stmts("null_scale = resolution / (2 * total_weight)") + [s])
    M.replace_expr(g, lambda e: M.src_is(e, "resolution * v_degree * sigma_c / (2 * total_weight)"), M.expr("v_degree * sigma_c * null_scale"))
    M.replace_expr(g, lambda e: M.src_is(e, "resolution * (comm_deg / (2 * total_weight)) ** 2"), M.expr("null_scale * comm_deg ** 2 / (2 * total_weight)"))


def _v_louvain_flag_never_cleared(tree):
    g = M.find_func(tree, "louvain")
    M.replace_stmt(g, lambda s: isinstance(s, ast.Assign) and M.src_is(s, "improved = False"), [])


def _v_pagerank_no_handover(tree):
    g = M.find_func(tree, "pagerank")
    M.replace_stmt(g, lambda s: isinstance(s, ast.Assign) and M.src_is(s, "scores = new_scores"), [])


def _v_louvain_one_degree(tree):
    g = M.find_func(tree, "louvain")
    M.replace_stmt(g, lambda s: isinstance(s, ast.AugAssign) and M.src_is(s.target, "degree[w]"), [])


def _v_louvain_skips_singletons(tree):
    g = M.find_func(tree, "louvain")
    loops = [n for n in ast.walk(g) if isinstance(n, ast.For) and M.src_is(n.iter, "communities")]
    if not loops:
        raise M.Skip("modularity loop not found")
    loops[0].body = M.stmts("if len(comm) < 2:\n    continue") + loops[0].body


def _v_louvain_ordered_labels(tree):
    g = M.find_func(tree, "louvain")
    M.replace_stmt(g, lambda s: isinstance(s, ast.Assign) and M.src_is(s.targets[0], "edges_within"), M.stmts("edges_within = sum(adj[v].get(w, 0.0) for v in comm for w in comm if v < w)"))


def _v_root_marked_none(tree):
    M.replace_stmt(tree, lambda s: isinstance(s, ast.Assign) and M.src_is(s.targets[0], "_ROOT"), M.stmts("_ROOT = None"))


def _v_louvain_degree(tree):
    g = M.find_func(tree, "louvain")
    M.replace_stmt(g, lambda s: M.src_is(s, "comm_degree[best_comm] += v_degree"), [])


def _v_pagerank_verdict(tree):
    g = M.find_func(tree, "pagerank")
    M.replace_expr(g, lambda e: M.src_is(e, "max_diff < tol"), M.expr("max_diff < tol or iterations == max_iter"))


def _v_pagerank_nofilter(tree):
    g = M.find_func(tree, "pagerank")
    M.replace_stmt(g, lambda s: isinstance(s, ast.If) and M.src_is(s.test, "w in node_set"), lambda s: M.stmts("incoming.setdefault(w, []).append(v)\noutgoing_count[v] += 1"))


def _t_reformat(tree):
    pass


def _v_incoming_sets(tree):
    g = M.find_func(tree, "pagerank")
    M.replace_expr(g, lambda e: isinstance(e, ast.DictComp) and M.src_is(e, "{v: [] for v in node_list}"), M.expr("{v: set() for v in node_list}"))
    M.replace_expr(g, lambda e: M.src_is(e, "incoming[w].append(v)"), M.expr("incoming[w].add(v)"))


def _v_adjacency_skips_scanned_neighbours(tree):
    g = M.find_func(tree, "_undirected_adjacency")
    outer = [x for x in g.body if isinstance(x, ast.For)][0]
    inner = [x for x in outer.body if isinstance(x, ast.For)][0]
    inner.body.insert(0, M.stmts("if w in scanned:\n    continue")[0])
    outer.body.append(M.stmts("scanned.add(v)")[0])
    g.body.insert(g.body.index(outer), M.stmts("scanned = set()")[0])


def _v_pagerank_edges_drops_tol(tree):
    g = M.find_func(tree, "pagerank_edges")
    for n in ast.walk(g):
        if isinstance(n, ast.Call) and M.src_is(n.func, "pagerank"):
            n.keywords = [k for k in n.keywords if k.arg != "tol"]
            return
    raise M.Skip("pagerank call not found")


def _v_louvain_complete_graph_shortcut(tree):
    g = M.find_func(tree, "louvain")
    k = [i for i, st in enumerate(g.body) if isinstance(st, ast.Assign) and M.src_is(st.targets[0], "node_to_comm") or (isinstance(st, ast.AnnAssign) and M.src_is(st.target, "node_to_comm"))]
    if not k:
        raise M.Skip("node_to_comm initialisation not found")
    g.body[k[0]:k[0]] = M.stmts("if total_weight == n * (n - 1) / 2:\n    return Result([set(node_list)], 0.0, 0, n)")


def _v_pagerank_max_diff_unbound(tree):
    g = M.find_func(tree, "pagerank")
    M.replace_stmt(g, lambda st: isinstance(st, ast.Assign) and M.src_is(st.targets[0], "max_diff") and st in g.body, [])


def _v_bridges_scan_stops_early(tree):
    g = M.find_func(tree, "bridges.dfs")
    M.insert(g, "low[v] = min(low[v], low[w])", "if len(discovery) == n:\n    break", after=True)


def _v_bridge_labels_compared_bare(tree):
    g = M.find_func(tree, "bridges.dfs")
    M.replace_stmt(g, lambda s: isinstance(s, ast.Try), M.stmts("edge = (v, w) if v < w else (w, v)"))


def _v_dispatch_dedups_edges(tree):
    g = M.find_func(tree, "with_rust_backend.wrapper")
    M.insert(g, "selected = get_backend(backend)", "if 'edges' in kwargs:\n    kwargs['edges'] = list(dict.fromkeys(map(tuple, kwargs['edges'])))")


VARIANTS = [
    M.Variant("the back-end dispatch wrapper drops repeated edges for every decorated routine: pagerank_edges loses multi-links (seed C15-AA)", "solvor/rust/__init__.py", _v_dispatch_dedups_edges, "C15-G7"),
    M.Variant("bridges orders the two labels of a bridge with a bare `<`: TypeError for None next to an int (original defect, ledger row 81)", AR, _v_bridge_labels_compared_bare, "C15-O5"),
    M.Variant("bridges stops scanning a neighbour list once every node is numbered (seed C15-T)", AR, _v_bridges_scan_stops_early, "C15-O5"),
    M.Variant("pagerank binds max_diff only inside the sweep loop: max_iter=0 raises where the Rust kernel answers MAX_ITER (original defect, ledger row 63)", PR, _v_pagerank_max_diff_unbound, "C15-G1"),
    M.Variant("pagerank_edges no longer forwards tol (seed C15-R)", PR, _v_pagerank_edges_drops_tol, "C15-G16"),
    M.Variant("louvain answers a complete graph with one community and modularity 0.0 (seed C15-Q)", CM, _v_louvain_complete_graph_shortcut, "C15-O3"),
    M.Variant("shared adjacency helper skips neighbours whose own list was already read (seed C15-O)", AR, _v_adjacency_skips_scanned_neighbours, "C15-O1"),

    M.Variant("pagerank de-duplicates in-links but counts every listing (seed C15-B)", PR, _v_incoming_sets, "C15-O4"),

    M.Variant("articulation DFS walks the callback directly (original defect)", AR, _v_direct_neighbors, "C15-O1"),
    M.Variant("adjacency helper stores one orientation only", AR, _v_helper_one_way, "C15-O1"),
    M.Variant("root counted as cut vertex with one child", AR, _v_root_one_child, "C15-O5"),
    M.Variant("non-root cut vertex test made strict", AR, _v_nonroot_strict, "C15-O5"),
    M.Variant("bridge test made non-strict", AR, _v_bridge_nonstrict, "C15-O5"),
    M.Variant("back-edge update does not skip the parent", AR, _v_back_edge_parent, "C15-O5"),
    M.Variant("k-core neighbour moved below the current level", KC, _v_kcore_bucket, "C15-O2"),
    M.Variant("k-core neighbour sometimes left out of every bucket", KC, _v_kcore_no_remove, "C15-O2"),
    M.Variant("kcore(k) uses a strict threshold", KC, _v_kcore_gt, "C15-O2"),
    M.Variant("louvain forgets to add the degree to the new community", CM, _v_louvain_degree, "C15-O3"),
    M.Variant("louvain counts internal edges with `v < w` on the labels (original defect)", CM, _v_louvain_ordered_labels, "C15-O3"),
    M.Variant("the modularity fold skips singleton communities, null-model term included (seed C15-M)", CM, _v_louvain_skips_singletons, "C15-O3"),
    M.Variant("DFS roots are marked with None, a legal node label (original defect)", AR, _v_root_marked_none, "C15-O5"),
    M.Variant("louvain never clears its `improved` flag: the sweep loop cannot end", CM, _v_louvain_flag_never_cleared, "C15-G2"),
    M.Variant("pagerank does not hand the new vector over to the next sweep", PR, _v_pagerank_no_handover, "C15-O4"),
    M.Variant("louvain counts an edge in one endpoint's degree only", CM, _v_louvain_one_degree, "C15-O3"),
    M.Variant("articulation_points answers 'all internal nodes' when there are n - 1 edges (seed C15-G)", "solvor/articulation.py", _v_ap_tree_shortcut, "C15-O5"),
    M.Variant("pagerank drops self links like the undirected modules do (seed C15-H)", "solvor/pagerank.py", _v_pagerank_drops_self_links, "C15-O4"),
    M.Variant("louvain squares the hoisted resolution factor in the final modularity (seed C15-D)", CM, _v_louvain_null_scale, "C15-O3"),
    M.Variant("twin: louvain hoists resolution/(2m) and uses it linearly", CM, _t_louvain_null_scale, None),
    M.Variant("pagerank reports convergence on the last iteration regardless", PR, _v_pagerank_verdict, "C15-O4"),
    M.Variant("pagerank counts links to unknown nodes", PR, _v_pagerank_nofilter, "C15-O1"),
    M.Variant("twin: reformat articulation", AR, _t_reformat, None),
    M.Variant("twin: reformat kcore", KC, _t_reformat, None),
    M.Variant("twin: reformat community", CM, _t_reformat, None),
    M.Variant("twin: reformat pagerank", PR, _t_reformat, None),
]
