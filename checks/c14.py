"""C14 - SCC / topological sort / condensation (structural part): solvor/scc.py."""

from __future__ import annotations

import ast

from sa.cfg import cfg_of
from sa.facts import result_sites
from sa.guards import GuardView, atom_of, names_in
from sa.index import own_nodes
from sa.report import Ctx

from .common import generic_sweeps

from .graph_common import edge_wrapper_adjacency, edge_wrapper_returns_generic, neighbor_loops, node_derived_sets, node_universe_filtered
from .sat_common import _enclosing_block

EXPLANATION = (
    "Decides structural necessary conditions on solvor/scc.py: (O1) node-universe policy - in all three "
    "(nodes, neighbors) routines every use of a callback neighbour as key / recursion argument / element is guarded by "
    "membership in a set derived from `nodes` (siblings must agree); (O2) Tarjan skeleton - index and low-link are set "
    "from one counter on entry, tree edges take min with the child's low-link, edges to on-stack nodes take min with "
    "the target's index, a component is popped exactly when low-link == index, the pop loop removes each node from the "
    "on-stack set and ends at the root, components are appended at completion (sinks first); (O3) Kahn - in-degree "
    "decrement and enqueue-at-zero are paired, INFEASIBLE iff fewer nodes were output than exist; (O4) condensation "
    "adds an edge only between different components, keyed by the component of each endpoint, over the very partition "
    "SCC returned. NOT decided: that low-link arithmetic identifies exactly the mutual-reachability classes."
)


def check_kahn(ctx: Ctx, oid: str):
    """Kahn's algorithm bookkeeping: shared with C12 (the Rust kernel counts every edge occurrence; so must Python)."""
    ts = ctx.func("scc", "topological_sort")
    cfg = cfg_of(ts.node)
    gv = GuardView(cfg)
    dec = [n for n in own_nodes(ts.node) if isinstance(n, ast.AugAssign) and isinstance(n.op, ast.Sub) and ast.unparse(n.target).startswith("in_degree[")]
    ctx.require(len(dec) == 1, "in-degree decrement not found in topological_sort")
    w = ast.unparse(dec[0].target.slice)
    blk = _enclosing_block(ts.node, dec[0])
    i = blk.index(dec[0])
    nxt = blk[i + 1] if i + 1 < len(blk) else None
    ok = isinstance(nxt, ast.If) and ast.unparse(nxt.test) in (f"in_degree[{w}] == 0", f"0 == in_degree[{w}]") and ast.unparse(nxt.body[0]) == f"queue.append({w})"
    ctx.ob(oid, "R16 PAIRED-EFFECTS", ts, "in-degree decrement is followed by enqueue-at-zero of the same node", ok, "", node=dec[0])
    inc = [n for n in own_nodes(ts.node) if isinstance(n, ast.AugAssign) and isinstance(n.op, ast.Add) and ast.unparse(n.target).startswith("in_degree[")]
    ok = len(inc) == 1
    if ok:
        b2 = _enclosing_block(ts.node, inc[0])
        ok = any(ast.unparse(x).startswith("adjacency[") and ".append(" in ast.unparse(x) for x in b2)
    ctx.ob(oid, "R16 PAIRED-EFFECTS", ts, "each stored edge is counted once in the target's in-degree", ok, "", node=ts.node)
    tt = ast.unparse(ts.node)
    ctx.ob(oid, "R16 PAIRED-EFFECTS", ts, "queue starts with exactly the zero in-degree nodes; output order is pop order (FIFO)", "deque((v for v in node_list if in_degree[v] == 0))" in tt and "v = queue.popleft()" in tt and "result.append(v)" in tt, "", node=ts.node)
    pops = [n for n in own_nodes(ts.node) if isinstance(n, ast.Call) and ast.unparse(n.func) == "queue.popleft"]
    if len(pops) == 1:
        lp_ = cfg.stmt_node_containing(pops[0]).loop
        ctx.ob(oid, "R2 BUDGET-EXIT", ts, "the output loop runs until the queue of ready nodes is empty", lp_ is not None and lp_.kind == "test" and ast.unparse(lp_.ast) in ("queue", "len(queue) > 0", "len(queue) != 0", "0 < len(queue)"), f"loop test `{ast.unparse(lp_.ast) if lp_ is not None and lp_.kind == 'test' else '?'}`: ready nodes left in the queue are missing from the output, and an acyclic graph is reported as cyclic", node=pops[0])
    for s in result_sites(ts):
        at = gv.guard_atoms(s.node)
        if "INFEASIBLE" in s.statuses:
            ctx.ob(oid, "R1 STATUS-GUARD", ts, "INFEASIBLE iff fewer nodes were output than exist", atom_of("len(result) != len(node_list)") in at, f"{sorted(at)}", node=s.call)
        else:
            ctx.ob(oid, "R1 STATUS-GUARD", ts, "an order is published only when every node was output", atom_of("len(result) == len(node_list)") in at and ast.unparse(s.arg("solution")) == "result", f"{sorted(at)}", node=s.call)



def run(ctx: Ctx):
    ctx.assume("node labels are equal to themselves (x == x): Tarjan pops its stack until `w == v`, which a NaN label never satisfies")
    fs = {q: ctx.func("scc", q) for q in ("strongly_connected_components", "topological_sort", "condense")}
    n_loops = 0
    for q, f in fs.items():
        sets = node_derived_sets(f)
        for g, loop, w in neighbor_loops(f):
            n_loops += 1
            bad = node_universe_filtered(g, loop, w, sets)
            ctx.ob("C14-O1", "R18 SIBLING-AGREEMENT (policy)", g, f"callback neighbour `{w}` is used only after a membership test against the node set", not bad, f"node-derived sets {sorted(sets)}; unguarded uses at lines {sorted({b.lineno for b in bad})}: a neighbour outside `nodes` becomes a node of the answer" if bad else "", node=loop)
    ctx.floor("neighbour loops in scc.py", n_loops, 3)
    # the edge-list variants hand the generic routines the graph they were given
    for wname in ("strongly_connected_components_edges", "topological_sort_edges"):
        ctx.step(edge_wrapper_adjacency, "C14-O1", ctx.func("scc", wname), wname)
        ctx.step(edge_wrapper_returns_generic, "C14-O1", ctx.func("scc", wname), wname, wname[: -len("_edges")])

    # O2 Tarjan
    sc = ctx.func("scc", "strongly_connected_components.strongconnect")
    cfg = cfg_of(sc.node)
    gv = GuardView(cfg)
    t = ast.unparse(sc.node)
    v = sc.params[0]
    ok = f"index[{v}] = index_counter[0]" in t and f"low_link[{v}] = index_counter[0]" in t and "index_counter[0] += 1" in t and f"stack.append({v})" in t and f"on_stack.add({v})" in t
    ctx.ob("C14-O2", "R16 PAIRED-EFFECTS", sc, "entry: index and low-link from one counter, node pushed and marked on-stack", ok, "", node=sc.node)
    lows = [n for n in own_nodes(sc.node) if isinstance(n, ast.Assign) and ast.unparse(n.targets[0]) == f"low_link[{v}]" and isinstance(n.value, ast.Call) and ast.unparse(n.value.func) == "min"]
    tree = back = False
    for n in lows:
        args = {ast.unparse(a) for a in n.value.args}
        at = gv.guard_atoms(cfg.node_of(n), stable_only=False)
        loop = cfg.node_of(n).loop
        w = ast.unparse(loop.ast.target) if loop is not None and loop.kind == "for" else "w"
        if args == {f"low_link[{v}]", f"low_link[{w}]"} and f"{w} not in index" in at:
            # must follow the recursive call in the same block
            blk = _enclosing_block(sc.node, n)
            i = blk.index(n)
            tree = i > 0 and ast.unparse(blk[i - 1]) == f"strongconnect({w})"
        if args == {f"low_link[{v}]", f"index[{w}]"} and f"{w} in on_stack" in at and f"{w} in index" in at:
            back = True
    ctx.ob("C14-O2", "R16 PAIRED-EFFECTS", sc, "tree edge: recurse, then low-link = min(own, child's low-link)", tree, "", node=sc.node)
    ctx.ob("C14-O2", "R16 PAIRED-EFFECTS", sc, "edge to an on-stack node: low-link = min(own, target's index); finished nodes are ignored", back, "", node=sc.node)
    roots = [n for n in own_nodes(sc.node) if isinstance(n, ast.If) and ast.unparse(n.test) in (f"low_link[{v}] == index[{v}]", f"index[{v}] == low_link[{v}]")]
    ctx.ob("C14-O2", "R1 STATUS-GUARD", sc, "a component is emitted exactly when low-link == index (after all neighbours were processed)", len(roots) == 1 and sc.node.body.index(roots[0]) == len(sc.node.body) - 1, "", node=sc.node)
    if roots:
        pops = [n for n in ast.walk(roots[0]) if isinstance(n, ast.While)]
        ok = len(pops) == 1
        if ok:
            pt = ast.unparse(pops[0])
            ok = "w = stack.pop()" in pt and "on_stack.remove(w)" in pt and "component.append(w)" in pt and f"if w == {v}:\n        break" in pt
        ctx.ob("C14-O2", "R16 PAIRED-EFFECTS", sc, "pop loop: every popped node leaves the on-stack set and joins the component; the loop ends at the root", ok, "", node=roots[0])
        app = [n for n in ast.walk(roots[0]) if isinstance(n, ast.Call) and ast.unparse(n.func) == "components.append"]
        ctx.ob("C14-O2", "R16 PAIRED-EFFECTS", sc, "the finished component is appended once, after the pop loop (completion order = sinks first)", len(app) == 1 and ast.unparse(app[0].args[0]) == "component" and cfg.stmt_node_containing(app[0]).loop is None, "", node=roots[0])
    top = fs["strongly_connected_components"]
    tt = ast.unparse(top.node)
    ctx.ob("C14-O2", "R29 EXACTLY-ONCE", top, "every node of the node list not yet indexed starts a DFS", "for v in node_list:\n        if v not in index:\n            strongconnect(v)" in tt, "", node=top.node)
    for s in result_sites(top):
        ctx.ob("C14-O2", "R5 PAIRING", top, "published solution is the component list, objective its length", ast.unparse(s.arg("solution")) == "components" and ast.unparse(s.arg("objective")) == "len(components)", "", node=s.call)

    sc_ = ctx.func("scc", "strongly_connected_components.strongconnect")
    nloops = [n for n in own_nodes(sc_.node) if isinstance(n, ast.For) and "neighbors" in ast.unparse(n.iter)]
    ctx.floor("neighbour loops in strongconnect", len(nloops), 1)
    for nl in nloops:
        early = [x for x in ast.walk(nl) if isinstance(x, (ast.Break, ast.Return))]
        ctx.ob("C14-O2", "R21 search discipline", sc_, "the depth-first search looks at every neighbour of a node (no early exit from the neighbour loop)", not early, "a neighbour that is skipped is visited later as a new root: if it reaches back the component is split, otherwise its component is listed after one that has an edge into it", node=early[0] if early else nl)
    # O3 Kahn
    ctx.step(check_kahn, "C14-O3")

    # O4 condense
    cd = fs["condense"]
    cfg = cfg_of(cd.node)
    gv = GuardView(cfg)
    adds = [n for n in own_nodes(cd.node) if isinstance(n, ast.Call) and isinstance(n.func, ast.Attribute) and n.func.attr == "add" and ast.unparse(n.func.value).startswith("condensed_edges[")]
    ctx.require(len(adds) == 1, "condensed edge insertion not found")
    a = adds[0]
    at = gv.guard_atoms(cfg.stmt_node_containing(a), stable_only=False)
    src, dst = ast.unparse(a.func.value.slice), ast.unparse(a.args[0])
    defs = {ast.unparse(n.targets[0]): ast.unparse(n.value) for n in own_nodes(cd.node) if isinstance(n, ast.Assign) and isinstance(n.targets[0], ast.Name)}
    ok = atom_of(f"{src} != {dst}") in at and defs.get(src) == "node_to_component[v]" and defs.get(dst) == "node_to_component[w]"
    ctx.ob("C14-O4", "R1 STATUS-GUARD", cd, "an inter-component edge is added only between different components, keyed by the component of each endpoint", ok, f"{sorted(at)}", node=a)
    t = ast.unparse(cd.node)
    ctx.ob("C14-O4", "R5 PAIRING", cd, "the component map is built from the partition SCC returned for the same node list and callback", "scc_result = strongly_connected_components(node_list, neighbors)" in t and "components: list[list[S]] = scc_result.solution" in t and "node_to_component[node] = i" in t, "", node=cd.node)
    sites_cd = result_sites(cd)
    okp = len(sites_cd) == 1
    if okp:
        sol = sites_cd[0].arg("solution")
        okp = isinstance(sol, ast.Tuple) and [ast.unparse(e) for e in sol.elts] == ["condensed_nodes", "adjacency"]
        adj_defs = [n.value for n in own_nodes(cd.node) if isinstance(n, (ast.Assign, ast.AnnAssign)) and ast.unparse(n.targets[0] if isinstance(n, ast.Assign) else n.target) == "adjacency"]
        okp = okp and len(adj_defs) == 1 and "condensed_edges[i]" in ast.unparse(adj_defs[0])
    ctx.ob("C14-O4", "R14 GATE", cd, "condense has one publication, whose adjacency is built from the filtered inter-component edge set", okp, f"{len(sites_cd)} Result construction(s): a second path (fast path) bypasses the different-components filter, so self loops or intra-component edges leak into the condensation", node=sites_cd[-1].call if sites_cd else cd.node)
    ctx.ob("C14-O4", "R5 PAIRING", cd, "condensed nodes are the frozen components, adjacency is keyed by them", "[frozenset(c) for c in components]" in t and "condensed_nodes[i]: [condensed_nodes[j] for j in condensed_edges[i]]" in t, "", node=cd.node)
    generic_sweeps(ctx)


# ---------------------------------------------------------------------------------------------
from sa import mutate as M  # noqa: E402

SC = "solvor/scc.py"


def _v_no_filter(tree):
    g = M.find_func(tree, "strongly_connected_components.strongconnect")
    M.replace_stmt(g, lambda s: isinstance(s, ast.If) and M.src_is(s.test, "w not in node_set"), [])


def _v_topo_no_filter(tree):
    g = M.find_func(tree, "topological_sort")
    M.replace_stmt(g, lambda s: isinstance(s, ast.If) and M.src_is(s.test, "w in node_set"), lambda s: s.body)


def _v_lowlink_of_onstack(tree):
    g = M.find_func(tree, "strongly_connected_components.strongconnect")
    M.replace_expr(g, lambda e: M.src_is(e, "min(low_link[v], index[w])"), M.expr("min(low_link[v], low_link[v])"))


def _v_pop_no_remove(tree):
    g = M.find_func(tree, "strongly_connected_components.strongconnect")
    M.replace_stmt(g, lambda s: M.src_is(s, "on_stack.remove(w)"), [])


def _v_finished_counted(tree):
    g = M.find_func(tree, "strongly_connected_components.strongconnect")
    M.replace_expr(g, lambda e: M.src_is(e, "w in on_stack"), M.expr("True"))


def _v_kahn_no_enqueue_test(tree):
    g = M.find_func(tree, "topological_sort")
    M.replace_stmt(g, lambda s: isinstance(s, ast.If) and M.src_is(s.test, "in_degree[w] == 0"), lambda s: s.body)


def _v_kahn_verdict(tree):
    g = M.find_func(tree, "topological_sort")
    M.replace_expr(g, lambda e: M.src_is(e, "len(result) != len(node_list)"), M.expr("len(result) == 0"))


def _v_condense_self_edges(tree):
    g = M.find_func(tree, "condense")
    M.replace_stmt(g, lambda s: isinstance(s, ast.If) and M.src_is(s.test, "v_comp != w_comp"), lambda s: s.body)


def _v_condense_fast_path(tree):
    g = M.find_func(tree, "condense")
    M.replace_stmt(g, lambda s: isinstance(s, ast.AnnAssign) and M.src_has(s.target, "node_to_component"), lambda s: M.stmts("if len(components) == len(node_list):\n    ns = set(node_list)\n    return Result(([frozenset([v]) for v in node_list], {frozenset([v]): [frozenset([w]) for w in dict.fromkeys(neighbors(v)) if w in ns] for v in node_list}), len(node_list), scc_result.iterations, len(node_list))") + [s])


def _v_topo_successor_sets(tree):
    g = M.find_func(tree, "topological_sort")
    M.replace_expr(g, lambda e: M.src_is(e, "adjacency[v].append(w)"), M.expr("adjacency[v].add(w)"))
    M.replace_expr(g, lambda e: M.src_is(e, "{v: [] for v in node_list}"), M.expr("{v: set() for v in node_list}"))


def _v_tarjan_early_break(tree):
    g = M.find_func(tree, "strongly_connected_components.strongconnect")
    M.replace_stmt(g, lambda s: isinstance(s, ast.Assign) and M.src_has(s, "min(low_link[v], index[w])"), lambda s: [s] + M.stmts("if low_link[v] == 0:\n    break"))


def _t_reformat(tree):
    pass


def _v_edges_wrappers_drop_self_loops(tree):
    for name in ("strongly_connected_components_edges", "topological_sort_edges"):
        g = M.find_func(tree, name)
        M.replace_stmt(g, lambda st: isinstance(st, ast.Expr) and M.src_is(st.value, "adj[u].append(v)"), lambda st: M.stmts("if u != v:\n    adj[u].append(v)"))


def _v_toposort_edges_sorted_fast_path(tree):
    g = M.find_func(tree, "topological_sort_edges")
    M.insert(g, "adj", "if not any(v < u for u, v in edges):\n    return Result(list(range(n_nodes)), n_nodes, n_nodes, n_nodes)")


def _v_edges_reversed(tree):
    g = M.find_func(tree, "strongly_connected_components_edges")
    M.replace_stmt(g, lambda s: M.src_is(s, "adj[u].append(v)"), M.stmts("adj[v].append(u)"))


VARIANTS = [
    M.Variant("the edge-list SCC wrapper files each edge under its head: Tarjan runs on the reversed graph, components come out sources first (seed C14-Y)", SC, _v_edges_reversed, "C14-O1"),
    M.Variant("topological_sort_edges returns 0..n-1 when no edge points backwards - a self loop does not (seed C14-T)", SC, _v_toposort_edges_sorted_fast_path, "C14-O1"),
    M.Variant("edge-list wrappers drop self loops while building the successor lists (seed C14-O)", SC, _v_edges_wrappers_drop_self_loops, "C14-O1"),
    M.Variant("SCC follows neighbours outside the node set (original defect)", SC, _v_no_filter, "C14-O1"),
    M.Variant("topological_sort counts edges to unknown nodes", SC, _v_topo_no_filter, "C14-O1"),
    M.Variant("Tarjan ignores edges to on-stack nodes", SC, _v_lowlink_of_onstack, "C14-O2"),
    M.Variant("popped nodes stay in the on-stack set", SC, _v_pop_no_remove, "C14-O2"),
    M.Variant("edges to finished nodes lower the low-link", SC, _v_finished_counted, "C14-O2"),
    M.Variant("Kahn enqueues before the in-degree reaches zero", SC, _v_kahn_no_enqueue_test, "C14-O3"),
    M.Variant("topological_sort INFEASIBLE only when nothing was output", SC, _v_kahn_verdict, "C14-O3"),
    M.Variant("condensation keeps intra-component edges", SC, _v_condense_self_edges, "C14-O4"),
    M.Variant("condense fast path for all-singleton components keeps self loops (seed C14-D)", SC, _v_condense_fast_path, "C14-O4"),
    M.Variant("topological_sort keeps successor sets but counts every edge occurrence (seed C12-D)", SC, _v_topo_successor_sets, "C14-O3"),
    M.Variant("Tarjan leaves the neighbour loop once the low-link reached 0 (seed C14-H)", SC, _v_tarjan_early_break, "C14-O2"),
    M.Variant("twin: reformat", SC, _t_reformat, None),
]
